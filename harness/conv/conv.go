// Package conv translates the parser's AST into the harness AST. It is used to calibrate the
// reference interpreter on existing programs (corpus, documentation examples, accepted mutants);
// the generator-driven checks do not need it.
package conv

import (
	"fmt"

	"evylang.dev/evy/pkg/parser"

	"verif/gen"
)

type unsupported string

// Program converts prog; ok is false if a construct cannot be represented.
func Program(prog *parser.Program) (out *gen.Program, err error) {
	defer func() {
		if r := recover(); r != nil {
			if u, ok := r.(unsupported); ok {
				err = fmt.Errorf("unsupported: %s", string(u))
				return
			}
			panic(r)
		}
	}()
	return &gen.Program{Stmts: stmts(prog.Statements)}, nil
}

func Type(t *parser.Type) *gen.Type {
	if t == nil {
		panic(unsupported("nil type"))
	}
	switch t.Name {
	case parser.NUM:
		return gen.TNum
	case parser.STRING:
		return gen.TStr
	case parser.BOOL:
		return gen.TBool
	case parser.ANY:
		return gen.TAny
	case parser.NONE:
		return gen.TNone
	case parser.ARRAY:
		if t.Sub == nil {
			return gen.ArrOf(gen.TNone)
		}
		return gen.ArrOf(Type(t.Sub))
	case parser.MAP:
		if t.Sub == nil {
			return gen.MapOf(gen.TNone)
		}
		return gen.MapOf(Type(t.Sub))
	}
	panic(unsupported("type " + t.String()))
}

func stmts(nodes []parser.Node) []gen.Stmt {
	var out []gen.Stmt
	for _, n := range nodes {
		if _, ok := n.(*parser.EmptyStmt); ok {
			continue
		}
		out = append(out, stmt(n))
	}
	return out
}

func params(vs []*parser.Var) []gen.Param {
	var out []gen.Param
	for _, v := range vs {
		out = append(out, gen.Param{Name: v.Name, T: Type(v.T)})
	}
	return out
}

func block(b *parser.BlockStatement) []gen.Stmt {
	if b == nil {
		return nil
	}
	s := stmts(b.Statements)
	if s == nil {
		s = []gen.Stmt{}
		if len(b.Statements) > 0 { // comment-only block: a comment counts as a statement
			s = append(s, gen.Comment{Text: "c"})
		}
	}
	return s
}

func stmt(n parser.Node) gen.Stmt {
	switch n := n.(type) {
	case *parser.FuncDefStmt:
		fd := gen.FuncDef{Name: n.Name, Params: params(n.Params), Ret: Type(n.ReturnType), Body: block(n.Body)}
		if n.VariadicParam != nil {
			fd.Variadic = true
			fd.Params = []gen.Param{{Name: n.VariadicParam.Name, T: Type(n.VariadicParam.T)}}
		}
		return fd
	case *parser.EventHandlerStmt:
		return gen.Handler{Name: n.Name, Params: params(n.Params), Body: block(n.Body)}
	case *parser.TypedDeclStmt:
		return gen.Decl{Name: n.Decl.Var.Name, T: Type(n.Decl.Var.T), Typed: true}
	case *parser.InferredDeclStmt:
		return gen.Decl{Name: n.Decl.Var.Name, T: Type(n.Decl.Var.T), Init: expr(n.Decl.Value)}
	case *parser.AssignmentStmt:
		return gen.Assign{Target: expr(n.Target), Val: expr(n.Value)}
	case *parser.FuncCallStmt:
		return gen.CallStmt{C: expr(n.FuncCall).(gen.Call)}
	case *parser.ReturnStmt:
		if n.Value == nil {
			return gen.Return{}
		}
		return gen.Return{Val: expr(n.Value)}
	case *parser.BreakStmt:
		return gen.Break{}
	case *parser.IfStmt:
		s := gen.If{}
		s.Conds = append(s.Conds, expr(n.IfBlock.Condition))
		s.Blocks = append(s.Blocks, block(n.IfBlock.Block))
		for _, e := range n.ElseIfBlocks {
			s.Conds = append(s.Conds, expr(e.Condition))
			s.Blocks = append(s.Blocks, block(e.Block))
		}
		if n.Else != nil {
			s.Else = block(n.Else)
		}
		return s
	case *parser.WhileStmt:
		return gen.While{Cond: expr(n.Condition), Body: block(n.Block)}
	case *parser.ForStmt:
		f := gen.For{Body: block(n.Block)}
		if n.LoopVar != nil {
			f.Var = n.LoopVar.Name
			f.VarT = Type(n.LoopVar.T)
		}
		if sr, ok := n.Range.(*parser.StepRange); ok {
			if sr.Start != nil {
				f.Args = append(f.Args, expr(sr.Start))
			}
			f.Args = append(f.Args, expr(sr.Stop))
			if sr.Step != nil {
				f.Args = append(f.Args, expr(sr.Step))
			}
		} else {
			f.Over = expr(n.Range)
		}
		return f
	}
	panic(unsupported(fmt.Sprintf("statement %T", n)))
}

func expr(n parser.Node) gen.Expr {
	switch n := n.(type) {
	case *parser.Var:
		return gen.VarRef{Name: n.Name, T: Type(n.T)}
	case *parser.NumLiteral:
		return gen.NumLit{V: n.Value}
	case *parser.StringLiteral:
		return gen.StrLit{V: n.Value}
	case *parser.BoolLiteral:
		return gen.BoolLit{V: n.Value}
	case *parser.Any:
		return gen.ToAny{X: expr(n.Value)}
	case *parser.GroupExpression:
		return gen.Paren{X: expr(n.Expr)}
	case *parser.UnaryExpression:
		return gen.Unary{Op: n.Op.String(), X: expr(n.Right)}
	case *parser.BinaryExpression:
		return gen.Binary{Op: n.Op.String(), L: expr(n.Left), R: expr(n.Right), T: Type(n.T)}
	case *parser.IndexExpression:
		return gen.Index{X: expr(n.Left), I: expr(n.Index), T: Type(n.T)}
	case *parser.SliceExpression:
		s := gen.Slice{X: expr(n.Left)}
		if n.Start != nil {
			s.Lo = expr(n.Start)
		}
		if n.End != nil {
			s.Hi = expr(n.End)
		}
		return s
	case *parser.DotExpression:
		return gen.Dot{X: expr(n.Left), Key: n.Key, T: Type(n.T)}
	case *parser.TypeAssertion:
		return gen.Assert{X: expr(n.Left), T: Type(n.T)}
	case *parser.ArrayLiteral:
		a := gen.ArrLit{T: Type(n.T)}
		for _, e := range n.Elements {
			a.Elems = append(a.Elems, expr(e))
		}
		return a
	case *parser.MapLiteral:
		m := gen.MapLit{T: Type(n.T)}
		for _, k := range n.Order {
			m.Keys = append(m.Keys, k)
			m.Vals = append(m.Vals, expr(n.Pairs[k]))
		}
		return m
	case *parser.FuncCall:
		c := gen.Call{Name: n.Name, T: Type(n.FuncDef.ReturnType)}
		for _, a := range n.Arguments {
			c.Args = append(c.Args, expr(a))
		}
		return c
	}
	panic(unsupported(fmt.Sprintf("expression %T", n)))
}
