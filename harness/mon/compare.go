package mon

import (
	"fmt"
	"strconv"
	"strings"

	"verif/plat"
	"verif/ref"
)

// SameText compares two output texts exactly, or token-wise with numbers compared by value
// (the documents do not fix the spelling of NaN, infinities and very large or small numbers).
func SameText(a, b string) bool {
	if a == b {
		return true
	}
	ta, tb := splitTokens(a), splitTokens(b)
	if len(ta) != len(tb) {
		return false
	}
	for i := range ta {
		if ta[i] == tb[i] {
			continue
		}
		x, errx := strconv.ParseFloat(ta[i], 64)
		y, erry := strconv.ParseFloat(tb[i], 64)
		if errx != nil || erry != nil {
			return false
		}
		if !(x == y || (x != x && y != y)) {
			return false
		}
	}
	return true
}

func splitTokens(s string) []string {
	var out []string
	cur := strings.Builder{}
	flush := func() {
		if cur.Len() > 0 {
			out = append(out, cur.String())
			cur.Reset()
		}
	}
	for _, r := range s {
		switch r {
		case ' ', '\n', '\t', '[', ']', '{', '}', ':', '"', '\\', ',', '(', ')', '|', '=':
			flush()
			out = append(out, string(r))
		default:
			cur.WriteRune(r)
		}
	}
	flush()
	return out
}

// ClassMatches reports whether the implementation's outcome class is one the reference allows.
func ClassMatches(impl, want string) bool {
	if impl == want {
		return true
	}
	if strings.HasPrefix(want, "panic:") && strings.HasPrefix(impl, "panic:") {
		kinds := strings.TrimPrefix(want, "panic:")
		if kinds == "*" {
			return true
		}
		for _, k := range strings.Split(kinds, "|") {
			if impl == "panic:"+k {
				return true
			}
		}
	}
	return false
}

// Compare judges an implementation outcome against the reference outcome.
// judged=false means the reference declined (undocumented region or budget).
func Compare(o *plat.Outcome, r ref.Outcome) (judged bool, ok bool, why string) {
	if r.Unknown != "" || r.Class == "ref-budget" {
		return false, true, r.Unknown
	}
	if o.Rec != nil && o.Rec.BudgetHit {
		return false, true, "yield budget hit"
	}
	n := len(o.Events)
	if len(r.Events) < n {
		n = len(r.Events)
	}
	for i := 0; i < n; i++ {
		if !SameText(o.Events[i], r.Events[i]) {
			return true, false, fmt.Sprintf("effect %d: got %s, expected %s", i, trunc(o.Events[i]), trunc(r.Events[i]))
		}
	}
	if len(o.Events) != len(r.Events) {
		extra := ""
		if len(o.Events) > n {
			extra = "unexpected " + trunc(o.Events[n])
		} else {
			extra = "missing " + trunc(r.Events[n])
		}
		return true, false, fmt.Sprintf("%d effects, expected %d: %s (result %s %s, expected %s)", len(o.Events), len(r.Events), extra, o.Class, trunc(o.ErrText+o.GoPanic), r.Class)
	}
	if !ClassMatches(o.Class, r.Class) {
		return true, false, fmt.Sprintf("result %s (%s), expected %s (%s)", o.Class, trunc(o.ErrText+o.GoPanic), r.Class, r.Msg)
	}
	if r.Class == "tests-failed" && len(r.Fails) > 0 {
		// the failed tests are reported as "<position>: failed test: <what>", one per failure, in order
		parts := strings.Split(o.ErrText, "failed test: ")[1:]
		for i := 0; i+1 < len(parts); i++ {
			if k := strings.LastIndex(parts[i], "\nline "); k >= 0 {
				parts[i] = parts[i][:k]
			}
		}
		ambiguous := false
		for _, f := range r.Fails {
			ambiguous = ambiguous || strings.Contains(f, "failed test: ")
		}
		if !ambiguous {
			if len(parts) != len(r.Fails) {
				return true, false, fmt.Sprintf("%d failed tests reported (%q), expected %d: %q", len(parts), trunc(o.ErrText), len(r.Fails), r.Fails)
			}
			for i := range parts {
				if !SameText(parts[i], r.Fails[i]) {
					return true, false, fmt.Sprintf("failed test %d reported as %q, expected %q", i, trunc(parts[i]), trunc(r.Fails[i]))
				}
			}
		}
	}
	if r.Class == "panic:user" && !strings.HasSuffix(o.ErrText, ": "+r.Msg) {
		return true, false, fmt.Sprintf("panic message %q, expected suffix %q", o.ErrText, r.Msg)
	}
	return true, true, ""
}

func trunc(s string) string {
	if len(s) > 300 {
		return s[:300] + "…"
	}
	return s
}
