package mon

import (
	"fmt"

	"evylang.dev/evy/pkg/bytecode"
)

// BCInfo is the result of statically verifying one bytecode program.
type BCInfo struct {
	Instructions int
	Boundaries   map[int]bool
	Height       map[int]int // abstract operand stack height before each instruction
	Problems     []string
	Opcodes      map[string]int
	// Extra[pc] > 0: the conditional jump at pc follows a range instruction that leaves that many
	// additional values (the loop variable) on the stack when the loop continues.
	Extra map[int]int
}

type bcState struct {
	pc, h int
	extra int // a range instruction left `extra` more values below the bool on the true path
}

// VerifyBytecode decodes bc and checks operand ranges, jump targets and the abstract operand
// stack discipline: same height on all paths into an instruction, never negative, empty at end.
func VerifyBytecode(bc *bytecode.Bytecode) *BCInfo {
	info := &BCInfo{Boundaries: map[int]bool{}, Height: map[int]int{}, Opcodes: map[string]int{}}
	ins := bc.Instructions
	bad := func(format string, args ...any) {
		if len(info.Problems) < 8 {
			info.Problems = append(info.Problems, fmt.Sprintf(format, args...))
		}
	}
	type decoded struct {
		op       bytecode.Opcode
		operands []int
		next     int
	}
	dec := map[int]decoded{}
	for pc := 0; pc < len(ins); {
		def, err := bytecode.Lookup(bytecode.Opcode(ins[pc]))
		if err != nil {
			bad("undecodable opcode %d at %d", ins[pc], pc)
			return info
		}
		width := 0
		for _, w := range def.OperandWidths {
			width += w
		}
		if pc+1+width > len(ins) {
			bad("instruction %s at %d runs past the end", def.Name, pc)
			return info
		}
		operands, read := bytecode.ReadOperands(def, ins[pc+1:])
		dec[pc] = decoded{bytecode.Opcode(ins[pc]), operands, pc + 1 + read}
		info.Boundaries[pc] = true
		info.Opcodes[def.Name]++
		info.Instructions++
		pc += 1 + read
	}
	info.Boundaries[len(ins)] = true
	// operand ranges and jump targets
	for pc, d := range dec {
		switch d.op {
		case bytecode.OpConstant:
			if d.operands[0] >= len(bc.Constants) {
				bad("constant operand %d at %d out of range (%d constants)", d.operands[0], pc, len(bc.Constants))
			}
		case bytecode.OpGetGlobal, bytecode.OpSetGlobal:
			if d.operands[0] >= bc.GlobalCount {
				bad("global operand %d at %d out of range (%d globals)", d.operands[0], pc, bc.GlobalCount)
			}
		case bytecode.OpGetLocal, bytecode.OpSetLocal:
			if d.operands[0] >= bc.LocalCount {
				bad("local operand %d at %d out of range (%d locals)", d.operands[0], pc, bc.LocalCount)
			}
		case bytecode.OpJump, bytecode.OpJumpOnFalse:
			if !info.Boundaries[d.operands[0]] {
				bad("jump at %d targets %d which is not an instruction boundary inside the program (length %d)", pc, d.operands[0], len(ins))
			}
		}
	}
	if len(info.Problems) > 0 {
		return info
	}
	// abstract interpretation of the operand stack
	seenExtra := map[int]int{}
	info.Extra = seenExtra
	work := []bcState{{0, 0, 0}}
	visit := func(s bcState) {
		if s.h < 0 {
			bad("operand stack underflow on a path into %d", s.pc)
			return
		}
		if h, ok := info.Height[s.pc]; ok {
			if h != s.h || seenExtra[s.pc] != s.extra {
				bad("instruction %d is reached with operand stack heights %d and %d", s.pc, h, s.h)
			}
			return
		}
		info.Height[s.pc] = s.h
		seenExtra[s.pc] = s.extra
		work = append(work, s)
	}
	info.Height[0] = 0
	for len(work) > 0 && len(info.Problems) == 0 {
		s := work[len(work)-1]
		work = work[:len(work)-1]
		if s.pc == len(ins) {
			if s.h != 0 {
				bad("operand stack holds %d values at the end of the program", s.h)
			}
			continue
		}
		d := dec[s.pc]
		if s.extra != 0 && d.op != bytecode.OpJumpOnFalse {
			bad("range instruction before %d is not followed by a conditional jump", s.pc)
			continue
		}
		h := s.h
		switch d.op {
		case bytecode.OpConstant, bytecode.OpGetGlobal, bytecode.OpGetLocal, bytecode.OpTrue, bytecode.OpFalse, bytecode.OpNone:
			visit(bcState{d.next, h + 1, 0})
		case bytecode.OpSetGlobal, bytecode.OpSetLocal:
			visit(bcState{d.next, h - 1, 0})
		case bytecode.OpDrop:
			visit(bcState{d.next, h - d.operands[0], 0})
		case bytecode.OpNot, bytecode.OpMinus:
			if h < 1 {
				bad("unary operator at %d on an empty stack", s.pc)
			}
			visit(bcState{d.next, h, 0})
		case bytecode.OpArray:
			visit(bcState{d.next, h - d.operands[0] + 1, 0})
		case bytecode.OpMap:
			visit(bcState{d.next, h - 2*d.operands[0] + 1, 0})
		case bytecode.OpSetIndex:
			visit(bcState{d.next, h - 3, 0})
		case bytecode.OpSlice:
			visit(bcState{d.next, h - 2, 0})
		case bytecode.OpJump:
			visit(bcState{d.operands[0], h, 0})
		case bytecode.OpJumpOnFalse:
			visit(bcState{d.next, h - 1 + s.extra, 0})
			visit(bcState{d.operands[0], h - 1, 0})
		case bytecode.OpStepRange:
			if h < 3 {
				bad("step range at %d with %d values on the stack", s.pc, h)
			}
			visit(bcState{d.next, h + 1, min(d.operands[0], 1)})
		case bytecode.OpIterRange:
			if h < 2 {
				bad("iter range at %d with %d values on the stack", s.pc, h)
			}
			visit(bcState{d.next, h + 1, min(d.operands[0], 1)})
		default:
			// binary operators: pop two, push one
			if h < 2 {
				bad("binary operator at %d with %d values on the stack", s.pc, h)
			}
			visit(bcState{d.next, h - 1, 0})
		}
	}
	return info
}
