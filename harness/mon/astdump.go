// Package mon holds monitors shared between checks.
package mon

import (
	"fmt"
	"sort"
	"strconv"
	"strings"

	"evylang.dev/evy/pkg/parser"
)

// Dump renders the exported structure of an AST as an s-expression: node kinds, operators,
// names, literal values and static types; token positions and blank/comment-only statements
// are left out. Two programs with equal dumps have the same syntax tree.
func Dump(n parser.Node) string {
	var b strings.Builder
	dump(&b, n)
	return b.String()
}

// DumpNoGroups is Dump with parenthesis (group) nodes left out.
func DumpNoGroups(n parser.Node) string {
	skipGroups = true
	defer func() { skipGroups = false }()
	return Dump(n)
}

var skipGroups bool

func typ(t *parser.Type) string {
	if t == nil {
		return "<nil>"
	}
	return t.String()
}

func dumpList(b *strings.Builder, nodes []parser.Node) {
	for _, n := range nodes {
		if _, ok := n.(*parser.EmptyStmt); ok {
			continue
		}
		b.WriteByte(' ')
		dump(b, n)
	}
}

func dumpVars(b *strings.Builder, vars []*parser.Var) {
	for _, v := range vars {
		fmt.Fprintf(b, " %s:%s", v.Name, typ(v.T))
	}
}

func dump(b *strings.Builder, n parser.Node) {
	if n == nil {
		b.WriteString("nil")
		return
	}
	switch n := n.(type) {
	case *parser.Program:
		b.WriteString("(program")
		dumpList(b, n.Statements)
		b.WriteByte(')')
	case *parser.EmptyStmt:
		b.WriteString("(empty)")
	case *parser.FuncDefStmt:
		if n == nil {
			b.WriteString("nil")
			return
		}
		fmt.Fprintf(b, "(func %s:%s", n.Name, typ(n.ReturnType))
		dumpVars(b, n.Params)
		if n.VariadicParam != nil {
			fmt.Fprintf(b, " %s:%s...", n.VariadicParam.Name, typ(n.VariadicParam.T))
		}
		b.WriteByte(' ')
		if n.Body != nil {
			dump(b, n.Body)
		}
		b.WriteByte(')')
	case *parser.EventHandlerStmt:
		fmt.Fprintf(b, "(on %s", n.Name)
		dumpVars(b, n.Params)
		b.WriteByte(' ')
		if n.Body != nil {
			dump(b, n.Body)
		}
		b.WriteByte(')')
	case *parser.IfStmt:
		b.WriteString("(if ")
		dump(b, n.IfBlock)
		for _, e := range n.ElseIfBlocks {
			b.WriteString(" elseif ")
			dump(b, e)
		}
		if n.Else != nil {
			b.WriteString(" else ")
			dump(b, n.Else)
		}
		b.WriteByte(')')
	case *parser.WhileStmt:
		b.WriteString("(while ")
		dump(b, &n.ConditionalBlock)
		b.WriteByte(')')
	case *parser.ForStmt:
		b.WriteString("(for ")
		if n.LoopVar != nil {
			fmt.Fprintf(b, "%s:%s ", n.LoopVar.Name, typ(n.LoopVar.T))
		}
		dump(b, n.Range)
		b.WriteByte(' ')
		if n.Block != nil {
			dump(b, n.Block)
		}
		b.WriteByte(')')
	case *parser.StepRange:
		b.WriteString("(steprange ")
		dumpOpt(b, n.Start)
		b.WriteByte(' ')
		dumpOpt(b, n.Stop)
		b.WriteByte(' ')
		dumpOpt(b, n.Step)
		b.WriteByte(')')
	case *parser.TypedDeclStmt:
		b.WriteString("(typeddecl ")
		dump(b, n.Decl)
		b.WriteByte(')')
	case *parser.InferredDeclStmt:
		b.WriteString("(inferreddecl ")
		dump(b, n.Decl)
		b.WriteByte(')')
	case *parser.Decl:
		fmt.Fprintf(b, "(decl %s:%s ", n.Var.Name, typ(n.Var.T))
		dumpOpt(b, n.Value)
		b.WriteByte(')')
	case *parser.AssignmentStmt:
		b.WriteString("(assign ")
		dump(b, n.Target)
		b.WriteByte(' ')
		dump(b, n.Value)
		b.WriteByte(')')
	case *parser.FuncCallStmt:
		b.WriteString("(callstmt ")
		dump(b, n.FuncCall)
		b.WriteByte(')')
	case *parser.FuncCall:
		fmt.Fprintf(b, "(call %s", n.Name)
		dumpList(b, n.Arguments)
		b.WriteByte(')')
	case *parser.ReturnStmt:
		fmt.Fprintf(b, "(return:%s ", typ(n.T))
		dumpOpt(b, n.Value)
		b.WriteByte(')')
	case *parser.BreakStmt:
		b.WriteString("(break)")
	case *parser.BlockStatement:
		if n == nil {
			b.WriteString("nil")
			return
		}
		b.WriteString("(block")
		dumpList(b, n.Statements)
		b.WriteByte(')')
	case *parser.ConditionalBlock:
		b.WriteString("(cond ")
		dumpOpt(b, n.Condition)
		b.WriteByte(' ')
		if n.Block != nil {
			dump(b, n.Block)
		}
		b.WriteByte(')')
	case *parser.UnaryExpression:
		fmt.Fprintf(b, "(unary %s ", n.Op)
		dump(b, n.Right)
		b.WriteByte(')')
	case *parser.BinaryExpression:
		fmt.Fprintf(b, "(binary:%s %s ", typ(n.T), n.Op)
		dump(b, n.Left)
		b.WriteByte(' ')
		dump(b, n.Right)
		b.WriteByte(')')
	case *parser.IndexExpression:
		fmt.Fprintf(b, "(index:%s ", typ(n.T))
		dump(b, n.Left)
		b.WriteByte(' ')
		dump(b, n.Index)
		b.WriteByte(')')
	case *parser.SliceExpression:
		fmt.Fprintf(b, "(slice:%s ", typ(n.T))
		dump(b, n.Left)
		b.WriteByte(' ')
		dumpOpt(b, n.Start)
		b.WriteByte(' ')
		dumpOpt(b, n.End)
		b.WriteByte(')')
	case *parser.DotExpression:
		fmt.Fprintf(b, "(dot:%s ", typ(n.T))
		dump(b, n.Left)
		fmt.Fprintf(b, " %s)", n.Key)
	case *parser.GroupExpression:
		if skipGroups {
			dump(b, n.Expr)
			return
		}
		b.WriteString("(group ")
		dump(b, n.Expr)
		b.WriteByte(')')
	case *parser.TypeAssertion:
		fmt.Fprintf(b, "(assert:%s ", typ(n.T))
		dump(b, n.Left)
		b.WriteByte(')')
	case *parser.Var:
		if n == nil {
			b.WriteString("nil")
			return
		}
		fmt.Fprintf(b, "(var %s:%s)", n.Name, typ(n.T))
	case *parser.BoolLiteral:
		fmt.Fprintf(b, "%v", n.Value)
	case *parser.NumLiteral:
		b.WriteString(strconv.FormatFloat(n.Value, 'g', -1, 64))
	case *parser.StringLiteral:
		b.WriteString(strconv.Quote(n.Value))
	case *parser.ArrayLiteral:
		fmt.Fprintf(b, "(array:%s", typ(n.T))
		dumpList(b, n.Elements)
		b.WriteByte(')')
	case *parser.MapLiteral:
		fmt.Fprintf(b, "(map:%s", typ(n.T))
		keys := make([]string, 0, len(n.Pairs))
		for k := range n.Pairs {
			keys = append(keys, k)
		}
		sort.Strings(keys)
		fmt.Fprintf(b, " order=%q", n.Order)
		for _, k := range keys {
			fmt.Fprintf(b, " %s:", k)
			dump(b, n.Pairs[k])
		}
		b.WriteByte(')')
	case *parser.Any:
		b.WriteString("(any ")
		dump(b, n.Value)
		b.WriteByte(')')
	default:
		fmt.Fprintf(b, "(?%T)", n)
	}
}

func dumpOpt(b *strings.Builder, n parser.Node) {
	if n == nil || isNilNode(n) {
		b.WriteString("nil")
		return
	}
	dump(b, n)
}

func isNilNode(n parser.Node) bool {
	switch v := n.(type) {
	case *parser.Var:
		return v == nil
	case *parser.BlockStatement:
		return v == nil
	case *parser.FuncDefStmt:
		return v == nil
	}
	return false
}
