package mon

import (
	"fmt"

	"evylang.dev/evy/pkg/evaluator"
	"evylang.dev/evy/pkg/parser"
)

// Conformance is the dynamic type-conformance and map-representation monitor fed by the
// `verif` evaluation hook: after every evaluation step that produced a value, the value must
// have the static type of its node; an any value must carry a concrete, fully typed tag and a
// conforming non-any payload; the hash part and the order part of every map must agree.
type Conformance struct {
	Steps      int64
	Checked    int64
	MapsSeen   int64
	AnysSeen   int64
	Violations []string
	Kinds      map[string]int64
	// StepsSinceYield support for C14
	SinceYield    int
	MaxSinceYield int
	// OnStarve is called once when StarveLimit evaluation steps passed without a yield (logical time)
	StarveLimit int
	OnStarve    func()
	OnStep      func() // called on every evaluation step (progress signal)
}

func NewConformance() *Conformance { return &Conformance{Kinds: map[string]int64{}} }

// Attach registers the monitor on an evaluator.
func (m *Conformance) Attach(ev *evaluator.Evaluator) {
	ev.VerifObserve(&evaluator.VerifObserver{
		Enter: func(parser.Node) {
			m.Steps++
			m.SinceYield++
			if m.OnStep != nil {
				m.OnStep()
			}
			if m.SinceYield > m.MaxSinceYield {
				m.MaxSinceYield = m.SinceYield
			}
			if m.OnStarve != nil && m.SinceYield == m.StarveLimit {
				m.OnStarve()
			}
		},
		Exit: m.exit,
	})
}

// Yielded is called by the platform's yielder.
func (m *Conformance) Yielded() { m.SinceYield = 0 }

func (m *Conformance) bad(node parser.Node, format string, args ...any) {
	if len(m.Violations) < 5 {
		loc := ""
		if tok := node.Token(); tok != nil {
			loc = tok.Location() + ": "
		}
		m.Violations = append(m.Violations, loc+fmt.Sprintf("%T %s: ", node, trunc(node.String()))+fmt.Sprintf(format, args...))
	}
}

func (m *Conformance) exit(node parser.Node, val evaluator.VerifValue, err error) {
	if err != nil {
		return
	}
	kind := val.Kind()
	m.Kinds[fmt.Sprintf("%T", node)]++
	switch node.(type) {
	case *parser.Program, *parser.BlockStatement, *parser.IfStmt, *parser.WhileStmt, *parser.ForStmt, *parser.ReturnStmt, *parser.BreakStmt,
		*parser.FuncDefStmt, *parser.EventHandlerStmt, *parser.EmptyStmt, *parser.TypedDeclStmt, *parser.InferredDeclStmt, *parser.AssignmentStmt,
		*parser.FuncCallStmt, *parser.Decl:
		switch kind {
		case "nil", "none", "return", "break":
		default:
			if _, isCall := node.(*parser.FuncCallStmt); !isCall {
				m.bad(node, "statement evaluated to a %s value", kind)
			}
		}
		return
	}
	t := node.Type()
	if t == nil {
		m.bad(node, "expression node without a static type")
		return
	}
	m.Checked++
	if why := m.conforms(val, t, 0); why != "" {
		m.bad(node, "value does not conform to static type %s: %s", t, why)
	}
}

func untyped(t *parser.Type) bool {
	for ; t != nil; t = t.Sub {
		if t.Name == parser.NONE {
			return true
		}
		if (t.Name == parser.ARRAY || t.Name == parser.MAP) && t.Sub == nil {
			return true
		}
	}
	return false
}

func (m *Conformance) conforms(v evaluator.VerifValue, t *parser.Type, depth int) string {
	kind := v.Kind()
	switch t.Name {
	case parser.NUM:
		if kind != "num" {
			return "found " + kind
		}
	case parser.STRING:
		if kind != "string" {
			return "found " + kind
		}
	case parser.BOOL:
		if kind != "bool" {
			return "found " + kind
		}
	case parser.NONE:
		if kind != "nil" && kind != "none" {
			return "procedure call produced a " + kind
		}
	case parser.ANY:
		if kind != "any" {
			return "found " + kind + " where an any value is required"
		}
		m.AnysSeen++
		tag := v.AnyType()
		if tag == nil {
			return "any value without type tag"
		}
		if tag.Name == parser.ANY {
			return "any value tagged any"
		}
		if untyped(tag) {
			return "any value tagged with the untyped type " + tag.String()
		}
		in := v.Inner()
		if in.Kind() == "any" {
			return "any value holding an any value"
		}
		if why := m.conforms(in, tag, depth+1); why != "" {
			return "payload does not conform to tag " + tag.String() + ": " + why
		}
	case parser.ARRAY:
		if kind != "array" {
			return "found " + kind
		}
		n := v.Len()
		if t.Sub == nil {
			return ""
		}
		if t.Sub.Name == parser.NONE {
			if n != 0 {
				return fmt.Sprintf("untyped array with %d elements", n)
			}
			return ""
		}
		if depth > 3 {
			return ""
		}
		if n > 32 {
			n = 32
		}
		for i := 0; i < n; i++ {
			if why := m.conforms(v.Elem(i), t.Sub, depth+1); why != "" {
				return fmt.Sprintf("element %d: %s", i, why)
			}
		}
	case parser.MAP:
		if kind != "map" {
			return "found " + kind
		}
		m.MapsSeen++
		order := v.Order()
		if len(order) != v.Len() {
			return fmt.Sprintf("map representation: %d keys in order, %d entries in hash part", len(order), v.Len())
		}
		seen := map[string]bool{}
		for _, k := range order {
			if seen[k] {
				return "map representation: key " + k + " twice in order"
			}
			seen[k] = true
			if _, ok := v.Lookup(k); !ok {
				return "map representation: ordered key " + k + " missing in hash part"
			}
		}
		if t.Sub == nil {
			return ""
		}
		if t.Sub.Name == parser.NONE {
			if len(order) != 0 {
				return "untyped map with entries"
			}
			return ""
		}
		if depth > 3 {
			return ""
		}
		for i, k := range order {
			if i >= 32 {
				break
			}
			e, _ := v.Lookup(k)
			if why := m.conforms(e, t.Sub, depth+1); why != "" {
				return "value of key " + k + ": " + why
			}
		}
	}
	return ""
}
