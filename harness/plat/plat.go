// Package plat provides the recording Platform and Yielder through which all evaluator
// executions of the harness are observed, and an outcome classifier.
package plat

import (
	"errors"
	"fmt"
	"math/rand"
	"runtime"
	"sort"
	"strconv"
	"strings"
	"time"

	"evylang.dev/evy/pkg/evaluator"
	"evylang.dev/evy/pkg/parser"
)

// Rec is a recording evaluator.Platform.
type Rec struct {
	Events     []string
	Inputs     []string
	inPos      int
	Yields     int
	YieldMarks []int // len(Events) at each yield (only when MarkYields)
	MarkYields bool
	// StopAtYield raises the evaluator's Stopped flag inside yield number k (1-based); 0 = never.
	StopAtYield int
	// StopAtEffect raises Stopped from inside platform effect number k (1-based); 0 = never.
	StopAtEffect int
	NoYielder    bool
	EventMarks   []int // len(Events) just before each delivered event
	// YieldBudget raises Stopped once that many yields happened (a legitimate external stop).
	YieldBudget     int
	BudgetHit       bool
	YieldsAfterStop int
	MaxEvents       int // stop recording (and raise Stopped) beyond this many events; 0 = 100000
	Ev              *evaluator.Evaluator
	OnYield         func(n int)
}

func (r *Rec) add(s string) {
	max := r.MaxEvents
	if max == 0 {
		max = 100000
	}
	if len(r.Events) >= max {
		if r.Ev != nil {
			r.Ev.Stopped = true
			r.BudgetHit = true
		}
		return
	}
	r.Events = append(r.Events, s)
	if r.StopAtEffect > 0 && len(r.Events) == r.StopAtEffect && r.Ev != nil {
		r.Ev.Stopped = true
	}
}

func f(x float64) string { return strconv.FormatFloat(x, 'g', -1, 64) }

func (r *Rec) Print(s string) { r.add("print " + strconv.Quote(s)) }
func (r *Rec) Read() string {
	s := ""
	if r.inPos < len(r.Inputs) {
		s = r.Inputs[r.inPos]
		r.inPos++
	}
	r.add("read " + strconv.Quote(s))
	return s
}
func (r *Rec) Cls()                  { r.add("cls") }
func (r *Rec) Sleep(d time.Duration) { r.add("sleep " + strconv.FormatInt(int64(d), 10)) }
func (r *Rec) Yielder() evaluator.Yielder {
	if r.NoYielder {
		return nil // a platform without yielder (the CLI): stops can only be raised from inside its calls
	}
	return r
}

// Yield implements evaluator.Yielder.
func (r *Rec) Yield() {
	r.Yields++
	if r.Ev != nil && r.Ev.Stopped {
		r.YieldsAfterStop++
	}
	if r.MarkYields {
		r.YieldMarks = append(r.YieldMarks, len(r.Events))
	}
	if r.OnYield != nil {
		r.OnYield(r.Yields)
	}
	if r.Ev == nil {
		return
	}
	if r.StopAtYield > 0 && r.Yields == r.StopAtYield {
		r.Ev.Stopped = true
	}
	if r.YieldBudget > 0 && r.Yields >= r.YieldBudget && !r.Ev.Stopped {
		r.Ev.Stopped = true
		r.BudgetHit = true
	}
}

func (r *Rec) Move(x, y float64)         { r.add("move " + f(x) + " " + f(y)) }
func (r *Rec) Line(x, y float64)         { r.add("line " + f(x) + " " + f(y)) }
func (r *Rec) Rect(x, y float64)         { r.add("rect " + f(x) + " " + f(y)) }
func (r *Rec) Circle(x float64)          { r.add("circle " + f(x)) }
func (r *Rec) Width(x float64)           { r.add("width " + f(x)) }
func (r *Rec) Color(s string)            { r.add("color " + strconv.Quote(s)) }
func (r *Rec) Clear(s string)            { r.add("clear " + strconv.Quote(s)) }
func (r *Rec) Stroke(s string)           { r.add("stroke " + strconv.Quote(s)) }
func (r *Rec) Fill(s string)             { r.add("fill " + strconv.Quote(s)) }
func (r *Rec) Linecap(s string)          { r.add("linecap " + strconv.Quote(s)) }
func (r *Rec) Text(s string)             { r.add("text " + strconv.Quote(s)) }
func (r *Rec) Gridn(u float64, c string) { r.add("gridn " + f(u) + " " + strconv.Quote(c)) }
func (r *Rec) Poly(v [][]float64) {
	var b strings.Builder
	b.WriteString("poly")
	for _, p := range v {
		b.WriteString(" [")
		for i, x := range p {
			if i > 0 {
				b.WriteByte(' ')
			}
			b.WriteString(f(x))
		}
		b.WriteByte(']')
	}
	r.add(b.String())
}
func (r *Rec) Ellipse(x, y, rx, ry, rot, sa, ea float64) {
	r.add("ellipse " + f(x) + " " + f(y) + " " + f(rx) + " " + f(ry) + " " + f(rot) + " " + f(sa) + " " + f(ea))
}
func (r *Rec) Dash(s []float64) {
	parts := make([]string, len(s))
	for i, x := range s {
		parts[i] = f(x)
	}
	r.add("dash " + strings.Join(parts, " "))
}
func (r *Rec) Font(props map[string]any) {
	keys := make([]string, 0, len(props))
	for k := range props {
		keys = append(keys, k)
	}
	sort.Strings(keys)
	var b strings.Builder
	b.WriteString("font")
	for _, k := range keys {
		fmt.Fprintf(&b, " %s=%v", k, props[k])
	}
	r.add(b.String())
}

// Outcome of one execution.
type Outcome struct {
	Events  []string
	Err     error
	ErrText string
	Class   string // ok | parse-error | panic:<kind> | exit:<n> | tests-failed | stopped | internal | gopanic | other-error
	GoPanic string // recovered Go panic value
	Site    string // first frame inside the repository for a Go panic
	Yields  int
	Rec     *Rec
	Prog    *parser.Program
	Ev      *evaluator.Evaluator
}

// Opts for Run.
type Opts struct {
	Inputs       []string
	RandSeed     int64
	YieldBudget  int
	StopAtYield  int
	StopAtEffect int
	// NoYielder: the platform's Yielder() is nil, like the CLI platform's.
	NoYielder bool
	// StopBeforeEvent raises Stopped just before the k-th delivered event (1-based); 0 = never.
	StopBeforeEvent int
	MarkYields      bool
	MaxEvents       int
	Events          []evaluator.Event // delivered after Eval (only to existing handlers)
	// KeepDelivering: after a handler ended in an Evy panic the remaining events are still delivered
	// (the failure is recorded in the trace as "handler-failed:<class>").
	KeepDelivering bool
	FailFast       bool
	NoTestSummary  bool
	OnYield        func(n int)
	// Attach is called with the evaluator before evaluation (to register hook observers).
	Attach func(ev *evaluator.Evaluator)
}

// Builtins returns the builtin declarations (fresh each time, as parser.Parse mutates them).
func Builtins() parser.Builtins { return evaluator.BuiltinDecls() }

// Run parses and evaluates src under a recording platform.
func Run(src string, o Opts) (out *Outcome) {
	rec := &Rec{Inputs: o.Inputs, YieldBudget: o.YieldBudget, StopAtYield: o.StopAtYield, StopAtEffect: o.StopAtEffect, MarkYields: o.MarkYields, MaxEvents: o.MaxEvents, OnYield: o.OnYield, NoYielder: o.NoYielder}
	if rec.YieldBudget == 0 {
		rec.YieldBudget = 200000
	}
	out = &Outcome{Rec: rec}
	seed := o.RandSeed
	if seed == 0 {
		seed = 1
	}
	evaluator.RandSource = rand.New(rand.NewSource(seed))
	ev := evaluator.NewEvaluator(rec)
	rec.Ev = ev
	out.Ev = ev
	ev.TestInfo.FailFast = o.FailFast
	ev.TestInfo.NoTestSummary = o.NoTestSummary
	defer func() {
		if p := recover(); p != nil {
			out.GoPanic = fmt.Sprint(p)
			out.Site = PanicSite()
			out.Class = "gopanic"
		}
		out.Events = rec.Events
		out.Yields = rec.Yields
	}()
	prog, err := parser.Parse(src, Builtins())
	if err != nil {
		out.Err = err
		out.ErrText = err.Error()
		out.Class = "parse-error"
		return out
	}
	out.Prog = prog
	if o.Attach != nil {
		o.Attach(ev)
	}
	err = ev.Eval(prog)
	if err == nil {
		delivered := 0
		for _, e := range o.Events {
			if !hasHandler(ev, e.Name) {
				continue
			}
			delivered++
			rec.EventMarks = append(rec.EventMarks, len(rec.Events))
			if o.StopBeforeEvent == delivered {
				ev.Stopped = true
			}
			if err = ev.HandleEvent(e); err != nil {
				if o.KeepDelivering && strings.HasPrefix(Classify(err), "panic:") {
					// a user of the Evaluator API (unlike pkg/wasm) may go on after a handler ended in
					// an Evy panic: record the failure in the trace and deliver the next event
					rec.Events = append(rec.Events, "handler-failed:"+Classify(err))
					err = nil
					continue
				}
				break
			}
		}
	}
	out.Err = err
	out.Class = Classify(err)
	if err != nil {
		out.ErrText = err.Error()
	}
	return out
}

func hasHandler(ev *evaluator.Evaluator, name string) bool {
	for _, n := range ev.EventHandlerNames {
		if n == name {
			return true
		}
	}
	return false
}

// Classify maps an evaluator error to an outcome class.
func Classify(err error) string {
	if err == nil {
		return "ok"
	}
	var exit evaluator.ExitError
	var perrs parser.Errors
	var terrs evaluator.TestErrors
	switch {
	case errors.As(err, &perrs):
		return "parse-error"
	case errors.Is(err, evaluator.ErrInternal):
		return "internal"
	case errors.Is(err, evaluator.ErrStopped):
		return "stopped"
	case errors.As(err, &exit):
		return "exit:" + strconv.Itoa(int(exit))
	case errors.As(err, &terrs), errors.Is(err, evaluator.ErrTest):
		return "tests-failed"
	case errors.Is(err, evaluator.ErrPanic):
		return "panic:" + PanicKind(err)
	}
	return "other-error"
}

// PanicKind names the documented kind of an Evy run-time panic.
func PanicKind(err error) string {
	switch {
	case errors.Is(err, evaluator.ErrIndexValue):
		return "index-value"
	case errors.Is(err, evaluator.ErrBounds):
		return "bounds"
	case errors.Is(err, evaluator.ErrRangevalue):
		return "range-value"
	case errors.Is(err, evaluator.ErrMapKey):
		return "map-key"
	case errors.Is(err, evaluator.ErrSlice):
		return "slice"
	case errors.Is(err, evaluator.ErrBadArguments):
		return "bad-arguments"
	case errors.Is(err, evaluator.ErrBadRepetition):
		return "bad-repetition"
	case errors.Is(err, evaluator.ErrAnyConversion):
		return "any-conversion"
	case errors.Is(err, evaluator.ErrVarNotSet):
		return "var-not-set"
	}
	return "user"
}

// PanicSite returns the innermost stack frame (file:line) inside evylang.dev/evy of the
// panic currently being recovered. Must be called from a deferred function.
func PanicSite() string {
	pcs := make([]uintptr, 64)
	n := runtime.Callers(3, pcs)
	frames := runtime.CallersFrames(pcs[:n])
	for {
		fr, more := frames.Next()
		if strings.Contains(fr.Function, "evylang.dev/evy") {
			file := fr.File
			if i := strings.LastIndex(file, "/pkg/"); i >= 0 {
				file = file[i+1:]
			} else if i := strings.LastIndex(file, "/learn/"); i >= 0 {
				file = file[i+1:]
			}
			fn := fr.Function
			if i := strings.LastIndex(fn, "."); i >= 0 {
				fn = fn[i+1:]
			}
			_ = file
			return fmt.Sprintf("%s:%s", file, fn)
		}
		if !more {
			break
		}
	}
	return "unknown"
}
