// Package core is the small framework shared by all property checks: a
// deterministic case list per (property, tier, seed), worker processes with a
// journal so that a process death is attributed to one case, three-valued
// verdicts, known-finding matching, evidence and replay files.
package core

import (
	"crypto/sha256"
	"encoding/binary"
	"encoding/hex"
	"encoding/json"
	"fmt"
	"hash/fnv"
	"math/rand"
	"os"
	"path/filepath"
	"regexp"
	"sort"
	"strings"
	"sync/atomic"
	"time"
)

// Check describes the machinery for one property.
type Check struct {
	ID          string
	Level       string // evidence level category
	Rule        string // how cases are generated and what makes one distinct/non-trivial
	Assumptions []string
	NeedsEvy    bool // needs the real evy binary built from the current tree
	// NumCases returns the number of cases of the tier. Cases are numbered 0..n-1.
	NumCases func(tier string) int
	// Exhaustive reports whether the tier enumerates a finite space completely.
	Exhaustive func(tier string) bool
	// Setup is called once per worker process before any case.
	Setup func(c *Ctx) error
	// Run executes case i. It must be a deterministic function of (seed, tier, i).
	Run func(c *Ctx, i int)
	// Probe re-executes the recorded input of a known finding and reports whether it
	// still fails.
	Probe func(c *Ctx, f Finding) (bool, string)
	// MinEvents names counters that must be non-zero for the run to count as having observed
	// something.
	MinEvents []string
	// Serial forces a single worker (used by checks that are cheap or that manage their own
	// processes).
	MaxWorkers int
	// StallCPU > 0: the worker ends a case (exit 4, journal STALL) when the process has burnt this much
	// CPU time without the check reporting progress through Ctx.Progress. CPU time, not wall time: the
	// verdict does not depend on the load of the machine. Confirmed alone, a stall is a violation
	// ("uninterruptible"): used by checks whose property is that the code keeps reaching a monitor point.
	StallCPU time.Duration
	// RlimitMB caps the address space of each worker process (0 = no cap), so that a runaway
	// allocation kills one attributable worker instead of the sandbox.
	RlimitMB int
}

// Violation is one refutation of a property observed by a monitor.
type Violation struct {
	Property string         `json:"property"`
	Key      string         `json:"key"`   // short class key: what kind of failure at which site
	Desc     string         `json:"desc"`  // human readable
	Input    string         `json:"input"` // main input (source text, history, ...)
	Extra    map[string]any `json:"extra,omitempty"`
	Seed     int64          `json:"seed"`
	Tier     string         `json:"tier"`
	Case     int            `json:"case"`
	Known    string         `json:"known,omitempty"` // id of matching open finding
}

// Result is what one worker observed.
type Result struct {
	Cases        int                         `json:"cases"`
	Counters     map[string]int64            `json:"counters"`
	Cover        map[string]map[string]int64 `json:"cover"`
	Distinct     []uint64                    `json:"distinct"`
	Samples      []any                       `json:"samples"`
	Violations   []Violation                 `json:"violations"`
	Inconclusive []string                    `json:"inconclusive"`
	distinctSet  map[uint64]struct{}
}

func NewResult() *Result {
	return &Result{Counters: map[string]int64{}, Cover: map[string]map[string]int64{}, distinctSet: map[uint64]struct{}{}}
}

// Merge adds o into r.
func (r *Result) Merge(o *Result) {
	r.Cases += o.Cases
	for k, v := range o.Counters {
		r.Counters[k] += v
	}
	for a, m := range o.Cover {
		if r.Cover[a] == nil {
			r.Cover[a] = map[string]int64{}
		}
		for k, v := range m {
			r.Cover[a][k] += v
		}
	}
	for _, h := range o.Distinct {
		r.distinctSet[h] = struct{}{}
	}
	for h := range o.distinctSet {
		r.distinctSet[h] = struct{}{}
	}
	for _, s := range o.Samples {
		if len(r.Samples) < 12 {
			r.Samples = append(r.Samples, s)
		}
	}
	r.Violations = append(r.Violations, o.Violations...)
	r.Inconclusive = append(r.Inconclusive, o.Inconclusive...)
}

func (r *Result) finalize() {
	r.Distinct = r.Distinct[:0]
	for h := range r.distinctSet {
		r.Distinct = append(r.Distinct, h)
	}
	sort.Slice(r.Distinct, func(i, j int) bool { return r.Distinct[i] < r.Distinct[j] })
}

// Ctx is handed to a check's Run.
type Ctx struct {
	ID     string
	Tier   string
	Seed   int64
	Case   int
	Rng    *rand.Rand
	Repo   string // repository under test
	EvyBin string // real evy binary built from Repo ("" unless NeedsEvy)
	Tmp    string // private scratch dir of this worker (removed by the driver)
	Replay bool   // replay mode: monitors may print their view
	Res    *Result
	State  any // per-worker state set by Setup
	jf     *os.File
}

// CaseRng returns the deterministic PRNG of case i.
func CaseRng(id string, seed int64, tier string, i int) *rand.Rand {
	h := fnv.New64a()
	fmt.Fprintf(h, "%s|%d|%s|%d", id, seed, tier, i)
	return rand.New(rand.NewSource(int64(h.Sum64())))
}

func (c *Ctx) Event(key string, n int) { c.Res.Counters[key] += int64(n) }

// Journal records the input about to be executed, so that a process death inside the case can
// be attributed to it by the driver. One small write per call.
func (c *Ctx) Journal(input string) {
	if c.jf == nil {
		f, err := os.OpenFile(filepath.Join(c.Tmp, "current-input"), os.O_CREATE|os.O_WRONLY, 0o644)
		if err != nil {
			return
		}
		c.jf = f
	}
	if len(input) > 1<<16 {
		input = input[:1<<16]
	}
	b := make([]byte, 0, len(input)+16)
	b = append(b, fmt.Sprintf("%08d\n", len(input))...)
	b = append(b, input...)
	_, _ = c.jf.WriteAt(b, 0)
}

// ReadJournal returns the last journalled input of a worker tmp dir.
func ReadJournal(dir string) string {
	b, err := os.ReadFile(filepath.Join(dir, "current-input"))
	if err != nil || len(b) < 9 {
		return ""
	}
	var n int
	fmt.Sscanf(string(b[:8]), "%d", &n)
	if 9+n > len(b) {
		n = len(b) - 9
	}
	return string(b[9 : 9+n])
}

func (c *Ctx) Cover(axis, cell string) {
	m := c.Res.Cover[axis]
	if m == nil {
		m = map[string]int64{}
		c.Res.Cover[axis] = m
	}
	m[cell]++
}

// Distinct records the abstract shape of a non-trivial case.
func (c *Ctx) Distinct(shape string) {
	h := fnv.New64a()
	h.Write([]byte(shape))
	c.Res.distinctSet[h.Sum64()] = struct{}{}
}

func (c *Ctx) Sample(v any) {
	if len(c.Res.Samples) < 3 {
		c.Res.Samples = append(c.Res.Samples, v)
	}
}

func (c *Ctx) Inconclusive(desc string) {
	c.Event("inconclusive", 1)
	if len(c.Res.Inconclusive) < 50 {
		c.Res.Inconclusive = append(c.Res.Inconclusive, fmt.Sprintf("case %d: %s", c.Case, desc))
	}
}

// Violation records a refutation. key identifies the failure class (site), input the case.
func (c *Ctx) Violation(key, desc, input string, extra map[string]any) {
	if c.Replay {
		fmt.Printf("monitor: violation key=%q\n  %s\n  input:\n%s\n", key, desc, indent(input))
	}
	if len(c.Res.Violations) >= 200 {
		c.Event("violations_dropped", 1)
		return
	}
	if len(input) > 1<<16 {
		input = input[:1<<16] + "…(truncated)"
	}
	c.Res.Violations = append(c.Res.Violations, Violation{
		Property: c.ID, Key: key, Desc: desc, Input: input, Extra: extra,
		Seed: c.Seed, Tier: c.Tier, Case: c.Case,
	})
}

func indent(s string) string {
	return "    " + strings.ReplaceAll(strings.TrimRight(s, "\n"), "\n", "\n    ")
}

// ---------------------------------------------------------------------------------------------
// known findings

// Finding is one entry of known_findings.json.
type Finding struct {
	ID       string `json:"id"`
	Property string `json:"property"`
	Status   string `json:"status"` // "open" or "fixed"
	What     string `json:"what"`
	// Key is a regular expression (anchored) on Violation.Key; Input, if non-empty, must equal
	// Violation.Input exactly (after trimming trailing newlines). Both must match.
	Key   string `json:"key,omitempty"`
	Input string `json:"input,omitempty"`
	// Probe is the recorded failing input that the check re-executes on every run.
	Probe  string         `json:"probe,omitempty"`
	Extra  map[string]any `json:"extra,omitempty"`
	Commit string         `json:"commit,omitempty"`
}

type FindingsFile struct {
	Findings []Finding `json:"findings"`
	Fixed    []string  `json:"fixed"`
}

func LoadFindings(path string) (*FindingsFile, error) {
	b, err := os.ReadFile(path)
	if err != nil {
		if os.IsNotExist(err) {
			return &FindingsFile{}, nil
		}
		return nil, err
	}
	var f FindingsFile
	if err := json.Unmarshal(b, &f); err != nil {
		return nil, fmt.Errorf("%s: %w", path, err)
	}
	return &f, nil
}

// Match returns the id of the open finding that v is an instance of, or "".
func (ff *FindingsFile) Match(v *Violation) string {
	for _, f := range ff.Findings {
		if f.Status != "open" || f.Property != v.Property {
			continue
		}
		if f.Key == "" && f.Input == "" {
			continue
		}
		if f.Key != "" {
			re, err := regexp.Compile("^(?:" + f.Key + ")$")
			if err != nil || !re.MatchString(v.Key) {
				continue
			}
		}
		if f.Input != "" && strings.TrimRight(f.Input, "\n") != strings.TrimRight(v.Input, "\n") {
			continue
		}
		return f.ID
	}
	return ""
}

// ---------------------------------------------------------------------------------------------
// files

func WriteJSON(path string, v any) error {
	b, err := json.MarshalIndent(v, "", " ")
	if err != nil {
		return err
	}
	if err := os.MkdirAll(filepath.Dir(path), 0o755); err != nil {
		return err
	}
	tmp := path + ".tmp"
	if err := os.WriteFile(tmp, append(b, '\n'), 0o644); err != nil {
		return err
	}
	return os.Rename(tmp, path)
}

func ReadJSON(path string, v any) error {
	b, err := os.ReadFile(path)
	if err != nil {
		return err
	}
	return json.Unmarshal(b, v)
}

func ShortHash(s string) string {
	h := sha256.Sum256([]byte(s))
	return hex.EncodeToString(h[:6])
}

func Hash64(s string) uint64 {
	h := sha256.Sum256([]byte(s))
	return binary.LittleEndian.Uint64(h[:8])
}

var progressCounter int64

// Progress is called by a check at its monitor points (see Check.StallCPU).
func (c *Ctx) Progress() { atomic.AddInt64(&progressCounter, 1) }
