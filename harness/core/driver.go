package core

import (
	"bufio"
	"bytes"
	"errors"
	"flag"
	"fmt"
	"os"
	"os/exec"
	"path/filepath"
	"runtime"
	"runtime/debug"
	"sort"
	"strconv"
	"strings"
	"sync"
	"sync/atomic"
	"syscall"
	"time"
)

// Registry of checks by property id.
var Registry = map[string]*Check{}

func Register(c *Check) { Registry[c.ID] = c }

func env(k, def string) string {
	if v := os.Getenv(k); v != "" {
		return v
	}
	return def
}

func Root() string { return env("VERIF_ROOT", "/verif") }
func Repo() string { return env("VERIF_REPO", "/repo") }

type workerOut struct {
	Result *Result `json:"result"`
	Next   int     `json:"next"` // first position (in this shard's order) not included in Result
	Done   bool    `json:"done"`
}

// Main is the entry point of the verifd binary.
func Main() {
	if len(os.Args) < 2 {
		fmt.Fprintln(os.Stderr, "usage: verifd <run|worker|replay|list> ...")
		os.Exit(2)
	}
	switch os.Args[1] {
	case "list":
		ids := []string{}
		for id := range Registry {
			ids = append(ids, id)
		}
		sort.Strings(ids)
		fmt.Println(strings.Join(ids, " "))
	case "run":
		os.Exit(driverMain(os.Args[2:]))
	case "worker":
		os.Exit(workerMain(os.Args[2:]))
	case "replay":
		os.Exit(replayMain(os.Args[2:]))
	default:
		fmt.Fprintln(os.Stderr, "unknown command", os.Args[1])
		os.Exit(2)
	}
}

// ---------------------------------------------------------------------------------------------
// worker

func workerMain(args []string) int {
	fs := flag.NewFlagSet("worker", flag.ExitOnError)
	tier := fs.String("tier", "quick", "")
	seed := fs.Int64("seed", 1, "")
	shard := fs.Int("shard", 0, "")
	shards := fs.Int("shards", 1, "")
	from := fs.Int("from", 0, "position within the shard to start at")
	skip := fs.String("skip", "", "comma separated case numbers to skip")
	only := fs.Int("only", -1, "run only this case")
	probe := fs.String("probe", "", "probe the finding with this id")
	journal := fs.String("journal", "", "")
	out := fs.String("out", "", "")
	tmp := fs.String("tmp", "", "")
	caseTimeout := fs.Duration("case-timeout", 120*time.Second, "")
	replay := fs.Bool("replay", false, "")
	id := args[0]
	_ = fs.Parse(args[1:])
	chk := Registry[id]
	if chk == nil {
		fmt.Fprintln(os.Stderr, "unknown check", id)
		return 2
	}
	// Runaway recursion must die quickly and attributable, not eat the machine.
	debug.SetMaxStack(256 << 20)
	if lim := env("VERIF_RLIMIT_AS_MB", ""); lim != "" {
		if mb, err := strconv.Atoi(lim); err == nil {
			chk.RlimitMB = mb
		}
	}
	if chk.RlimitMB > 0 {
		v := uint64(chk.RlimitMB) << 20
		_ = syscall.Setrlimit(syscall.RLIMIT_AS, &syscall.Rlimit{Cur: v, Max: v})
	}
	c := &Ctx{ID: id, Tier: *tier, Seed: *seed, Repo: Repo(), EvyBin: os.Getenv("VERIF_EVY"), Tmp: *tmp, Res: NewResult(), Replay: *replay}
	if c.Tmp == "" {
		c.Tmp = os.TempDir()
	}
	if chk.Setup != nil {
		if err := chk.Setup(c); err != nil {
			fmt.Fprintln(os.Stderr, "setup:", err)
			return 2
		}
	}
	if *probe != "" {
		ff, err := LoadFindings(filepath.Join(Root(), "known_findings.json"))
		if err != nil {
			fmt.Fprintln(os.Stderr, err)
			return 2
		}
		for _, f := range ff.Findings {
			if f.ID == *probe {
				if chk.Probe == nil {
					fmt.Println("PROBE-RESULT fails=false detail=no probe function")
					return 0
				}
				fails, detail := chk.Probe(c, f)
				fmt.Printf("PROBE-RESULT fails=%v detail=%s\n", fails, strings.ReplaceAll(detail, "\n", " "))
				return 0
			}
		}
		fmt.Fprintln(os.Stderr, "no such finding", *probe)
		return 2
	}
	skipSet := map[int]bool{}
	for _, s := range strings.Split(*skip, ",") {
		if n, err := strconv.Atoi(s); err == nil {
			skipSet[n] = true
		}
	}
	var jf *os.File
	if *journal != "" {
		var err error
		jf, err = os.OpenFile(*journal, os.O_CREATE|os.O_WRONLY|os.O_APPEND, 0o644)
		if err != nil {
			fmt.Fprintln(os.Stderr, err)
			return 2
		}
		defer jf.Close()
	}
	n := chk.NumCases(*tier)
	var cases []int
	if *only >= 0 {
		cases = []int{*only}
	} else {
		for i := *shard; i < n; i += *shards {
			cases = append(cases, i)
		}
	}
	// per-case watchdog: a case that does not return is reported through the exit status so
	// that the driver can retry it alone; it never decides anything by itself.
	var mu sync.Mutex
	curCase, curStart := -1, time.Now()
	stallCase, stallProgress, stallCPU := -1, int64(0), time.Duration(0)
	go func() {
		for {
			time.Sleep(500 * time.Millisecond)
			mu.Lock()
			cc, st := curCase, curStart
			mu.Unlock()
			if cc >= 0 && chk.StallCPU > 0 {
				pc, cpu := atomic.LoadInt64(&progressCounter), processCPU()
				if cc != stallCase || pc != stallProgress {
					stallCase, stallProgress, stallCPU = cc, pc, cpu
				} else if cpu-stallCPU > chk.StallCPU {
					if jf != nil {
						fmt.Fprintf(jf, "STALL %d\n", cc)
					}
					fmt.Fprintf(os.Stderr, "worker: case %d burnt %v of CPU time without reaching a monitor point\n", cc, cpu-stallCPU)
					os.Exit(4)
				}
			}
			if cc >= 0 && time.Since(st) > *caseTimeout {
				if jf != nil {
					fmt.Fprintf(jf, "TIMEOUT %d\n", cc)
				}
				fmt.Fprintf(os.Stderr, "worker: case %d exceeded %v\n", cc, *caseTimeout)
				os.Exit(3)
			}
		}
	}()
	lastFlush := time.Now()
	flush := func(next int, done bool) {
		if *out == "" {
			return
		}
		c.Res.finalize()
		_ = WriteJSON(*out, workerOut{Result: c.Res, Next: next, Done: done})
	}
	for pos := *from; pos < len(cases); pos++ {
		i := cases[pos]
		if skipSet[i] {
			continue
		}
		if jf != nil {
			fmt.Fprintf(jf, "%d\n", i)
		}
		mu.Lock()
		curCase, curStart = i, time.Now()
		mu.Unlock()
		c.Case = i
		c.Rng = CaseRng(id, *seed, *tier, i)
		chk.Run(c, i)
		c.Res.Cases++
		mu.Lock()
		curCase = -1
		mu.Unlock()
		if time.Since(lastFlush) > 2*time.Second {
			flush(pos+1, false)
			lastFlush = time.Now()
		}
	}
	flush(len(cases), true)
	if *out == "" {
		c.Res.finalize()
		for _, v := range c.Res.Violations {
			fmt.Printf("violation key=%q: %s\n", v.Key, v.Desc)
		}
		fmt.Printf("cases=%d counters=%v\n", c.Res.Cases, c.Res.Counters)
	}
	return 0
}

// ---------------------------------------------------------------------------------------------
// driver

type shardState struct {
	k       int
	next    int
	skip    []int
	res     *Result
	crashes []crash
}

type crash struct {
	caseNo  int
	stall   bool // confirmed alone: CPU burnt without reaching a monitor point (Check.StallCPU)
	timeout bool
	stderr  string
	input   string
}

func driverMain(args []string) int {
	fs := flag.NewFlagSet("run", flag.ExitOnError)
	tier := fs.String("tier", env("VERIF_TIER", "quick"), "")
	id := args[0]
	_ = fs.Parse(args[1:])
	chk := Registry[id]
	if chk == nil {
		fmt.Fprintln(os.Stderr, "unknown check", id)
		return 2
	}
	seed, _ := strconv.ParseInt(env("VERIF_SEED", "1"), 10, 64)
	start := time.Now()
	root := Root()
	self, _ := os.Executable()
	tmp, err := os.MkdirTemp(env("VERIF_TMP", filepath.Join(root, ".build")), "run-"+id+"-")
	if err != nil {
		fmt.Fprintln(os.Stderr, err)
		return 2
	}
	defer os.RemoveAll(tmp)
	ff, err := LoadFindings(filepath.Join(root, "known_findings.json"))
	if err != nil {
		fmt.Fprintln(os.Stderr, err)
		return 2
	}

	// 1. probes of open findings of this property
	knownSeen := map[string]bool{}
	var knownLines []string
	for _, f := range ff.Findings {
		if f.Property != id || f.Status != "open" {
			continue
		}
		cmd := exec.Command(self, "worker", id, "--tier", *tier, "--seed", fmt.Sprint(seed), "--probe", f.ID, "--tmp", tmp)
		var ob, eb bytes.Buffer
		cmd.Stdout, cmd.Stderr = &ob, &eb
		err := runWithTimeout(cmd, 5*time.Minute)
		fails, detail := false, ""
		if err != nil {
			fails, detail = true, "probe process died: "+firstLines(eb.String(), 3)
		} else if m := strings.Index(ob.String(), "PROBE-RESULT fails=true"); m >= 0 {
			fails = true
			detail = strings.TrimSpace(ob.String()[m+len("PROBE-RESULT fails=true"):])
		}
		if fails {
			knownSeen[f.ID] = true
			line := fmt.Sprintf("KNOWN-FINDING: property=%s %s [%s]", id, f.What, f.ID)
			knownLines = append(knownLines, line)
			fmt.Println(line)
			_ = detail
		}
	}

	// 2. exploration
	n := chk.NumCases(*tier)
	w := runtime.NumCPU()
	if mw, err := strconv.Atoi(env("VERIF_WORKERS", "")); err == nil && mw > 0 {
		w = mw
	}
	if chk.MaxWorkers > 0 && w > chk.MaxWorkers {
		w = chk.MaxWorkers
	}
	if w > n {
		w = n
	}
	if w < 1 {
		w = 1
	}
	total := NewResult()
	shards := make([]*shardState, w)
	var wg sync.WaitGroup
	shardTimeout := 40 * time.Minute
	if *tier == "thorough" {
		shardTimeout = 6 * time.Hour
	}
	for k := 0; k < w; k++ {
		st := &shardState{k: k, res: NewResult()}
		shards[k] = st
		wg.Add(1)
		go func() {
			defer wg.Done()
			runShard(self, chk, st, *tier, seed, w, tmp, shardTimeout)
		}()
	}
	wg.Wait()
	var crashes []crash
	for _, st := range shards {
		total.Merge(st.res)
		crashes = append(crashes, st.crashes...)
	}
	// crashes and hangs: each was already retried alone by runShard
	for _, cr := range crashes {
		if cr.stall {
			total.Violations = append(total.Violations, Violation{Property: id, Key: "uninterruptible", Desc: fmt.Sprintf("the case burnt more than %v of CPU time without reaching a single monitor point of the check (a yield or evaluation step of the evaluator, the return of a lexer or parser call), also when run alone: %s", chk.StallCPU, firstLines(cr.stderr, 2)), Input: cr.input, Seed: seed, Tier: *tier, Case: cr.caseNo})
			continue
		}
		if cr.timeout {
			total.Inconclusive = append(total.Inconclusive, fmt.Sprintf("case %d: watchdog fired twice (alone too); not judged", cr.caseNo))
			total.Counters["inconclusive"]++
			if chk.ID == "C03" || chk.ID == "C19" {
				// termination is part of these properties; the watchdog is >= 1000x the normal cost
				total.Violations = append(total.Violations, Violation{Property: id, Key: "hang", Desc: "case did not terminate within the watchdog, also when run alone", Input: cr.input, Seed: seed, Tier: *tier, Case: cr.caseNo})
			}
			continue
		}
		key := "host-crash:" + crashSite(cr.stderr)
		total.Violations = append(total.Violations, Violation{Property: id, Key: key, Desc: "worker process died while running this case (confirmed alone): " + firstLines(cr.stderr, 6), Input: cr.input, Seed: seed, Tier: *tier, Case: cr.caseNo, Extra: map[string]any{"stderr": tail(cr.stderr, 4000)}})
	}

	// 3. verdicts
	nv, nknown := 0, 0
	replayDir := filepath.Join(root, "replay", id)
	_ = os.RemoveAll(replayDir)
	seenKey := map[string]int{}
	var vioLines []string
	for i := range total.Violations {
		v := &total.Violations[i]
		if fid := ff.Match(v); fid != "" {
			v.Known = fid
			nknown++
			if !knownSeen[fid] {
				knownSeen[fid] = true
				for _, f := range ff.Findings {
					if f.ID == fid {
						line := fmt.Sprintf("KNOWN-FINDING: property=%s %s [%s]", id, f.What, f.ID)
						knownLines = append(knownLines, line)
						fmt.Println(line)
					}
				}
			}
			continue
		}
		nv++
		seenKey[v.Key]++
		if seenKey[v.Key] > 3 { // keep the replay dir small: three witnesses per failure class
			continue
		}
		path := filepath.Join(replayDir, fmt.Sprintf("%s-%s.json", sanitize(v.Key), ShortHash(v.Key+v.Input+fmt.Sprint(v.Case))))
		_ = WriteJSON(path, v)
		line := fmt.Sprintf("VIOLATION property=%s replay=%s", id, path)
		vioLines = append(vioLines, line)
		fmt.Println(line)
		fmt.Printf("  key=%s\n  %s\n", v.Key, firstLines(v.Desc, 8))
	}

	// 4. evidence
	total.finalize()
	observed := total.Cases > 0
	for _, k := range chk.MinEvents {
		if total.Counters[k] == 0 {
			observed = false
			fmt.Printf("harness failure: monitor counter %q is zero — nothing was observed\n", k)
		}
	}
	axes := map[string]any{}
	for a, m := range total.Cover {
		cells := make([]string, 0, len(m))
		for k := range m {
			cells = append(cells, k)
		}
		sort.Strings(cells)
		entry := map[string]any{"cells_hit": len(m)}
		if len(cells) <= 80 {
			entry["hits"] = m
		} else {
			entry["some_cells"] = cells[:40]
		}
		axes[a] = entry
	}
	cov := map[string]any{
		"evaluations":         total.Cases,
		"distinct_nontrivial": len(total.Distinct),
		"rule":                chk.Rule,
		"samples":             total.Samples,
		"monitor_events":      total.Counters,
		"axes":                axes,
		"inconclusive":        total.Inconclusive,
		"inconclusive_count":  total.Counters["inconclusive"],
		"known_findings_seen": knownLines,
		"known_violations":    nknown,
		"workers":             w,
	}
	if chk.Exhaustive != nil && chk.Exhaustive(*tier) {
		cov["exhaustive"] = true
	}
	if chk.Level == "translation_validation" {
		cov["programs"] = total.Counters["programs"]
		cov["disagreements_checked"] = total.Counters["disagreements_checked"]
	}
	if len(total.Samples) == 0 {
		cov["samples"] = []any{"(no sample recorded)"}
	}
	ev := map[string]any{
		"property_id": id,
		"tier":        *tier,
		"seed":        seed,
		"level":       chk.Level,
		"coverage":    cov,
		"assumptions": chk.Assumptions,
		"wall_s":      time.Since(start).Seconds(),
		"violations":  nv,
	}
	// VERIF_EVIDENCE_DIR is set only by the self-test scripts (mutants/, seeded/) so that runs against a
	// deliberately broken tree do not overwrite the evidence of the real tree
	evDir := env("VERIF_EVIDENCE_DIR", filepath.Join(root, "evidence"))
	_ = os.MkdirAll(evDir, 0o755)
	if err := WriteJSON(filepath.Join(evDir, id+".json"), ev); err != nil {
		fmt.Fprintln(os.Stderr, "evidence:", err)
		return 2
	}
	fmt.Printf("%s tier=%s seed=%d cases=%d distinct=%d violations=%d known=%d inconclusive=%d wall=%.1fs\n",
		id, *tier, seed, total.Cases, len(total.Distinct), nv, nknown, total.Counters["inconclusive"], time.Since(start).Seconds())
	keys := make([]string, 0, len(total.Counters))
	for k := range total.Counters {
		keys = append(keys, k)
	}
	sort.Strings(keys)
	for _, k := range keys {
		fmt.Printf("  %-40s %d\n", k, total.Counters[k])
	}
	if nv > 0 {
		return 1
	}
	if !observed {
		return 2
	}
	return 0
}

func runShard(self string, chk *Check, st *shardState, tier string, seed int64, w int, tmp string, timeout time.Duration) {
	base := filepath.Join(tmp, fmt.Sprintf("shard%d", st.k))
	wtmp := base + ".tmp"
	_ = os.MkdirAll(wtmp, 0o755)
	for attempt := 0; attempt < 200; attempt++ {
		// a hang costs a watchdog period twice (batch + alone): once three cases are confirmed to hang the
		// verdict of the run is settled, and the remaining cases of every shard are left unexplored
		if n := atomic.LoadInt64(&confirmedHangs); n >= 3 {
			st.res.Inconclusive = append(st.res.Inconclusive, fmt.Sprintf("shard %d stopped at case position %d: %d cases were already confirmed to hang", st.k, st.next, n))
			st.res.Counters["inconclusive"]++
			return
		}
		journal, out, errf := base+".journal", base+".out", base+".stderr"
		os.Remove(journal)
		os.Remove(out)
		skips := make([]string, len(st.skip))
		for i, s := range st.skip {
			skips[i] = fmt.Sprint(s)
		}
		cmd := exec.Command(self, "worker", chk.ID, "--tier", tier, "--seed", fmt.Sprint(seed),
			"--shard", fmt.Sprint(st.k), "--shards", fmt.Sprint(w), "--from", fmt.Sprint(st.next),
			"--skip", strings.Join(skips, ","), "--journal", journal, "--out", out, "--tmp", wtmp)
		ef, _ := os.Create(errf)
		cmd.Stderr = ef
		cmd.Stdout = ef
		err := runWithTimeout(cmd, timeout)
		ef.Close()
		var wo workerOut
		haveOut := ReadJSON(out, &wo) == nil && wo.Result != nil
		if haveOut {
			st.res.Merge(wo.Result)
			st.next = wo.Next
		}
		if err == nil && haveOut && wo.Done {
			return
		}
		// the worker died: attribute to the last journalled case
		last, isTimeout := lastJournal(journal)
		eb, _ := os.ReadFile(errf)
		if errors.Is(err, errTimeout) {
			isTimeout = true
		}
		if last < 0 {
			st.res.Inconclusive = append(st.res.Inconclusive, fmt.Sprintf("shard %d died before its first case: %s", st.k, firstLines(string(eb), 5)))
			st.res.Counters["inconclusive"]++
			return
		}
		// confirm alone
		alone := exec.Command(self, "worker", chk.ID, "--tier", tier, "--seed", fmt.Sprint(seed), "--only", fmt.Sprint(last),
			"--out", base+".alone.out", "--tmp", wtmp, "--case-timeout", "300s")
		var ab bytes.Buffer
		alone.Stderr, alone.Stdout = &ab, &ab
		os.Remove(base + ".alone.out")
		aerr := runWithTimeout(alone, 15*time.Minute)
		var ao workerOut
		if aerr == nil && ReadJSON(base+".alone.out", &ao) == nil && ao.Result != nil {
			// survived alone: count its result, note the flake as inconclusive
			st.res.Merge(ao.Result)
			st.res.Inconclusive = append(st.res.Inconclusive, fmt.Sprintf("case %d: worker died (timeout=%v) in a batch but the case passed alone; batch stderr: %s", last, isTimeout, firstLines(string(eb), 3)))
			st.res.Counters["inconclusive"]++
		} else {
			cr := crash{caseNo: last, timeout: isTimeout && (errors.Is(aerr, errTimeout) || exitCode(aerr) == 3 || exitCode(aerr) == 4), stall: exitCode(aerr) == 4, stderr: ab.String(), input: ReadJournal(wtmp)}
			if cr.timeout || cr.stall {
				atomic.AddInt64(&confirmedHangs, 1)
			}
			st.crashes = append(st.crashes, cr)
		}
		st.skip = append(st.skip, last)
	}
}

var errTimeout = errors.New("watchdog timeout")

// confirmedHangs counts, over all shards, the cases that hung or stalled in a batch and again alone.
var confirmedHangs int64

func runWithTimeout(cmd *exec.Cmd, d time.Duration) error {
	if err := cmd.Start(); err != nil {
		return err
	}
	done := make(chan error, 1)
	go func() { done <- cmd.Wait() }()
	select {
	case err := <-done:
		return err
	case <-time.After(d):
		_ = cmd.Process.Signal(syscall.SIGQUIT)
		select {
		case <-done:
		case <-time.After(5 * time.Second):
			_ = cmd.Process.Kill()
			<-done
		}
		return errTimeout
	}
}

func exitCode(err error) int {
	var ee *exec.ExitError
	if errors.As(err, &ee) {
		return ee.ExitCode()
	}
	return -1
}

func lastJournal(path string) (int, bool) {
	f, err := os.Open(path)
	if err != nil {
		return -1, false
	}
	defer f.Close()
	last, timeout := -1, false
	sc := bufio.NewScanner(f)
	for sc.Scan() {
		line := sc.Text()
		if strings.HasPrefix(line, "STALL ") {
			if n, err := strconv.Atoi(line[6:]); err == nil {
				last, timeout = n, true
			}
			continue
		}
		if strings.HasPrefix(line, "TIMEOUT ") {
			if n, err := strconv.Atoi(line[8:]); err == nil {
				last, timeout = n, true
			}
			continue
		}
		if n, err := strconv.Atoi(line); err == nil {
			last, timeout = n, false
		}
	}
	return last, timeout
}

// crashSite extracts a stable key from a Go crash dump: the message plus the first frame that
// lies in the repository under test.
func crashSite(stderr string) string {
	msg := ""
	for _, l := range strings.Split(stderr, "\n") {
		if strings.HasPrefix(l, "panic: ") || strings.HasPrefix(l, "fatal error: ") || strings.HasPrefix(l, "runtime: goroutine stack exceeds") {
			msg = l
			break
		}
	}
	if strings.HasPrefix(msg, "runtime: goroutine stack exceeds") {
		msg = "runtime: goroutine stack exceeds limit"
	}
	if len(msg) > 80 {
		msg = msg[:80]
	}
	site := ""
	lines := strings.Split(stderr, "\n")
	for i, l := range lines {
		l = strings.TrimSpace(l)
		if j := strings.Index(l, "/pkg/"); j >= 0 && strings.Contains(l, ".go:") && !strings.Contains(l, "/verif/") {
			site = l[j+1:]
			if k := strings.Index(site, ":"); k > 0 {
				site = site[:k]
			}
			// the function name is on the line before the file line
			if i > 0 {
				fn := strings.TrimSpace(lines[i-1])
				if k := strings.Index(fn, "("); k > 0 {
					fn = fn[:k]
				}
				if k := strings.LastIndex(fn, "."); k >= 0 {
					fn = fn[k+1:]
				}
				site += ":" + fn
			}
			break
		}
	}
	if strings.Contains(msg, "stack") && strings.Contains(stderr, "evalFunccall") {
		site = "recursion-through:evalFunccall"
	}
	return msg + "@" + site
}

func firstLines(s string, n int) string {
	lines := strings.Split(strings.TrimSpace(s), "\n")
	if len(lines) > n {
		lines = lines[:n]
	}
	return strings.Join(lines, " | ")
}

func tail(s string, n int) string {
	if len(s) > n {
		return s[len(s)-n:]
	}
	return s
}

func sanitize(s string) string {
	var b strings.Builder
	for _, r := range s {
		if (r >= 'a' && r <= 'z') || (r >= 'A' && r <= 'Z') || (r >= '0' && r <= '9') || r == '-' || r == '_' {
			b.WriteRune(r)
		} else {
			b.WriteByte('_')
		}
		if b.Len() >= 40 {
			break
		}
	}
	return b.String()
}

// ---------------------------------------------------------------------------------------------
// replay

func replayMain(args []string) int {
	if len(args) < 2 {
		fmt.Fprintln(os.Stderr, "usage: verifd replay <ID> <path>")
		return 2
	}
	id, path := args[0], args[1]
	var v Violation
	if err := ReadJSON(path, &v); err != nil {
		fmt.Fprintln(os.Stderr, err)
		return 2
	}
	fmt.Printf("replaying %s case %d (seed %d, tier %s)\nrecorded: key=%s\n  %s\n", id, v.Case, v.Seed, v.Tier, v.Key, v.Desc)
	self, _ := os.Executable()
	tmp, _ := os.MkdirTemp(env("VERIF_TMP", filepath.Join(Root(), ".build")), "replay-")
	defer os.RemoveAll(tmp)
	cmd := exec.Command(self, "worker", id, "--tier", v.Tier, "--seed", fmt.Sprint(v.Seed), "--only", fmt.Sprint(v.Case), "--replay", "--tmp", tmp)
	var ob bytes.Buffer
	cmd.Stdout, cmd.Stderr = &ob, &ob
	err := runWithTimeout(cmd, 20*time.Minute)
	fmt.Print(ob.String())
	if err != nil {
		fmt.Printf("replay process ended abnormally: %v\nVIOLATION property=%s replay=%s\n", err, id, path)
		return 1
	}
	if strings.Contains(ob.String(), "violation key=") {
		fmt.Printf("VIOLATION property=%s replay=%s\n", id, path)
		return 1
	}
	fmt.Println("no violation reproduced")
	return 0
}

// processCPU is the CPU time (user + system) this process has consumed.
func processCPU() time.Duration {
	var ru syscall.Rusage
	if err := syscall.Getrusage(syscall.RUSAGE_SELF, &ru); err != nil {
		return 0
	}
	return time.Duration(ru.Utime.Nano() + ru.Stime.Nano())
}
