// ddmin minimises an Evy source (token-wise) while a predicate keeps holding.
// usage: ddmin <mode> <replay.json|file.evy>   modes: parsepanic | run (gopanic/internal, same class+site)
package main

import (
	"encoding/json"
	"fmt"
	"os"
	"strings"

	"evylang.dev/evy/pkg/parser"

	"verif/mut"
	"verif/plat"
)

func parseKey(src string) (key string) {
	defer func() {
		if p := recover(); p != nil {
			key = "panic@" + plat.PanicSite()
		}
	}()
	_, _ = parser.Parse(src, plat.Builtins())
	return ""
}

func runKey(src string) string {
	o := plat.Run(src, plat.Opts{YieldBudget: 20000})
	switch o.Class {
	case "gopanic":
		return "gopanic@" + o.Site
	case "internal":
		return "internal"
	}
	return ""
}

func main() {
	mode, path := os.Args[1], os.Args[2]
	b, err := os.ReadFile(path)
	if err != nil {
		panic(err)
	}
	src := string(b)
	if strings.HasSuffix(path, ".json") {
		var v struct{ Input string }
		_ = json.Unmarshal(b, &v)
		src = v.Input
	}
	pred := parseKey
	if mode == "run" {
		pred = runKey
	}
	want := pred(src)
	if want == "" {
		fmt.Println("predicate does not hold on input")
		os.Exit(1)
	}
	toks := mut.Tokenize(src)
	n := 2
	for len(toks) >= 2 {
		chunk := (len(toks) + n - 1) / n
		reduced := false
		for i := 0; i < len(toks); i += chunk {
			j := i + chunk
			if j > len(toks) {
				j = len(toks)
			}
			cand := append(append([]mut.Tok(nil), toks[:i]...), toks[j:]...)
			if pred(mut.Join(cand)) == want {
				toks = cand
				if n > 2 {
					n--
				}
				reduced = true
				break
			}
		}
		if !reduced {
			if chunk == 1 {
				break
			}
			n *= 2
			if n > len(toks) {
				n = len(toks)
			}
		}
	}
	fmt.Printf("key: %s\n---\n%s\n---\n%q\n", want, mut.Join(toks), mut.Join(toks))
}
