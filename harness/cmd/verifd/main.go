// verifd is the single binary behind /verif/check: driver, worker and replay.
package main

import (
	_ "verif/checks"
	"verif/core"
)

func main() { core.Main() }
