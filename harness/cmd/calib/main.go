// calib runs the reference interpreter and the printer against the evaluator/parser on the
// corpus and the documentation examples and reports every disagreement.
package main

import (
	"fmt"
	"math/rand"
	"os"
	"strings"

	"evylang.dev/evy/pkg/parser"

	"verif/conv"
	"verif/corpus"
	"verif/gen"
	"verif/mon"
	"verif/plat"
	"verif/ref"
)

func main() {
	repo := "/repo"
	if len(os.Args) > 1 {
		repo = os.Args[1]
	}
	files := corpus.Load(repo)
	for _, d := range corpus.DocExamples(repo) {
		files = append(files, corpus.File{Path: fmt.Sprintf("%s:%d", d.Doc, d.Line), Src: d.Src})
	}
	inputs := []string{"3", "abc", "", "7", "y", "1 2", "q"}
	var judged, agree, notJudged, unsupported, rejected, printerBad int
	for _, f := range files {
		prog, err := parser.Parse(f.Src, plat.Builtins())
		if err != nil {
			rejected++
			continue
		}
		g, err := conv.Program(prog)
		if err != nil {
			unsupported++
			fmt.Println("UNSUPPORTED", f.Path, err)
			continue
		}
		// printer round trip
		want := mon.DumpNoGroups(prog)
		for k := 0; k < 4; k++ {
			var lay *gen.Layout
			if k > 0 {
				lay = gen.RandomLayout(rand.New(rand.NewSource(int64(k))))
			}
			text := gen.Print(g, lay)
			p2, err := parser.Parse(text, plat.Builtins())
			if err != nil {
				printerBad++
				fmt.Printf("PRINTER-REJECTED %s layout %d: %v\n", f.Path, k, firstLine(err.Error()))
				if os.Getenv("CALIB_V") != "" {
					fmt.Println(text)
				}
				break
			}
			got := mon.DumpNoGroups(p2)
			if got != want {
				printerBad++
				fmt.Printf("PRINTER-TREE %s layout %d\n", f.Path, k)
				if os.Getenv("CALIB_V") != "" {
					fmt.Println(text)
					fmt.Println(want)
					fmt.Println(got)
				}
				break
			}
		}
		o := plat.Run(f.Src, plat.Opts{Inputs: inputs, RandSeed: 7, YieldBudget: 100000, MaxEvents: 20000})
		in := ref.New()
		in.Inputs = inputs
		in.MaxSteps = 400000
		r := in.Run(g, nil)
		j, ok, why := mon.Compare(o, r)
		switch {
		case !j:
			notJudged++
			if os.Getenv("CALIB_V") != "" {
				fmt.Println("NOT-JUDGED", f.Path, why)
			}
		case ok:
			judged++
			agree++
		default:
			judged++
			fmt.Println("DISAGREE", f.Path, why)
		}
	}
	fmt.Printf("files=%d rejected=%d unsupported=%d judged=%d agree=%d not-judged=%d printer-bad=%d\n", len(files), rejected, unsupported, judged, agree, notJudged, printerBad)
}

func firstLine(s string) string { return strings.SplitN(s, "\n", 2)[0] }

// stripParens removes group nodes so that redundant parentheses do not count as a tree change.
func stripParens(s string) string { return strings.ReplaceAll(s, "(group ", "(") }
