// Package corpus loads the Evy programs found in the repository under test: the .evy files
// and the code blocks of the documentation (with their expected output where given).
package corpus

import (
	"os"
	"path/filepath"
	"sort"
	"strings"
)

// File is one corpus program.
type File struct {
	Path string
	Src  string
}

// Load returns all distinct .evy files under repo (symlinks skipped, identical texts merged).
func Load(repo string) []File {
	var files []File
	seen := map[string]bool{}
	_ = filepath.WalkDir(repo, func(p string, d os.DirEntry, err error) error {
		if err != nil {
			return nil
		}
		if d.IsDir() {
			n := d.Name()
			if n == ".git" || n == "node_modules" {
				return filepath.SkipDir
			}
			return nil
		}
		if !strings.HasSuffix(p, ".evy") || d.Type()&os.ModeSymlink != 0 {
			return nil
		}
		b, err := os.ReadFile(p)
		if err != nil || seen[string(b)] {
			return nil
		}
		seen[string(b)] = true
		rel, _ := filepath.Rel(repo, p)
		files = append(files, File{Path: rel, Src: string(b)})
		return nil
	})
	sort.Slice(files, func(i, j int) bool { return files[i].Path < files[j].Path })
	return files
}

// DocExample is an `evy` code block of the documentation, optionally followed by its
// `evy:input` and `evy:output` blocks.
type DocExample struct {
	Doc    string
	Line   int
	Src    string
	Input  string
	Output string
	HasOut bool
}

// DocExamples extracts the examples of docs/*.md.
func DocExamples(repo string) []DocExample {
	var out []DocExample
	for _, name := range []string{"docs/spec.md", "docs/builtins.md", "docs/syntax-by-example.md"} {
		b, err := os.ReadFile(filepath.Join(repo, name))
		if err != nil {
			continue
		}
		lines := strings.Split(string(b), "\n")
		var cur *DocExample
		for i := 0; i < len(lines); i++ {
			l := lines[i]
			trim := strings.TrimSpace(l)
			if !strings.HasPrefix(trim, "```") {
				continue
			}
			tag := strings.TrimPrefix(trim, "```")
			indent := l[:len(l)-len(strings.TrimLeft(l, " \t"))]
			var body []string
			j := i + 1
			for ; j < len(lines) && strings.TrimSpace(lines[j]) != "```"; j++ {
				body = append(body, strings.TrimPrefix(lines[j], indent))
			}
			text := strings.Join(body, "\n") + "\n"
			switch tag {
			case "evy":
				out = append(out, DocExample{Doc: name, Line: i + 1, Src: text})
				cur = &out[len(out)-1]
			case "evy:input":
				if cur != nil {
					cur.Input = text
				}
			case "evy:output":
				if cur != nil && !cur.HasOut {
					cur.Output = text
					cur.HasOut = true
				}
			default:
				// any other fenced block does not break the association (prose between the blocks)
			}
			i = j
		}
	}
	return out
}
