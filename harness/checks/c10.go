package checks

import (
	"fmt"
	"math/rand"

	"verif/core"
	"verif/gen"
)

// C10 — lexical scoping and structured control flow.

type cfFunc struct {
	name    string
	retNum  bool
	hasStr  bool
	defined bool
}

type cfGen struct {
	r       *rand.Rand
	c       *core.Ctx
	scopes  [][]gen.VarInfo
	loops   int // loop nesting depth inside the current function / top level
	fn      *cfFunc
	id      int
	nameN   int
	funcs   []*cfFunc
	budget  int
	globals []gen.VarInfo
}

func (g *cfGen) fresh(p string) string { g.nameN++; return fmt.Sprintf("%s%d", p, g.nameN) }

func (g *cfGen) visible() []gen.VarInfo {
	seen := map[string]bool{}
	var out []gen.VarInfo
	for i := len(g.scopes) - 1; i >= 0; i-- {
		for j := len(g.scopes[i]) - 1; j >= 0; j-- {
			v := g.scopes[i][j]
			if !seen[v.Name] {
				seen[v.Name] = true
				out = append(out, v)
			}
		}
	}
	// stable order: outermost first
	for l, r := 0, len(out)-1; l < r; l, r = l+1, r-1 {
		out[l], out[r] = out[r], out[l]
	}
	return out
}

func (g *cfGen) visibleOf(t *gen.Type) []gen.VarInfo {
	var out []gen.VarInfo
	for _, v := range g.visible() {
		if v.T.Eq(t) {
			out = append(out, v)
		}
	}
	return out
}

func (g *cfGen) declare(v gen.VarInfo) {
	g.scopes[len(g.scopes)-1] = append(g.scopes[len(g.scopes)-1], v)
}

func (g *cfGen) inCurrent(name string) bool {
	for _, v := range g.scopes[len(g.scopes)-1] {
		if v.Name == name {
			return true
		}
	}
	return false
}

func (g *cfGen) show(tag string) gen.Stmt {
	args := []gen.Expr{sl(tag)}
	for _, v := range g.visible() {
		args = append(args, vr(v.Name, v.T))
	}
	return printCall(args...)
}

func (g *cfGen) numExpr() gen.Expr {
	vs := g.visibleOf(tNum)
	if len(vs) > 0 && g.r.Intn(3) > 0 {
		v := vs[g.r.Intn(len(vs))]
		if g.r.Intn(2) == 0 {
			return gen.Binary{Op: []string{"+", "-", "*"}[g.r.Intn(3)], L: vr(v.Name, tNum), R: nl(float64(1 + g.r.Intn(3))), T: tNum}
		}
		return vr(v.Name, tNum)
	}
	return nl(float64(g.r.Intn(6)))
}

func (g *cfGen) cond() gen.Expr {
	vs := g.visibleOf(tNum)
	if len(vs) == 0 || g.r.Intn(6) == 0 {
		return gen.BoolLit{V: g.r.Intn(2) == 0}
	}
	v := vs[g.r.Intn(len(vs))]
	switch g.r.Intn(3) {
	case 0:
		return gen.Binary{Op: "==", L: gen.Binary{Op: "%", L: vr(v.Name, tNum), R: nl(2), T: tNum}, R: nl(float64(g.r.Intn(2))), T: tBool}
	case 1:
		return gen.Binary{Op: []string{"<", ">", "<=", ">="}[g.r.Intn(4)], L: vr(v.Name, tNum), R: nl(float64(g.r.Intn(4))), T: tBool}
	}
	return gen.Binary{Op: "!=", L: vr(v.Name, tNum), R: nl(float64(g.r.Intn(3))), T: tBool}
}

var cfKinds = []string{"if", "ifelse", "elseif", "while", "fornum", "forarr", "forstr", "formap", "call"}

// block generates the statements of one block. parent is the construct kind owning the block.
func (g *cfGen) block(depth int, parent string) []gen.Stmt { return g.blockIn(depth, parent, false) }

// blockIn generates a block; share means the block's declarations live in the scope the caller
// has already opened (function parameters and loop variables share the scope of their body).
func (g *cfGen) blockIn(depth int, parent string, share bool) []gen.Stmt {
	if !share {
		g.scopes = append(g.scopes, nil)
		defer func() { g.scopes = g.scopes[:len(g.scopes)-1] }()
	}
	g.id++
	id := g.id
	var out []gen.Stmt
	out = append(out, g.show(fmt.Sprintf("enter %d", id)))
	n := 1 + g.r.Intn(3)
	for k := 0; k < n; k++ {
		switch g.r.Intn(8) {
		case 0: // new declaration
			name := g.fresh("v")
			if g.r.Intn(3) == 0 {
				out = append(out, gen.Decl{Name: name, T: tStr, Init: sl("s" + fmt.Sprint(id))})
				g.declare(gen.VarInfo{Name: name, T: tStr})
			} else {
				out = append(out, gen.Decl{Name: name, T: tNum, Init: g.numExpr()})
				g.declare(gen.VarInfo{Name: name, T: tNum})
			}
		case 1: // shadow an outer variable, with another type
			vis := g.visible()
			if len(vis) == 0 || len(g.scopes) < 2 {
				continue
			}
			v := vis[g.r.Intn(len(vis))]
			if g.inCurrent(v.Name) || v.Name == "fuel" {
				continue
			}
			g.c.Cover("scoping", "shadow-in-"+parent)
			if v.T.Eq(tNum) {
				out = append(out, gen.Decl{Name: v.Name, T: tStr, Init: sl("shadow" + fmt.Sprint(id))})
				g.declare(gen.VarInfo{Name: v.Name, T: tStr})
			} else {
				out = append(out, gen.Decl{Name: v.Name, T: tNum, Init: nl(float64(100 + id))})
				g.declare(gen.VarInfo{Name: v.Name, T: tNum})
			}
		case 2, 3: // update a visible variable (possibly an outer one)
			vis := g.visible()
			if len(vis) == 0 {
				continue
			}
			v := vis[g.r.Intn(len(vis))]
			if v.Name == "fuel" {
				continue
			}
			if v.T.Eq(tNum) {
				out = append(out, gen.Assign{Target: vr(v.Name, tNum), Val: gen.Binary{Op: "+", L: vr(v.Name, tNum), R: nl(float64(1 + g.r.Intn(3))), T: tNum}})
			} else if v.T.Eq(tStr) {
				out = append(out, gen.Assign{Target: vr(v.Name, tStr), Val: gen.Binary{Op: "+", L: vr(v.Name, tStr), R: sl("."), T: tStr}})
			}
		default:
			if depth > 0 && g.budget > 0 {
				g.budget--
				kind := cfKinds[g.r.Intn(len(cfKinds))]
				g.c.Cover("construct-pair", parent+">"+kind)
				out = append(out, g.construct(kind, depth-1)...)
			}
		}
	}
	out = append(out, g.show(fmt.Sprintf("exit %d", id)))
	// conditional early exit as the last statement of an if without else
	if g.r.Intn(3) == 0 {
		var term gen.Stmt
		what := ""
		switch {
		case g.loops > 0 && (g.fn == nil || g.r.Intn(2) == 0):
			term, what = gen.Break{}, "break"
		case g.fn != nil && g.fn.retNum:
			term, what = gen.Return{Val: g.numExpr()}, "return"
		case g.fn != nil:
			term, what = gen.Return{}, "return"
		}
		if term != nil {
			g.c.Cover("exit", what+"-in-"+parent)
			out = append(out, gen.If{Conds: []gen.Expr{g.cond()}, Blocks: [][]gen.Stmt{{printCall(sl(fmt.Sprintf("%s %d", what, id))), term}}})
		}
	}
	return out
}

func (g *cfGen) loopBody(depth int, kind string) []gen.Stmt {
	g.loops++
	defer func() { g.loops-- }()
	return g.blockIn(depth, kind, kind != "while")
}

func (g *cfGen) construct(kind string, depth int) []gen.Stmt {
	switch kind {
	case "if":
		return []gen.Stmt{gen.If{Conds: []gen.Expr{g.cond()}, Blocks: [][]gen.Stmt{g.block(depth, kind)}}}
	case "ifelse":
		return []gen.Stmt{gen.If{Conds: []gen.Expr{g.cond()}, Blocks: [][]gen.Stmt{g.block(depth, kind)}, Else: g.block(depth, "else")}}
	case "elseif":
		s := gen.If{}
		for k := 0; k < 2+g.r.Intn(2); k++ {
			s.Conds = append(s.Conds, g.cond())
			s.Blocks = append(s.Blocks, g.block(depth, kind))
		}
		if g.r.Intn(2) == 0 {
			s.Else = g.block(depth, "else")
		}
		return []gen.Stmt{s}
	case "while":
		w := g.fresh("w")
		g.declare(gen.VarInfo{Name: w, T: tNum})
		limit := float64(1 + g.r.Intn(3))
		var cond gen.Expr = gen.Binary{Op: "<", L: vr(w, tNum), R: nl(limit), T: tBool}
		if g.r.Intn(2) == 0 { // make each evaluation of the condition visible
			cond = call("pbool", tBool, cond)
		}
		body := []gen.Stmt{gen.Assign{Target: vr(w, tNum), Val: gen.Binary{Op: "+", L: vr(w, tNum), R: nl(1), T: tNum}}}
		body = append(body, g.loopBody(depth, kind)...)
		return []gen.Stmt{gen.Decl{Name: w, T: tNum, Init: nl(0)}, gen.While{Cond: cond, Body: body}}
	case "fornum":
		f := gen.For{}
		probe := g.r.Intn(2) == 0
		arg := func(v float64) gen.Expr {
			if probe {
				return call("pnum", tNum, nl(v))
			}
			return nl(v)
		}
		switch g.r.Intn(4) {
		case 0:
			f.Args = []gen.Expr{arg(float64(g.r.Intn(4)))}
		case 1:
			f.Args = []gen.Expr{arg(float64(g.r.Intn(3))), arg(float64(g.r.Intn(5)))}
		case 2:
			f.Args = []gen.Expr{arg(float64(g.r.Intn(3))), arg(float64(2 + g.r.Intn(4))), arg([]float64{1, 2, 0.5}[g.r.Intn(3)])}
		case 3:
			f.Args = []gen.Expr{arg(float64(2 + g.r.Intn(3))), arg(float64(g.r.Intn(2))), nl(-1)}
		}
		// bound taken from a variable that the body then changes: evaluated once at loop entry
		if vs := g.visibleOf(tNum); len(vs) > 0 && g.r.Intn(3) == 0 {
			v := vs[g.r.Intn(len(vs))]
			if v.Name != "fuel" {
				f.Args = []gen.Expr{gen.Binary{Op: "%", L: call("abs", tNum, vr(v.Name, tNum)), R: nl(4), T: tNum}}
			}
		}
		g.scopes = append(g.scopes, nil)
		if g.r.Intn(4) > 0 {
			f.Var = g.fresh("i")
			if vis := g.visible(); len(vis) > 0 && g.r.Intn(4) == 0 && len(f.Args) > 0 {
				if _, usesVar := f.Args[0].(gen.Binary); !usesVar {
					f.Var = vis[g.r.Intn(len(vis))].Name // loop variable shadows an outer name
					if f.Var == "fuel" {
						f.Var = g.fresh("i")
					}
				}
			}
			f.VarT = tNum
			g.declare(gen.VarInfo{Name: f.Var, T: tNum})
		}
		f.Body = g.loopBody(depth, kind)
		g.scopes = g.scopes[:len(g.scopes)-1]
		return []gen.Stmt{f}
	case "forarr":
		f := gen.For{Over: arrLit(tArrN, nl(float64(g.r.Intn(5))), nl(7), nl(float64(g.r.Intn(5))))}
		if g.r.Intn(3) == 0 {
			f.Over = arrLit(tArrN)
			f.Over = gen.Slice{X: arrLit(tArrN, nl(1)), Lo: nl(1)} // empty array
		}
		g.scopes = append(g.scopes, nil)
		if g.r.Intn(4) > 0 {
			f.Var, f.VarT = g.fresh("e"), tNum
			g.declare(gen.VarInfo{Name: f.Var, T: tNum})
		}
		f.Body = g.loopBody(depth, kind)
		g.scopes = g.scopes[:len(g.scopes)-1]
		return []gen.Stmt{f}
	case "forstr":
		f := gen.For{Over: sl([]string{"aé🌍", "xy", "", "ü"}[g.r.Intn(4)])}
		g.scopes = append(g.scopes, nil)
		if g.r.Intn(4) > 0 {
			f.Var, f.VarT = g.fresh("ch"), tStr
			g.declare(gen.VarInfo{Name: f.Var, T: tStr})
		}
		f.Body = g.loopBody(depth, kind)
		g.scopes = g.scopes[:len(g.scopes)-1]
		return []gen.Stmt{f}
	case "formap":
		m := g.fresh("m")
		decl := gen.Decl{Name: m, T: tMapN, Init: gen.MapLit{T: tMapN, Keys: []string{"a", "b", "c"}, Vals: []gen.Expr{nl(1), nl(2), nl(3)}}}
		g.declare(gen.VarInfo{Name: m, T: tMapN})
		f := gen.For{Over: vr(m, tMapN)}
		g.scopes = append(g.scopes, nil)
		if g.r.Intn(4) > 0 {
			f.Var, f.VarT = g.fresh("k"), tStr
			g.declare(gen.VarInfo{Name: f.Var, T: tStr})
		}
		var pre []gen.Stmt
		switch g.r.Intn(4) {
		case 0:
			pre = append(pre, gen.CallStmt{C: call("del", gen.TNone, vr(m, tMapN), sl([]string{"a", "b", "c"}[g.r.Intn(3)]))})
		case 1:
			pre = append(pre, gen.Assign{Target: gen.Dot{X: vr(m, tMapN), Key: "zz", T: tNum}, Val: nl(9)})
		case 2:
			if f.Var != "" {
				pre = append(pre, gen.CallStmt{C: call("del", gen.TNone, vr(m, tMapN), vr(f.Var, tStr))})
			}
		}
		f.Body = append(pre, g.loopBody(depth, kind)...)
		g.scopes = g.scopes[:len(g.scopes)-1]
		return []gen.Stmt{decl, f}
	case "call":
		if len(g.funcs) == 0 {
			return nil
		}
		fn := g.funcs[g.r.Intn(len(g.funcs))]
		var fuel gen.Expr = nl(float64(1 + g.r.Intn(2)))
		var guard gen.Expr
		if g.fn != nil { // inside a function: recursion is bounded by the fuel parameter
			fuel = gen.Binary{Op: "-", L: vr("fuel", tNum), R: nl(1), T: tNum}
			guard = gen.Binary{Op: ">", L: vr("fuel", tNum), R: nl(0), T: tBool}
			if fn == g.fn {
				g.c.Cover("scoping", "direct-recursion")
			} else {
				g.c.Cover("scoping", "call-from-function")
			}
		}
		args := []gen.Expr{fuel, g.numExpr()}
		var st gen.Stmt
		if fn.retNum {
			name := g.fresh("r")
			g.declare(gen.VarInfo{Name: name, T: tNum})
			st = gen.Decl{Name: name, T: tNum, Init: call(fn.name, tNum, args...)}
			if guard != nil {
				// declaration inside the guard block would hide the result: use typed decl + assignment
				return []gen.Stmt{gen.Decl{Name: name, T: tNum, Typed: true}, gen.If{Conds: []gen.Expr{guard}, Blocks: [][]gen.Stmt{{gen.Assign{Target: vr(name, tNum), Val: call(fn.name, tNum, args...)}}}}}
			}
			return []gen.Stmt{st}
		}
		st = gen.CallStmt{C: call(fn.name, gen.TNone, args...)}
		if guard != nil {
			return []gen.Stmt{gen.If{Conds: []gen.Expr{guard}, Blocks: [][]gen.Stmt{{st}}}}
		}
		return []gen.Stmt{st}
	}
	return nil
}

func (g *cfGen) funcDef(fn *cfFunc, depth int) gen.Stmt {
	saved, savedLoops, savedFn := g.scopes, g.loops, g.fn
	g.scopes = [][]gen.VarInfo{g.globals, {{Name: "fuel", T: tNum}, {Name: "a", T: tNum}}}
	g.loops, g.fn = 0, fn
	body := g.blockIn(depth, "func", true)
	if fn.retNum {
		// the result expression may only use names visible at function level
		body = append(body, gen.Return{Val: gen.Binary{Op: "+", L: vr("a", tNum), R: vr("fuel", tNum), T: tNum}})
	}
	g.scopes, g.loops, g.fn = saved, savedLoops, savedFn
	fd := gen.FuncDef{Name: fn.name, Params: []gen.Param{{Name: "fuel", T: tNum}, {Name: "a", T: tNum}}, Ret: gen.TNone, Body: body}
	if fn.retNum {
		fd.Ret = tNum
	}
	return fd
}

func cfProgram(c *core.Ctx, depth int) *gen.Program {
	g := &cfGen{r: c.Rng, c: c, budget: 10 + c.Rng.Intn(10)}
	// probes
	probes := []gen.Stmt{
		gen.FuncDef{Name: "pnum", Params: []gen.Param{{Name: "v", T: tNum}}, Ret: tNum, Body: []gen.Stmt{printCall(sl("pnum"), vr("v", tNum)), gen.Return{Val: vr("v", tNum)}}},
		gen.FuncDef{Name: "pbool", Params: []gen.Param{{Name: "v", T: tBool}}, Ret: tBool, Body: []gen.Stmt{printCall(sl("pbool"), vr("v", tBool)), gen.Return{Val: vr("v", tBool)}}},
	}
	// globals first, so that every function body may use them
	var top []gen.Stmt
	g.scopes = [][]gen.VarInfo{nil}
	for k := 0; k < 2+g.r.Intn(2); k++ {
		name := fmt.Sprintf("g%d", k)
		if k == 1 {
			top = append(top, gen.Decl{Name: name, T: tStr, Init: sl("G")})
			g.declare(gen.VarInfo{Name: name, T: tStr})
		} else {
			top = append(top, gen.Decl{Name: name, T: tNum, Init: nl(float64(g.r.Intn(5)))})
			g.declare(gen.VarInfo{Name: name, T: tNum})
		}
	}
	g.globals = append([]gen.VarInfo(nil), g.scopes[0]...)
	nf := g.r.Intn(4)
	for k := 0; k < nf; k++ {
		g.funcs = append(g.funcs, &cfFunc{name: fmt.Sprintf("fn%d", k), retNum: g.r.Intn(2) == 0})
	}
	var defs []gen.Stmt
	for _, fn := range g.funcs {
		defs = append(defs, g.funcDef(fn, depth-1))
	}
	// top-level code: the statements of the outermost block live in the global scope
	g.id++
	top = append(top, g.show("enter top"))
	for k := 0; k < 2+g.r.Intn(3); k++ {
		kind := cfKinds[g.r.Intn(len(cfKinds))]
		g.c.Cover("construct-pair", "top>"+kind)
		top = append(top, g.construct(kind, depth-1)...)
		top = append(top, g.show("after "+kind))
	}
	var all []gen.Stmt
	ng := len(g.globals)
	all = append(all, top[:ng]...) // global declarations first: every function body may use them
	if g.r.Intn(2) == 0 {          // functions defined after their first use
		all = append(all, top[ng:]...)
		all = append(all, probes...)
		all = append(all, defs...)
		g.c.Cover("scoping", "call-before-definition")
	} else {
		all = append(all, probes...)
		all = append(all, defs...)
		all = append(all, top[ng:]...)
	}
	return &gen.Program{Stmts: all}
}

var c10Grid = []float64{-3, -1, -0.5, 0, 0.25, 1, 2.5, 4}

func init() {
	core.Register(&core.Check{
		ID:    "C10",
		Level: "exploration",
		Rule: "(a) the full grid of numeric ranges (start, stop, step) over {-3,-1,-0.5,0,0.25,1,2.5,4}^3 in 1-, 2- and 3-argument form incl. empty, negative, fractional and zero steps; (b) random nestings (depth <= 4) of if/else-if/else, while, the four for-range kinds and calls with declarations, shadowing, updates of outer variables, conditional break/return, probes in loop headers, map mutation while ranging, recursion with fuel, functions called before their definition; every block prints all visible names on entry and exit. " +
			"distinct = distinct canonical program texts",
		Assumptions: []string{"reference interpreter (harness/ref) is the transcription of the Scope, Break and Return and for/while sections of docs/spec.md", "arrays are not mutated while being ranged over (unspecified)"},
		NumCases: func(tier string) int {
			grid := 8 + 64 + 512
			if tier == "thorough" {
				return grid + 40000
			}
			return grid + 1200
		},
		Run:       c10Run,
		MinEvents: []string{"programs", "layouts_run", "effects_compared"},
	})
}

func c10Run(c *core.Ctx, i int) {
	grid := 8 + 64 + 512
	if i < grid {
		var args []gen.Expr
		switch {
		case i < 8:
			args = []gen.Expr{nl(c10Grid[i])}
		case i < 72:
			j := i - 8
			args = []gen.Expr{nl(c10Grid[j/8]), nl(c10Grid[j%8])}
		default:
			j := i - 72
			args = []gen.Expr{nl(c10Grid[j/64]), nl(c10Grid[(j/8)%8]), nl(c10Grid[j%8])}
		}
		c.Cover("range-arity", fmt.Sprint(len(args)))
		prog := &gen.Program{Stmts: []gen.Stmt{
			gen.For{Var: "i", VarT: tNum, Args: args, Body: []gen.Stmt{printCall(vr("i", tNum))}},
			printCall(sl("done")),
			gen.Decl{Name: "cnt", T: tNum, Init: nl(0)},
			gen.For{Args: args, Body: []gen.Stmt{gen.Assign{Target: vr("cnt", tNum), Val: gen.Binary{Op: "+", L: vr("cnt", tNum), R: nl(1), T: tNum}}}},
			printCall(sl("count"), vr("cnt", tNum)),
		}}
		runGenProgram(c, prog, nil, true, i == 100)
		return
	}
	switch (i - grid) % 12 {
	case 5:
		// ranges whose iteration count is not (stop-start)/step in floating point: steps that are not
		// exactly representable (the running value accumulates), huge and tiny bounds left by break
		c.Cover("family", "range-arithmetic")
		r := c.Rng
		steps := [][]float64{{0, 1, 0.1}, {0, 2.1, 0.3}, {1, 0, -0.1}, {0, 0.7, 0.07}, {0.1, 0.5, 0.1}, {0, 1, 0.3}, {5, 4, -0.15}, {0, 0.3, 0.1}, {-1, 1, 0.2}}
		t := steps[r.Intn(len(steps))]
		huge := []gen.Expr{nl(10000000000000000000), call("pow", tNum, nl(10), nl(300)), nl(9007199254740993), nl(4611686018427387904)}[r.Intn(4)]
		hugeStep := []gen.Expr{nl(1), call("pow", tNum, nl(10), nl(280)), nl(0.5), nl(1000000)}[r.Intn(4)]
		brk := float64(2 + r.Intn(3))
		prog := &gen.Program{Stmts: []gen.Stmt{
			gen.Decl{Name: "cnt", T: tNum, Init: nl(0)},
			gen.For{Var: "i", VarT: tNum, Args: []gen.Expr{nl(t[0]), nl(t[1]), nl(t[2])}, Body: []gen.Stmt{printCall(vr("i", tNum)), gen.Assign{Target: vr("cnt", tNum), Val: gen.Binary{Op: "+", L: vr("cnt", tNum), R: nl(1), T: tNum}}}},
			printCall(sl("count"), vr("cnt", tNum)),
			gen.Assign{Target: vr("cnt", tNum), Val: nl(0)},
			gen.For{Var: "j", VarT: tNum, Args: []gen.Expr{nl(0), huge, hugeStep}, Body: []gen.Stmt{
				gen.Assign{Target: vr("cnt", tNum), Val: gen.Binary{Op: "+", L: vr("cnt", tNum), R: nl(1), T: tNum}},
				gen.If{Conds: []gen.Expr{gen.Binary{Op: ">=", L: vr("cnt", tNum), R: nl(brk), T: tBool}}, Blocks: [][]gen.Stmt{{gen.Break{}}}},
				printCall(sl("huge"), gen.Binary{Op: ">=", L: vr("j", tNum), R: nl(0), T: tBool}),
			}},
			printCall(sl("count"), vr("cnt", tNum)),
			gen.Assign{Target: vr("cnt", tNum), Val: nl(0)},
			gen.For{Args: []gen.Expr{huge}, Body: []gen.Stmt{
				gen.Assign{Target: vr("cnt", tNum), Val: gen.Binary{Op: "+", L: vr("cnt", tNum), R: nl(1), T: tNum}},
				gen.If{Conds: []gen.Expr{gen.Binary{Op: ">=", L: vr("cnt", tNum), R: nl(brk), T: tBool}}, Blocks: [][]gen.Stmt{{gen.Break{}}}},
			}},
			printCall(sl("count"), vr("cnt", tNum)),
		}}
		runGenProgram(c, prog, nil, true, false)
		return
	case 3:
		c.Cover("family", "shadowing-in-every-block-kind")
		runGenProgram(c, shadowProgram(c.Rng), nil, true, false)
		return
	case 7:
		c.Cover("family", "recursion-inside-loops-and-break")
		runGenProgram(c, loopStateProgram(c.Rng), nil, true, false)
		return
	case 9: // small global-reading functions called where a local of the same name is in scope
		runTextFamily(c, "dynamic-scope", dynamicScopeSource(c.Rng), nil)
		return
	case 11: // blocks whose only declarations are typed ones that shadow an outer variable
		runTextFamily(c, "typed-shadow-blocks", typedShadowBlockSource(c.Rng), nil)
		return
	}
	prog := cfProgram(c, 2+c.Rng.Intn(3))
	runGenProgram(c, prog, nil, true, i < grid+2)
}

var _ = rand.Int
