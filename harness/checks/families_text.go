package checks

import (
	"fmt"
	"math/rand"
	"strings"

	"evylang.dev/evy/pkg/parser"

	"verif/conv"
	"verif/core"
	"verif/gen"
	"verif/plat"
)

// Program families written as source text. The text is parsed once to obtain the tree the
// reference interpreter runs and the printer re-lays-out; a template that does not parse is a
// defect of the harness (or of the parser) and is reported, never skipped.

func textProgram(c *core.Ctx, family, src string) (*gen.Program, bool) {
	prog, err := parser.Parse(src, plat.Builtins())
	if err != nil {
		c.Violation("harness-program-rejected:"+family, "a program of the "+family+" family is rejected: "+firstN(err.Error(), 300), src, nil)
		return nil, false
	}
	p, err := conv.Program(prog)
	if err != nil {
		c.Violation("harness-program-rejected:"+family, "a program of the "+family+" family cannot be converted: "+err.Error(), src, nil)
		return nil, false
	}
	return p, true
}

// runTextFamily runs a text program under the reference-vs-evaluator monitor of runGenProgram.
func runTextFamily(c *core.Ctx, family, src string, inputs []string) {
	c.Cover("family", family)
	if p, ok := textProgram(c, family, src); ok {
		runGenProgram(c, p, inputs, true, false)
	}
}

func pick[T any](r *rand.Rand, xs ...T) T { return xs[r.Intn(len(xs))] }

// unaryOnCallSource: unary - and ! applied to (parenthesised) calls, index expressions and
// groups whose value lives in a global, an array element or a map entry; every such operand is
// read again afterwards, so an operator that negates the stored value in place shows.
func unaryOnCallSource(r *rand.Rand) string {
	a0, a1 := 1+r.Intn(9), 2+r.Intn(9)
	mv := 1 + r.Intn(9)
	g := 1 + r.Intn(9)
	var b strings.Builder
	fmt.Fprintf(&b, "arr := [%d %d]\nm := {a:%d b:%d}\ng := %d\nflag := %v\nbs := [true false]\nbm := {t:true f:false}\n", a0, a1, mv, mv+1, g, r.Intn(2) == 0)
	b.WriteString("func elem:num i:num\n    return arr[i]\nend\n")
	b.WriteString("func entry:num k:string\n    return m[k]\nend\n")
	b.WriteString("func glob:num\n    return g\nend\n")
	b.WriteString("func ready:bool\n    return flag\nend\n")
	b.WriteString("func belem:bool i:num\n    return bs[i]\nend\n")
	b.WriteString("func bentry:bool k:string\n    return bm[k]\nend\n")
	b.WriteString("func ident:num n:num\n    return n\nend\n")
	lines := []string{
		"print -(elem 0) -(elem 0) arr",
		"print -(elem 1) (elem 1) -(elem 1) arr",
		"print -(entry \"a\") -(entry \"a\") m",
		"print -(entry \"b\") m.b m",
		"print -(glob) g -(glob) (glob)",
		"print !(ready) !(ready) flag (ready)",
		"print !(belem 0) !(belem 0) bs",
		"print !(belem 1) bs (belem 1)",
		"print !(bentry \"t\") !(bentry \"f\") bm",
		"print -(ident g) g -(ident arr[0]) arr",
		"print -arr[0] -arr[0] arr -m.a m",
		"print -(arr[1]) -(m[\"b\"]) -(g) arr m g",
		"print !bs[0] !(bs[1]) !(flag) bs flag",
		"x := -(elem 0) + (elem 0)\nprint x arr",
		"y := -(glob) * -(glob)\nprint y g",
		"if !(ready) or !(ready)\n    print \"n\" flag\nelse\n    print \"y\" flag\nend",
		"while -(glob) > 0\n    print \"never\"\nend\nprint g",
		"z := [-(elem 0) -(elem 0) -(entry \"a\")]\nprint z arr m",
		"print --(elem 0) !!(ready) arr flag",
		"arr[0] = -(elem 0)\nprint arr (elem 0)",
		"g = -(glob)\nprint g (glob) -(glob)",
	}
	r.Shuffle(len(lines), func(i, j int) { lines[i], lines[j] = lines[j], lines[i] })
	for _, l := range lines[:8+r.Intn(len(lines)-8)] {
		b.WriteString(l + "\n")
	}
	b.WriteString("print arr m g flag bs bm\n")
	return b.String()
}

// variadicSequenceSource: calls of the variadic and graphics built-ins with a different number of
// arguments from call to call (a buffer sized by the first call must not serve the later ones).
func variadicSequenceSource(r *rand.Rand) string {
	var b strings.Builder
	pt := func() string { return fmt.Sprintf("[%d %d]", r.Intn(100), r.Intn(100)) }
	n := 4 + r.Intn(6)
	for k := 0; k < n; k++ {
		switch r.Intn(5) {
		case 0, 1, 2:
			cnt := pick(r, 0, 1, 2, 3, 3, 4, 5, 7, 12)
			if k == 0 {
				cnt = pick(r, 0, 1, 2, 3)
			}
			b.WriteString("poly")
			for j := 0; j < cnt; j++ {
				b.WriteString(" " + pt())
			}
			b.WriteString("\n")
		case 3:
			cnt := r.Intn(6)
			b.WriteString("print")
			for j := 0; j < cnt; j++ {
				fmt.Fprintf(&b, " %d", j)
			}
			b.WriteString("\n")
		default:
			cnt := 1 + r.Intn(5)
			b.WriteString("dash")
			for j := 0; j < cnt; j++ {
				fmt.Fprintf(&b, " %d", 1+j)
			}
			b.WriteString("\n")
		}
	}
	b.WriteString("pts := [[1 2] [3 4]]\npoly pts[0] pts[1] pts[0] pts[1] pts[0] pts[1] pts[0] pts[1]\nprint pts\n")
	return b.String()
}

// concatAliasSource: concatenation with aliases alive - `a = a + x` rebinds a and leaves every other
// holder of the old array untouched; an empty left operand is not the result.
func concatAliasSource(r *rand.Rand) string {
	var b strings.Builder
	v := func() int { return 1 + r.Intn(90) }
	b.WriteString("g := [0]\nfunc grow n:num\n    g = g + [n]\nend\nfunc grown:[]num a:[]num n:num\n    a = a + [n]\n    return a\nend\n")
	blocks := []string{
		fmt.Sprintf("a := [%d %d]\nb := a\na = a + [%d]\nprint a b\na = a + [%d] + [%d]\nprint a b (len b)\n", v(), v(), v(), v(), v()),
		fmt.Sprintf("e:[]num\nc := e + [%d]\nd := e + [%d]\nprint e c d (len e)\ne2 := e + e\nprint e2 e\n", v(), v()),
		fmt.Sprintf("w:any\nsrc := [%d]\nw = src\nsrc = src + [%d]\nprint src w\n", v(), v()),
		fmt.Sprintf("inner := [%d]\nmm := {k:inner}\nouter := [mm]\ninner = inner + [%d]\nprint inner mm outer\nmm.k = mm.k + [%d]\nprint inner mm outer\n", v(), v(), v()),
		"for x := range g\n    if x < 3\n        grow x+1\n    end\n    print \"x\" x g\nend\nprint g\n",
		fmt.Sprintf("p := [%d]\nq := grown p %d\nprint p q\nq = grown q %d\nprint p q\n", v(), v(), v()),
		"em:[]string\nf := em + [\"a\"]\nh := em\nh = h + [\"b\"]\nprint em f h\nem = em + []\nprint em (len em)\n",
		fmt.Sprintf("nest := [[%d] []]\nn0 := nest[0]\nn1 := nest[1]\nnest[0] = nest[0] + [%d]\nn1x := nest[1] + [%d]\nprint nest n0 n1 n1x\n", v(), v(), v()),
		fmt.Sprintf("s := [%d %d %d]\nt := s\ns = s + s\nprint s t\nt = [] + t\nt[0] = %d\nprint s t\n", v(), v(), v(), v()),
		fmt.Sprintf("me:{}[]num\nme.e = []\nl1 := me.e + [%d]\nl2 := me.e + [%d]\nprint me l1 l2\n", v(), v()),
		// an empty operand on either side: the result is still a fresh array, stores through it
		// (or through the other operand afterwards) stay on their side
		fmt.Sprintf("acc:[]num\nsrc2 := [%d %d]\nacc = acc + src2\nacc[0] = %d\nprint acc src2\nsrc2[1] = %d\nprint acc src2\n", v(), v(), v(), v()),
		fmt.Sprintf("rows := [[%d %d]]\nflat:[]num\nfor row := range rows\n    flat = flat + row\nend\nflat[1] = %d\nprint rows flat\n", v(), v(), v()),
		fmt.Sprintf("lft := [%d]\nnone:[]num\nres := lft + none\nres[0] = %d\nprint lft res none\nres2 := [] + lft\nlft[0] = %d\nprint lft res2\n", v(), v(), v()),
		fmt.Sprintf("es:[]string\nwords := [\"a\" \"b\"]\nj1 := es + words\nj2 := es + words\nj1[0] = \"z%d\"\nprint words j1 j2 es\n", v()),
	}
	r.Shuffle(len(blocks), func(i, j int) { blocks[i], blocks[j] = blocks[j], blocks[i] })
	for _, bl := range blocks[:5+r.Intn(len(blocks)-4)] {
		b.WriteString(bl)
	}
	b.WriteString("print g\n")
	return b.String()
}

// sliceSharingSource: a slice is a fresh array (stores of whole elements stay on their side) whose
// composite elements are the source's own (stores through them show on both sides), for every
// bound spelling, for arrays of arrays, of maps and of any.
func sliceSharingSource(r *rand.Rand) string {
	var b strings.Builder
	v := func() int { return 1 + r.Intn(90) }
	bounds := []string{"[:]", "[:2]", "[1:]", "[0:2]", "[-2:]", "[:-1]", "[1:3]", "[-3:-1]"}
	r.Shuffle(len(bounds), func(i, j int) { bounds[i], bounds[j] = bounds[j], bounds[i] })
	for k, bd := range bounds[:4+r.Intn(5)] {
		fmt.Fprintf(&b, "rows%d := [[%d %d] [%d] [%d %d %d]]\ntop%d := rows%d%s\ntop%d[0][0] = %d\nprint rows%d top%d\ntop%d[0] = [%d]\nprint rows%d top%d\nrows%d[1] = rows%d[1] + [%d]\nrows%d[2][0] = %d\nprint rows%d top%d\n",
			k, v(), v(), v(), v(), v(), v(), k, k, bd, k, 100+v(), k, k, k, 200+v(), k, k, k, k, v(), k, 300+v(), k, k)
		fmt.Fprintf(&b, "ppl%d := [{name:\"a\" n:%d} {name:\"b\" n:%d} {name:\"c\" n:%d}]\nrest%d := ppl%d%s\nrest%d[0].name = \"z%d\"\nrest%d[-1].extra = %d\nprint ppl%d rest%d\n",
			k, v(), v(), v(), k, k, bd, k, v(), k, v(), k, k)
		fmt.Fprintf(&b, "box%d:[]any\nbox%d = [[%d] {k:%d} %d]\ncut%d := box%d%s\nfor e := range cut%d\n    if (typeof e) == \"[]num\"\n        arr := e.([]num)\n        arr[0] = %d\n    else if (typeof e) == \"{}num\"\n        mm := e.({}num)\n        mm.k = %d\n    end\nend\nprint box%d cut%d\n",
			k, k, v(), v(), v(), k, k, bd, k, 400+v(), 500+v(), k, k)
	}
	b.WriteString("deep := [[[1] [2]] [[3]]]\nd1 := deep[:1]\nd2 := d1[0][1:]\nd2[0][0] = 9\nprint deep d1 d2\n")
	return b.String()
}

// dynamicScopeSource: small functions (no parameters, a single return) that read globals, called
// from places where a local, a parameter or a loop variable of the same name is in scope.
func dynamicScopeSource(r *rand.Rand) string {
	gv, gs := 1+r.Intn(9), pick(r, "glob", "G", "é")
	var b strings.Builder
	fmt.Fprintf(&b, "v := %d\ns := %q\narr := [%d %d]\n", gv, gs, gv+1, gv+2)
	b.WriteString("func getv:num\n    return v\nend\n")
	b.WriteString("func gets:string\n    return s + \"!\"\nend\n")
	b.WriteString("func sum:num\n    return v + arr[0] + (len s)\nend\n")
	b.WriteString("func viaParam:num v:num\n    return (getv) * 100 + v\nend\n")
	b.WriteString("func viaLocal:string\n    s := \"local\"\n    arr := [\"x\"]\n    return (gets) + s + arr[0] + (sprint (sum))\nend\n")
	b.WriteString("func viaLoop\n    for v := range 2\n        print \"loop\" v (getv) (sum)\n    end\n    for s := range [\"p\" \"q\"]\n        print s (gets)\n    end\nend\n")
	b.WriteString("func rec:num v:num\n    if v <= 0\n        return (getv)\n    end\n    return (rec v-1) + (getv)\nend\n")
	b.WriteString("func setv n:num\n    v = n\nend\n")
	calls := []string{
		fmt.Sprintf("print (viaParam %d) v", 20+r.Intn(70)),
		"print (viaLocal) s",
		"viaLoop",
		fmt.Sprintf("print (rec %d)", 1+r.Intn(4)),
		fmt.Sprintf("setv %d\nprint (getv) (viaParam 7) (sum)", 10+r.Intn(9)),
		"if true\n    w := (getv)\n    print w (sum)\nend",
	}
	r.Shuffle(len(calls), func(i, j int) { calls[i], calls[j] = calls[j], calls[i] })
	for _, cl := range calls {
		b.WriteString(cl + "\n")
	}
	return b.String()
}

// typedShadowBlockSource: blocks of if / else if / else / while / for that shadow an enclosing variable
// with a typed declaration only (no := in the block), the outer variable read afterwards.
func typedShadowBlockSource(r *rand.Rand) string {
	var b strings.Builder
	n := 1 + r.Intn(9)
	fmt.Fprintf(&b, "x := %d\nt := \"outer\"\nfunc f:num x:num\n    if x > 0\n        x:num\n        x = 99\n        print \"inner\" x\n    end\n    return x\nend\n", n)
	b.WriteString("if x > 0\n    x:num\n    x = 50\n    t:string\n    t = \"in-if\"\n    print x t\nend\nprint x t\n")
	b.WriteString("if x < 0\n    print \"neg\"\nelse if x > 0\n    x:string\n    x = \"s\"\n    print x\nelse\n    x:bool\n    print x\nend\nprint x\n")
	b.WriteString("k := 0\nwhile k < 2\n    x:num\n    x = x + 7 + k\n    t:[]num\n    t = t + [k]\n    print x t\n    k = k + 1\nend\nprint x t k\n")
	b.WriteString("for i := range 2\n    x:num\n    x = x + i + 1\n    print x\nend\nprint x\n")
	fmt.Fprintf(&b, "print (f %d) (f 0) x\n", 1+r.Intn(5))
	return b.String()
}

// bulkMapSource: a map grown to many keys and shrunk again by del in different orders, observed
// by print, range, len and has along the way; then refilled.
func bulkMapSource(r *rand.Rand) string {
	n := pick(r, 40, 70, 100, 130, 200)
	keep := pick(r, 1, 3, 10, 31, 33)
	order := pick(r, "front", "back", "mid")
	var b strings.Builder
	fmt.Fprintf(&b, "m:{}num\nfor i := range %d\n    m[sprintf \"k%%v\" i] = i\nend\nprint (len m)\n", n)
	b.WriteString("func show\n    ks := \"\"\n    cnt := 0\n    for k := range m\n        ks = ks + k + \",\"\n        cnt = cnt + 1\n    end\n    print (len m) cnt ks\nend\n")
	switch order {
	case "front":
		fmt.Fprintf(&b, "for i := range %d\n    del m (sprintf \"k%%v\" i)\n    if i %% 16 == 0\n        show\n    end\nend\n", n-keep)
	case "back":
		fmt.Fprintf(&b, "for i := range %d %d -1\n    del m (sprintf \"k%%v\" i)\n    if i %% 16 == 0\n        show\n    end\nend\n", n-1, keep-1)
	default:
		fmt.Fprintf(&b, "for i := range %d %d\n    del m (sprintf \"k%%v\" i)\nend\nshow\nfor i := range 0 %d\n    del m (sprintf \"k%%v\" i)\n    if i %% 8 == 0\n        show\n    end\nend\n", keep, n, keep-1)
	}
	b.WriteString("show\nprint m\n")
	b.WriteString("del m \"k0\"\ndel m \"nope\"\nm.again = 1\nm.k0 = 2\nshow\nprint m (has m \"k0\") (has m \"again\")\n")
	b.WriteString("for k := range m\n    del m k\nend\nshow\nm.z = 1\nshow\n")
	return b.String()
}

// repeatedMapSource: arrays of maps built with the repetition operator are independent copies, also of
// their key order: deleting from / inserting into one leaves the others alone.
func repeatedMapSource(r *rand.Rand) string {
	var b strings.Builder
	nk := 2 + r.Intn(4)
	b.WriteString("m := {")
	for k := 0; k < nk; k++ {
		fmt.Fprintf(&b, "%s:%d ", []string{"a", "b", "c", "d", "e"}[k], k)
	}
	b.WriteString("}\n")
	n := 2 + r.Intn(3)
	fmt.Fprintf(&b, "arr := [m] * %d\n", n)
	victim := pick(r, "m", "arr[0]", fmt.Sprintf("arr[%d]", n-1))
	key := []string{"a", "b", "c", "d", "e"}[r.Intn(nk-1)]
	fmt.Fprintf(&b, "del %s %q\nprint m arr\n", victim, key)
	fmt.Fprintf(&b, "%s.z = 9\nprint m arr\n", victim)
	b.WriteString("for k := range arr[1]\n    print k arr[1][k] (has m k) (has arr[0] k)\nend\n")
	b.WriteString("for mm := range arr\n    ks := \"\"\n    for k := range mm\n        ks = ks + k\n    end\n    print ks (len mm)\nend\n")
	b.WriteString("nested := [{inn:m}] * 2\ndel m \"a\"\nm.q = 1\nprint nested m\ndel nested[0].inn \"b\"\nprint nested\n")
	return b.String()
}

// selfEqualitySource: == and != between a composite and itself / an alias / a composite sharing an inner
// one, with NaN, -0 and nested values inside: equality is by value (NaN differs from NaN), never by identity.
func selfEqualitySource(r *rand.Rand) string {
	var b strings.Builder
	b.WriteString("zero := 0\nnan := 0 / zero\nnegz := -0 * 1\n")
	b.WriteString("a := [nan 1]\nb := a\nm := {k:nan}\nn := m\ninner := [nan]\no1 := [inner [1]]\no2 := [inner [1]]\nw:any\nw = a\nplain := [1 2]\nq := plain\nz1 := [negz]\nz2 := [0]\n")
	lines := []string{
		"print (a == a) (a != a) (a == b) (b != a)",
		"print (m == m) (m != n) (n == m)",
		"print (o1 == o2) (o1 != o2) (o1[0] == inner) (o1[1] == o2[1])",
		"print (w == w) (plain == q) (plain != q) (plain == plain)",
		"print (z1 == z2) (z1 != z2) (nan == nan) (nan != nan)",
		"print ([a] == [a]) ({x:a} == {x:a}) ([m] != [n])",
		"print (a[0] == a[0]) (a[1] == b[1]) (m.k == n.k)",
		"if a == b\n    print \"same\"\nelse\n    print \"differ\"\nend",
		"c := a + []\nprint (c == a) (c[1:] == a[1:]) (c[:1] == a[:1])",
		"func same:bool x:[]num y:[]num\n    return x == y\nend\nprint (same a a) (same plain plain) (same a b)",
	}
	r.Shuffle(len(lines), func(i, j int) { lines[i], lines[j] = lines[j], lines[i] })
	for _, l := range lines {
		b.WriteString(l + "\n")
	}
	return b.String() + "print a m o1 w z1\n"
}

// nestedStringStoreSources: assignment targets that index into a string reached through an array element or
// a map field. The parser rejects them like `s[0] = "x"`; whatever it accepts must run soundly.
var nestedStringStoreSources = []string{
	"names := [\"ab\" \"cd\"]\nnames[0][1] = \"x\"\nprint names\n",
	"person := {name:\"greta\"}\nperson.name[0] = \"G\"\nprint person\n",
	"board := [{rows:[\"ab\"]}]\nboard[0].rows[0][0] = \"x\"\nprint board\n",
	"m := {a:[\"xy\"]}\nm[\"a\"][0][1] = \"z\"\nprint m\n",
	"func f\n    l := [\"ab\"]\n    l[0][0] = \"q\"\n    print l\nend\nf\n",
	"s := \"ab\"\ns[0] = \"x\"\nprint s\n",
	"arr := [[\"ab\"]]\nfor i := range 1\n    arr[i][0][1] = \"c\"\nend\nprint arr\n",
}
