package checks

import (
	"fmt"
	"math/rand"
	"os"
	"path/filepath"
	"regexp"
	"strings"

	"evylang.dev/evy/pkg/evaluator"

	"verif/core"
	"verif/gen"
	"verif/mon"
	"verif/mut"
	"verif/plat"
)

// C02 — accepted programs never go wrong (type soundness).

func init() {
	core.Register(&core.Check{
		ID:    "C02",
		Level: "exploration",
		Rule: "three streams of accepted programs executed under the recording platform with the dynamic type-conformance monitor on the verif evaluation hook: (1) generated programs with hostile values (NaN, infinities, -0, huge, fractional, negative numbers; empty and non-ASCII strings; nested composites; values through any; wrong assertions; unsafe indices; every non-graphics built-in), (2) accepted 1-3 token mutants of corpus and generated programs, (3) the corpus, (4) targeted families: == / != between any values of different dynamic types (directly and nested in []any / {}any) and typed functions ending in if/else-if/else chains with returns removed from random branches (whatever the parser accepts is run), valid programs with one rule-breaking edit from the C05 catalogue (run if the parser accepts them); with scripted input and synthetic events for handlers; (5) program families written as text (unary operators on stored values, variadic built-ins with changing argument counts, concatenation with aliases alive, small global-reading functions under shadowing locals, typed-only shadowing blocks, maps grown to hundreds of keys and shrunk, maps copied by repetition, self-equality with NaN, stores into characters of nested strings) and `read` through the real `evy run` on hostile standard input (host must not crash, complete lines are returned unchanged). " +
			"distinct = distinct accepted program texts that executed at least one evaluation step",
		Assumptions: []string{
			"allowed ends: normal completion, Evy panic (errors.Is ErrPanic), exit, failed tests, external stop (only the harness's yield budget raises it)",
			"composite conformance is checked to depth 4 and 32 elements per step",
			"open findings D13 (unbounded recursion overflows the Go stack) and D14 (unbounded array repetition) are probed separately; generated programs bound recursion fuel and repetition counts",
		},
		RlimitMB: 6144,
		NeedsEvy: true,
		NumCases: func(tier string) int {
			if tier == "thorough" {
				return 60000
			}
			return 2400
		},
		Setup: func(c *core.Ctx) error {
			p, err := newPool(c.Repo)
			c.State = p
			return err
		},
		Run:       c02Run,
		Probe:     c02Probe,
		MinEvents: []string{"programs_run", "eval_steps_observed", "values_checked"},
	})
}

var digitsRe = regexp.MustCompile(`\d+`)

func msgClass(s string) string {
	s = digitsRe.ReplaceAllString(s, "#")
	if len(s) > 60 {
		s = s[:60]
	}
	return s
}

var c02Events = []evaluator.Event{
	{Name: "key", Params: []any{"a"}}, {Name: "down", Params: []any{10.0, 20.0}}, {Name: "move", Params: []any{11.5, -3.0}},
	{Name: "up", Params: []any{11.5, 1e300}}, {Name: "animate", Params: []any{16.0}}, {Name: "input", Params: []any{"id", "val"}},
	{Name: "key", Params: []any{"é🌍"}}, {Name: "animate", Params: []any{33.0}}, {Name: "key", Params: []any{""}},
}

// soundRun executes src with the conformance monitor and judges the outcome (clauses a-d).
func soundRun(c *core.Ctx, src, origin string) *plat.Outcome {
	conf := mon.NewConformance()
	c.Journal(src)
	o := plat.Run(src, plat.Opts{
		Inputs: []string{"3", "abc", "", "7", "y", "1 2", "q", "-1", "0.5"}, RandSeed: 11, YieldBudget: 60000, MaxEvents: 20000,
		Events: c02Events,
		Attach: func(ev *evaluator.Evaluator) { conf.Attach(ev) },
	})
	if o.Class == "parse-error" {
		return o
	}
	c.Event("programs_run", 1)
	c.Event("eval_steps_observed", int(conf.Steps))
	c.Event("values_checked", int(conf.Checked))
	c.Event("maps_checked", int(conf.MapsSeen))
	c.Event("any_values_checked", int(conf.AnysSeen))
	c.Cover("outcome", strings.SplitN(o.Class, ":", 2)[0])
	if strings.HasPrefix(o.Class, "panic:") {
		c.Cover("panic-kind", strings.TrimPrefix(o.Class, "panic:"))
	}
	for k, n := range conf.Kinds {
		for i := int64(0); i < n && i < 1; i++ {
			c.Cover("node-kind", k)
		}
	}
	if conf.Steps > 0 {
		c.Distinct(src)
	}
	switch {
	case o.Class == "gopanic":
		c.Violation("gopanic@"+o.Site+":"+msgClass(o.GoPanic), "Go panic escaped the evaluator ("+origin+"): "+firstN(o.GoPanic, 300), src, nil)
	case o.Class == "internal" || o.Class == "other-error":
		c.Violation(o.Class+":"+msgClass(stripPos(o.ErrText)), "evaluation ended with a non-Evy error ("+origin+"): "+firstN(o.ErrText, 300), src, nil)
	case o.Class == "stopped" && !o.Rec.BudgetHit:
		c.Violation("stopped-without-stop", "evaluation returned ErrStopped although nobody raised the stop flag", src, nil)
	}
	for _, v := range conf.Violations {
		c.Violation("conformance:"+msgClass(v[strings.Index(v, ": ")+2:]), "dynamic type conformance ("+origin+"): "+v, src, nil)
		break
	}
	return o
}

// hostile program generator -------------------------------------------------------------------

func hostilePrelude(r *rand.Rand) *progBuilder {
	b := c01Prelude(r)
	g := b.g
	g.Unsafe = 0.25
	add := func(name string, init gen.Expr) {
		b.stmts = append(b.stmts, gen.Decl{Name: name, T: tNum, Init: init})
		g.Vars = append(g.Vars, gen.VarInfo{Name: name, T: tNum, Len: -1})
	}
	add("zero", nl(0))
	add("nan", gen.Binary{Op: "/", L: nl(0), R: vr("zero", tNum), T: tNum})
	add("inf", gen.Binary{Op: "/", L: nl(1), R: vr("zero", tNum), T: tNum})
	add("ninf", gen.Binary{Op: "/", L: nl(-1), R: vr("zero", tNum), T: tNum})
	add("negz", gen.Binary{Op: "*", L: vr("zero", tNum), R: nl(-1), T: tNum})
	add("big", nl(9007199254740993))
	add("frac", nl(-0.75))
	n, s, bo, an, as := tNum, tStr, tBool, tArrN, tArrS
	fn := func(name string, ret *gen.Type, params ...*gen.Type) {
		g.Funcs = append(g.Funcs, gen.FuncInfo{Name: name, Params: params, Ret: ret})
	}
	for _, f := range []string{"abs", "floor", "ceil", "round", "log", "sqrt", "sin", "cos"} {
		fn(f, n, n)
	}
	for _, f := range []string{"min", "max", "pow", "atan2"} {
		fn(f, n, n, n)
	}
	fn("str2num", n, s)
	fn("index", n, s, s)
	fn("rand", n, n)
	fn("len", n, tAny)
	fn("upper", s, s)
	fn("lower", s, s)
	fn("trim", s, s, s)
	fn("replace", s, s, s, s)
	fn("join", s, as, s)
	fn("sprint", s, tAny, tAny)
	fn("sprintf", s, tAny, tAny, tAny)
	fn("repr", s, tAny)
	fn("typeof", s, tAny)
	fn("str2bool", bo, s)
	fn("startswith", bo, s, s)
	fn("endswith", bo, s, s)
	fn("split", as, s, s)
	_ = an
	return b
}

func hostileProgram(r *rand.Rand) *gen.Program {
	b := hostilePrelude(r)
	g := b.g
	n := 4 + r.Intn(10)
	for k := 0; k < n; k++ {
		switch r.Intn(10) {
		case 0: // index / slice with an arbitrary number
			base := []gen.VarInfo{{Name: "an", T: tArrN}, {Name: "s2", T: tStr}, {Name: "nn", T: tArrAN}, {Name: "as", T: tArrS}}[r.Intn(4)]
			idx := g.Expr(tNum, 2)
			if r.Intn(2) == 0 {
				// the edges of the valid range, computed from the length: -(n+1), -n, -1, n-1, n, n+1
				ln := call("len", tNum, toAny(vr(base.Name, base.T)))
				idx = []gen.Expr{
					gen.Binary{Op: "-", L: gen.Unary{Op: "-", X: ln}, R: nl(1), T: tNum}, gen.Unary{Op: "-", X: ln}, nl(-1),
					gen.Binary{Op: "-", L: ln, R: nl(1), T: tNum}, ln, gen.Binary{Op: "+", L: ln, R: nl(1), T: tNum}, nl(0),
				}[r.Intn(7)]
			}
			rt := base.T.Sub
			if base.T.K == gen.Str {
				rt = tStr
			}
			if r.Intn(2) == 0 {
				b.stmts = append(b.stmts, printCall(gen.Index{X: vr(base.Name, base.T), I: idx, T: rt}))
			} else {
				b.stmts = append(b.stmts, printCall(gen.Slice{X: vr(base.Name, base.T), Lo: idx, Hi: g.Expr(tNum, 1)}))
			}
		case 1: // store through an arbitrary index
			b.stmts = append(b.stmts, gen.Assign{Target: gen.Index{X: vr("an", tArrN), I: g.Expr(tNum, 2), T: tNum}, Val: g.Expr(tNum, 2)})
		case 2: // repetition with a hostile (but small) count
			cnt := []gen.Expr{vr("nan", tNum), vr("ninf", tNum), vr("negz", tNum), nl(-1), nl(0.5), nl(3), vr("frac", tNum), vr("zero", tNum)}[r.Intn(8)]
			b.stmts = append(b.stmts, printCall(gen.Binary{Op: "*", L: vr("nn", tArrAN), R: cnt, T: tArrAN}))
		case 3: // range with hostile bounds (bounded number of iterations)
			args := [][]gen.Expr{{vr("nan", tNum)}, {nl(0), nl(3), vr("zero", tNum)}, {nl(3), nl(0), nl(-0.5)}, {vr("ninf", tNum), nl(1), vr("inf", tNum)}, {nl(0), nl(2), vr("nan", tNum)}, {vr("frac", tNum), nl(2)}}[r.Intn(6)]
			iv := b.fresh("i")
			b.stmts = append(b.stmts, gen.For{Var: iv, VarT: tNum, Args: args, Body: []gen.Stmt{printCall(vr(iv, tNum)), gen.If{Conds: []gen.Expr{gen.Binary{Op: ">", L: vr(iv, tNum), R: nl(5), T: tBool}}, Blocks: [][]gen.Stmt{{gen.Break{}}}}}})
		case 4: // type assertion, possibly wrong
			av := []string{"x1", "x2", "x3"}[r.Intn(3)]
			t := []*gen.Type{tNum, tStr, tBool, tArrN, tMapN}[r.Intn(5)]
			name := b.fresh("u")
			b.stmts = append(b.stmts, gen.Decl{Name: name, T: t, Init: gen.Assert{X: vr(av, tAny), T: t}}, printCall(vr(name, t)))
		case 5: // any holding composites, re-assigned
			av := []string{"x1", "x2", "x3"}[r.Intn(3)]
			t := []*gen.Type{tNum, tStr, tArrN, tMapN, tArrAN}[r.Intn(5)]
			b.stmts = append(b.stmts, gen.Assign{Target: vr(av, tAny), Val: toAny(g.Expr(t, 2))}, printCall(call("typeof", tStr, vr(av, tAny)), vr(av, tAny)))
			for i := range g.Vars {
				if g.Vars[i].Name == av {
					g.Vars[i].Holds = t
				}
			}
		case 6: // sprintf with hostile formats
			format := []string{"%v", "%s", "%q", "%5.2f", "%d", "%", "%%%v", "%-8v|", "%t", "%e", "%08.3f", "%x", "%c", "%v %v %v", "%*v", "%[2]v"}[r.Intn(16)]
			b.stmts = append(b.stmts, printCall(call("sprintf", tStr, toAny(sl(format)), toAny(g.Expr(g.RandType(1), 2)))))
		case 7: // exit / panic / test under a condition
			cond := g.Expr(tBool, 2)
			var st gen.Stmt
			switch r.Intn(4) {
			case 0:
				st = gen.CallStmt{C: call("exit", gen.TNone, g.Expr(tNum, 1))}
			case 1:
				st = gen.CallStmt{C: call("panic", gen.TNone, g.Expr(tStr, 1))}
			case 2:
				st = gen.CallStmt{C: call("test", gen.TNone, toAny(g.Expr(tNum, 1)), toAny(g.Expr(tNum, 1)))}
			case 3:
				st = gen.CallStmt{C: call("test", gen.TNone, toAny(g.Expr(tBool, 1)))}
			}
			b.stmts = append(b.stmts, gen.If{Conds: []gen.Expr{cond}, Blocks: [][]gen.Stmt{{st}}})
		default:
			b.addExprStmt(2 + r.Intn(3))
		}
	}
	var all []gen.Expr
	for _, v := range g.Vars {
		all = append(all, vr(v.Name, v.T))
	}
	b.stmts = append(b.stmts, printCall(all...))
	return &gen.Program{Stmts: b.stmts}
}

func c02Run(c *core.Ctx, i int) {
	p := c.State.(*srcPool)
	r := c.Rng
	if i%16 == 7 { // stream 5: text families shared with the semantic checks, and read through the real CLI
		k := (i / 16) % 8
		fams := []struct {
			name string
			src  func(*rand.Rand) string
		}{{"unary-on-stored-values", unaryOnCallSource}, {"variadic-sequences", variadicSequenceSource}, {"concat-aliases", concatAliasSource},
			{"dynamic-scope", dynamicScopeSource}, {"typed-shadow-blocks", typedShadowBlockSource}, {"bulk-map", bulkMapSource}, {"repeated-maps", repeatedMapSource}}
		if k == 7 {
			c.Cover("stream", "cli-read")
			c02CLIRead(c)
			// and: stores into a character of a string reached through elements / fields (rejected, or sound)
			src := nestedStringStoreSources[r.Intn(len(nestedStringStoreSources))]
			c.Cover("stream", "nested-string-store")
			soundRun(c, src, "nested string element store")
			soundRun(c, selfEqualitySource(r), "self-equality family")
			return
		}
		f := fams[k]
		c.Cover("stream", "family:"+f.name)
		src := f.src(r)
		if o := soundRun(c, src, f.name+" family"); o.Class == "parse-error" {
			c.Violation("harness-program-rejected:"+f.name, "a program of the "+f.name+" family is rejected: "+firstN(o.ErrText, 300), src, nil)
		}
		return
	}
	if i%16 == 15 { // stream 4: targeted families
		switch r.Intn(8) {
		case 6, 7:
			// an empty composite held in an any keeps its own type: asserting another type must panic,
			// and nothing written through an alias may reach the original under a different type
			c.Cover("stream", "assert-empty-composites")
			holders := []string{"n:{}num\na:any\na = n\n", "a:any\na = {}\n", "n:{}string\na:any\na = n\n", "n:[]num\na:any\na = n\n", "a:any\na = []\n", "n:{}[]num\na:any\na = n\n"}
			asserts := []string{"{}any", "{}num", "{}string", "{}[]num", "[]any", "[]num", "[]string", "{}{}num"}
			h := holders[r.Intn(len(holders))]
			t := asserts[r.Intn(len(asserts))]
			write := map[byte]string{'{': "m.x = " + map[string]string{"{}any": "\"s\"", "{}num": "1", "{}string": "\"s\"", "{}[]num": "[1]", "{}{}num": "{k:1}"}[t] + "\n", '[': "print (len m)\n"}[t[0]]
			src := h + "print (typeof a)\nm := a.(" + t + ")\n" + write + "print m (typeof a)\n"
			if strings.HasPrefix(h, "n:{}num") {
				src += "for k := range n\n    print k n[k]+1\nend\n"
			}
			if strings.HasPrefix(h, "n:{}string") {
				src += "for k := range n\n    print k n[k]+\"!\"\nend\n"
			}
			if strings.HasPrefix(h, "a:any\na = {}") {
				src += "o := a.({}any)\nfor k := range o\n    print k (typeof o[k])\nend\n"
			}
			soundRun(c, src, "assertion on an empty composite in any")
			return
		case 4, 5:
			// almost valid programs: a valid base with one rule-breaking edit (the C05 catalogue). The
			// parser should reject them; whatever it accepts must still run soundly
			base := c05Base(c)
			ls := classifyLines(base)
			edits := c05Edits()
			for try := 0; try < 12; try++ {
				e := edits[r.Intn(len(edits))]
				text, ok := e.apply(ls, r.Intn(len(ls)))
				if !ok {
					continue
				}
				c.Event("almost_valid_programs", 1)
				if acceptedQuiet(text) {
					c.Cover("stream", "almost-valid-accepted")
					soundRun(c, text, "valid program with one rule-breaking edit ("+e.kind+")")
				}
			}
			return
		case 2:
			c.Cover("stream", "shadowing")
			soundRun(c, gen.Print(shadowProgram(r), gen.RandomLayout(rand.New(rand.NewSource(r.Int63())))), "shadowing family")
			return
		case 3:
			c.Cover("stream", "loop-state")
			soundRun(c, gen.Print(loopStateProgram(r), nil), "loop state family")
			return
		}
		if r.Intn(2) == 0 {
			c.Cover("stream", "any-equality")
			soundRun(c, gen.Print(anyEqProgram(r), gen.RandomLayout(rand.New(rand.NewSource(r.Int63())))), "any equality family")
			return
		}
		// functions whose branches may lack a return: whatever the parser accepts must run soundly
		n := r.Intn(4)
		drop := map[int]bool{}
		for k := 0; k <= n+1; k++ {
			if r.Intn(3) == 0 {
				drop[k] = true
			}
		}
		src, complete := returnPathsSource(r, n, drop, []string{"num", "string"}[r.Intn(2)])
		c.Cover("stream", "return-paths")
		o := soundRun(c, src, "return paths family")
		if o.Class == "parse-error" {
			c.Event("return_paths_rejected", 1)
			if complete {
				c.Violation("well-typed-program-rejected", "function whose every path returns was rejected: "+firstN(o.ErrText, 200), src, nil)
			}
		}
		return
	}
	switch i % 4 {
	case 0, 1: // stream 1: hostile generated programs under a random layout
		prog := hostileProgram(r)
		lay := gen.RandomLayout(rand.New(rand.NewSource(r.Int63())))
		text := gen.Print(prog, lay)
		c.Cover("stream", "generated-hostile")
		o := soundRun(c, text, "generated")
		if o.Class == "parse-error" {
			c.Violation("well-typed-program-rejected", "generated program rejected: "+firstN(o.ErrText, 300), text, nil)
		}
		if i < 2 {
			c.Sample(map[string]any{"stream": "generated-hostile", "program": firstN(gen.Print(prog, nil), 500), "outcome": o.Class})
		}
		// stream 2b: accepted mutants of the generated program
		toks := mut.Tokenize(gen.Print(prog, nil))
		for k := 0; k < 12; k++ {
			m, _ := mut.Mutate(r, toks, 1+r.Intn(2))
			src := mut.Join(m)
			if acceptedQuiet(src) {
				c.Cover("stream", "mutant-of-generated")
				soundRun(c, src, "mutant of generated program")
			} else {
				c.Event("mutants_rejected", 1)
			}
		}
	case 2: // stream 2: accepted mutants of a corpus program
		fi := (i / 4) % len(p.files)
		for k := 0; k < 25; k++ {
			m, _ := mut.Mutate(r, p.toks[fi], 1+r.Intn(3))
			src := mut.Join(m)
			if src != p.files[fi].Src && acceptedQuiet(src) {
				c.Cover("stream", "mutant-of-corpus")
				soundRun(c, src, "mutant of "+p.files[fi].Path)
			} else {
				c.Event("mutants_rejected", 1)
			}
		}
	case 3: // stream 3: the corpus itself
		fi := (i / 4) % len(p.files)
		c.Cover("stream", "corpus")
		soundRun(c, p.files[fi].Src, p.files[fi].Path)
	}
}

// c02Probe re-executes the recorded input of an open finding in this (child) process.
func c02Probe(c *core.Ctx, f core.Finding) (bool, string) {
	budget := 60000
	if f.Extra != nil {
		if b, ok := f.Extra["yield_budget"].(float64); ok {
			budget = int(b)
		}
	}
	conf := mon.NewConformance()
	o := plat.Run(f.Probe, plat.Opts{YieldBudget: budget, Attach: func(ev *evaluator.Evaluator) { conf.Attach(ev) }})
	switch o.Class {
	case "gopanic":
		return true, "Go panic: " + firstN(o.GoPanic, 200)
	case "internal", "other-error":
		return true, o.ErrText
	}
	if len(conf.Violations) > 0 {
		return true, conf.Violations[0]
	}
	return false, fmt.Sprintf("ended with %s", o.Class)
}

// c02CLIRead runs a program that calls read a fixed number of times through the real `evy run` on hostile
// standard input: empty lines, CRLF, a last line without newline, fewer lines than reads, no input at
// all, a very long line. The host must not crash (no Go trace, exit status 0 or 1), and every read
// served by a complete line must return exactly that line.
func c02CLIRead(c *core.Ctx) {
	r := c.Rng
	reads := 1 + r.Intn(5)
	lineKinds := []string{"word", "", "two words", " padded ", "é🌍", "crlf\r", "\r", "tab\there", "long", "7", "\\n"}
	var lines []string
	nlines := r.Intn(reads + 2)
	for k := 0; k < nlines; k++ {
		l := lineKinds[r.Intn(len(lineKinds))]
		if l == "long" {
			l = strings.Repeat("x", 70000)
		}
		lines = append(lines, l)
	}
	stdin := ""
	for _, l := range lines {
		stdin += l + "\n"
	}
	complete := len(lines)
	if r.Intn(3) == 0 { // last line without its newline
		stdin += "partial"
	}
	src := fmt.Sprintf("n := 0\nwhile n < %d\n    s := read\n    print n (len s) \"[\"+s+\"]\"\n    n = n + 1\nend\nprint \"done\"\n", reads)
	f := filepath.Join(c.Tmp, "cliread.evy")
	if err := os.WriteFile(f, []byte(src), 0o644); err != nil {
		c.Inconclusive("write: " + err.Error())
		return
	}
	c.Journal(src + "\n--- stdin ---\n" + firstN(stdin, 400))
	out, errOut, code, err := evyCmd(c, stdin, "run", f)
	c.Event("cli_read_runs", 1)
	c.Event("programs_run", 1)
	if err != nil {
		c.Inconclusive("evy run: " + err.Error())
		return
	}
	witness := src + "\n--- stdin (" + fmt.Sprint(len(lines)) + " complete lines) ---\n" + firstN(stdin, 300)
	if strings.Contains(errOut, "goroutine ") || (code != 0 && code != 1) {
		kind := "end-of-input"
		if reads <= complete {
			kind = "complete-lines"
		}
		c.Violation("cli-host-crash:read:"+kind, fmt.Sprintf("evy run crashed (exit %d) in read: %s", code, firstN(errOut, 200)), witness, nil)
		return
	}
	got := strings.Split(out, "\n")
	for k := 0; k < reads && k < complete; k++ {
		c.Event("cli_read_lines_checked", 1)
		want := fmt.Sprintf("%d %d [%s]", k, len([]rune(lines[k])), lines[k])
		if strings.Contains(lines[k], "\r") {
			continue // whether a carriage return belongs to the line is not documented
		}
		if k >= len(got) || got[k] != want {
			g := "(missing)"
			if k < len(got) {
				g = got[k]
			}
			c.Violation("cli-read-wrong-line", fmt.Sprintf("read %d returned %s, the input line gives %s", k, firstN(g, 80), firstN(want, 80)), witness, nil)
			return
		}
	}
	if reads <= complete && (code != 0 || !strings.HasSuffix(out, "done\n")) {
		c.Violation("cli-read-incomplete", fmt.Sprintf("all reads had a complete line, but the run ended with exit %d and output tail %q", code, tail(out, 60)), witness, nil)
	}
}
