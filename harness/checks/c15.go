package checks

import (
	"fmt"
	"math"
	"strconv"
	"strings"

	"evylang.dev/evy/pkg/evaluator"

	"verif/core"
	"verif/gen"
	"verif/mon"
	"verif/plat"
	"verif/ref"
)

// C15 — events run their handlers in order, isolated, on shared globals.

var c15Sigs = map[string][]gen.Param{
	"key":     {{Name: "k", T: tStr}},
	"down":    {{Name: "x", T: tNum}, {Name: "y", T: tNum}},
	"up":      {{Name: "x", T: tNum}, {Name: "y", T: tNum}},
	"move":    {{Name: "x", T: tNum}, {Name: "y", T: tNum}},
	"animate": {{Name: "t", T: tNum}},
	"input":   {{Name: "id", T: tStr}, {Name: "val", T: tStr}},
}
var c15ParamNamedGlobals = []gen.Param{{Name: "x", T: tNum}, {Name: "t", T: tNum}, {Name: "k", T: tStr}, {Name: "val", T: tStr}}

var c15Names = []string{"key", "down", "up", "move", "animate", "input"}

func init() {
	core.Register(&core.Check{
		ID:          "C15",
		Level:       "exploration",
		Rule:        "handler programs: any subset of {key, down, up, move, animate, input} with parameter lists omitted, fully named or with _ in any position; bodies print the payload, update global counters/arrays/maps, use locals that shadow globals used by other handlers, read and update globals that carry the parameter names of other handlers (x, t, k, val), call shared functions, return early, panic; event sequences of length <= 30 with payload classes (NaN, infinities, empty and non-ASCII strings, markup), delivered through Evaluator.HandleEvent after Eval as pkg/wasm does; plus sessions that go on delivering events after a handler ended in an Evy panic (fresh scopes on shared globals, three-handler model). Two oracles: (a) metamorphic - the same evaluator running the program with handlers rewritten as procedures and events as calls; (b) the reference interpreter. distinct = distinct (program text, event sequence)",
		Assumptions: []string{"events for which the program declares no handler are not delivered (pkg/wasm registers only declared handlers)"},
		NumCases: func(tier string) int {
			if tier == "thorough" {
				return 30000
			}
			return 800
		},
		Run:       c15Run,
		MinEvents: []string{"programs", "events_delivered", "effects_compared"},
	})
}

type c15Event struct {
	name string
	args []float64
	strs []string
}

func c15Payload(c *core.Ctx, name string) c15Event {
	r := c.Rng
	nums := []float64{0, 50.5, -3, 100, math.NaN(), math.Inf(1), math.Pow(10, 300), 12.25, math.Copysign(0, -1)}
	strs := []string{"", "a", "é🌍", "<&\">", "Enter", "ArrowLeft", " ", "a b", "x\ty"}
	ev := c15Event{name: name}
	for _, p := range c15Sigs[name] {
		if p.T.K == gen.Num {
			ev.args = append(ev.args, nums[r.Intn(len(nums))])
		} else {
			ev.strs = append(ev.strs, strs[r.Intn(len(strs))])
		}
	}
	return ev
}

func numExprOf(v float64) gen.Expr {
	switch {
	case math.IsNaN(v):
		return gen.Binary{Op: "/", L: nl(0), R: vr("zero", tNum), T: tNum}
	case math.IsInf(v, 1):
		return gen.Binary{Op: "/", L: nl(1), R: vr("zero", tNum), T: tNum}
	case math.IsInf(v, -1):
		return gen.Binary{Op: "/", L: nl(-1), R: vr("zero", tNum), T: tNum}
	case v == 0 && math.Signbit(v):
		return gen.Binary{Op: "*", L: vr("zero", tNum), R: nl(-1), T: tNum}
	case v >= 1e21:
		return call("pow", tNum, nl(10), nl(300))
	}
	return nl(v)
}

func c15Handler(c *core.Ctx, name string, id int) gen.Handler {
	r := c.Rng
	sig := c15Sigs[name]
	h := gen.Handler{Name: name}
	style := r.Intn(3)
	c.Cover("signature", []string{"omitted", "named", "partial-underscore"}[style])
	var named []gen.Param
	switch style {
	case 1:
		h.Params = append(h.Params, sig...)
		named = sig
	case 2:
		for i, p := range sig {
			if (r.Intn(2) == 0 && len(sig) > 1) || (len(sig) == 1) || i == 0 && r.Intn(2) == 0 {
				h.Params = append(h.Params, gen.Param{Name: "_", T: p.T})
			} else {
				h.Params = append(h.Params, p)
				named = append(named, p)
			}
		}
	}
	var body []gen.Stmt
	entry := []gen.Expr{sl("enter " + name)}
	for _, p := range named {
		if p.T.K == gen.Str {
			entry = append(entry, call("repr", tStr, toAny(vr(p.Name, p.T))))
		} else {
			entry = append(entry, vr(p.Name, p.T))
		}
	}
	body = append(body, printCall(entry...))
	for _, p := range named {
		if p.T.K != gen.Str {
			continue
		}
		// the characters of a string payload, read piecewise
		pv := vr(p.Name, tStr)
		acc := "acc_" + p.Name
		body = append(body,
			gen.If{Conds: []gen.Expr{gen.Binary{Op: ">", L: call("len", tNum, toAny(pv)), R: nl(0), T: tBool}}, Blocks: [][]gen.Stmt{{
				printCall(sl("chars"), call("repr", tStr, toAny(gen.Index{X: pv, I: nl(0), T: tStr})), call("repr", tStr, toAny(gen.Index{X: pv, I: nl(-1), T: tStr})), call("repr", tStr, toAny(gen.Slice{X: pv, Lo: nl(1)}))),
			}}},
			gen.Decl{Name: acc, T: tStr, Init: sl("")},
			gen.For{Var: "ch_" + p.Name, VarT: tStr, Over: pv, Body: []gen.Stmt{gen.Assign{Target: vr(acc, tStr), Val: gen.Binary{Op: "+", L: vr("ch_"+p.Name, tStr), R: vr(acc, tStr), T: tStr}}}},
			printCall(sl("reversed"), call("repr", tStr, toAny(vr(acc, tStr))), call("len", tNum, toAny(pv))))
	}
	// a local that must start afresh on every delivery
	body = append(body, gen.Decl{Name: "loc", T: tNum, Init: nl(0)}, gen.Assign{Target: vr("loc", tNum), Val: gen.Binary{Op: "+", L: vr("loc", tNum), R: nl(1), T: tNum}}, printCall(sl("loc"), vr("loc", tNum)))
	shadowed := false
	for k := 0; k < 2+r.Intn(4); k++ {
		switch r.Intn(10) {
		case 9:
			// the left operand is a global that the call in the right operand assigns: the value read first counts
			c.Cover("body", "global-operand-assigned-by-call")
			body = append(body, gen.Assign{Target: vr("cnt", tNum), Val: gen.Binary{Op: "+", L: vr("cnt", tNum), R: gen.Paren{X: call("bump", tNum, nl(float64(1+r.Intn(3))))}, T: tNum}}, printCall(sl("cnt"), vr("cnt", tNum)))
		case 0:
			body = append(body, gen.Assign{Target: vr("cnt", tNum), Val: gen.Binary{Op: "+", L: vr("cnt", tNum), R: nl(1), T: tNum}})
		case 1:
			if !shadowed {
				shadowed = true
				c.Cover("body", "local-shadows-global")
				body = append(body, gen.Decl{Name: "g1", T: tStr, Init: sl("local in " + name)}, printCall(sl("g1"), vr("g1", tStr)))
			}
		case 2:
			if !shadowed {
				body = append(body, gen.Assign{Target: vr("g1", tNum), Val: gen.Binary{Op: "+", L: vr("g1", tNum), R: nl(float64(id + 1)), T: tNum}})
			}
		case 3:
			body = append(body, gen.CallStmt{C: call("note", gen.TNone, sl(name))})
		case 4:
			body = append(body, printCall(sl("bump"), call("bump", tNum, nl(float64(1+r.Intn(3))))))
		case 5:
			body = append(body, gen.Assign{Target: gen.Dot{X: vr("m", tMapN), Key: name, T: tNum}, Val: vr("cnt", tNum)})
		case 6:
			c.Cover("body", "early-return")
			body = append(body, gen.If{Conds: []gen.Expr{gen.Binary{Op: "==", L: gen.Binary{Op: "%", L: vr("cnt", tNum), R: nl(2), T: tNum}, R: nl(float64(r.Intn(2))), T: tBool}}, Blocks: [][]gen.Stmt{{printCall(sl("early return from " + name)), gen.Return{}}}})
		case 7:
			if r.Intn(4) == 0 {
				c.Cover("body", "panic")
				body = append(body, gen.If{Conds: []gen.Expr{gen.Binary{Op: ">", L: vr("cnt", tNum), R: nl(float64(6 + r.Intn(20))), T: tBool}}, Blocks: [][]gen.Stmt{{gen.CallStmt{C: call("panic", gen.TNone, sl("too many in "+name))}}}})
			}
		case 8:
			if len(named) > 0 && named[0].T.K == gen.Num {
				body = append(body, gen.Assign{Target: vr("last", tNum), Val: vr(named[0].Name, tNum)})
			}
		}
	}
	// globals that carry the names other handlers use for their parameters: visible here unless this
	// handler binds the name itself
	tail := []gen.Expr{sl("exit " + name), vr("cnt", tNum), vr("lg", tArrS), vr("m", tMapN), vr("last", tNum)}
	for _, g := range c15ParamNamedGlobals {
		bound := false
		for _, p := range named {
			bound = bound || p.Name == g.Name
		}
		if bound {
			continue
		}
		c.Cover("body", "global-named-like-a-parameter")
		if g.T.K == gen.Num {
			body = append(body, gen.Assign{Target: vr(g.Name, tNum), Val: gen.Binary{Op: "+", L: vr(g.Name, tNum), R: nl(1), T: tNum}})
		} else if r.Intn(2) == 0 {
			body = append(body, gen.Assign{Target: vr(g.Name, tStr), Val: gen.Binary{Op: "+", L: vr(g.Name, tStr), R: sl("."), T: tStr}})
		}
		tail = append(tail, vr(g.Name, g.T))
	}
	if !shadowed {
		tail = append(tail, vr("g1", tNum))
	}
	body = append(body, printCall(tail...))
	h.Body = body
	return h
}

// handler signatures that do not match the event's signature must be rejected, also when the
// mismatching parameter is anonymous; a program that is accepted must handle the event.
var c15BadSignatures = []string{
	"on down _:string y:num", "on down _:num _:string", "on down x:num _:bool", "on input _:num val:string", "on input id:string _:[]string", "on key _:num", "on key _:[]num",
	"on animate _:string", "on up _:any y:num", "on move _:num y:num z:num", "on key k:string k2:string", "on down x:num",
}

func c15Signatures(c *core.Ctx) {
	for _, sig := range c15BadSignatures {
		src := "n := 0\n" + sig + "\n    n = n + 1\n    print \"handled\" n\nend\nprint \"top\"\n"
		c.Event("signature_cells", 1)
		c.Distinct("signature|" + sig)
		c.Journal(src)
		name := strings.Fields(sig)[1]
		ev := evaluator.Event{Name: name}
		for _, p := range c15Sigs[name] {
			if p.T.K == gen.Num {
				ev.Params = append(ev.Params, 5.0)
			} else {
				ev.Params = append(ev.Params, "s")
			}
		}
		o := plat.Run(src, plat.Opts{Events: []evaluator.Event{ev, ev}, YieldBudget: 10000})
		if o.Class == "gopanic" {
			c.Violation("handler-program-failed:gopanic", sig+": "+firstN(o.GoPanic, 200), src, nil)
			continue
		}
		if o.Class != "parse-error" {
			c.Violation("signature-mismatch-accepted", fmt.Sprintf("handler `%s` does not match the signature of the %s event but was accepted; delivering the event twice gave %s %q %v", sig, name, o.Class, firstN(o.ErrText, 120), o.Events), src, nil)
		}
	}
}

// c15AfterFailure: a handler that ends in an Evy panic leaves nothing of its local scope behind - a
// user of the Evaluator API who keeps delivering events (pkg/wasm stops at the first failure) finds
// every later handler in a fresh local scope on the same globals. The expected trace comes from a
// model of the three handlers below (two globals, parameters of one handler named like them).
func c15AfterFailure(c *core.Ctx) {
	r := c.Rng
	for round := 0; round < 40; round++ {
		gx, gy := float64(r.Intn(5)), float64(10+r.Intn(5))
		src := fmt.Sprintf("x := %v\ny := %v\non down x:num y:num\n    print \"down\" x y\n    t := [1 2]\n    z := t[x]\n    print \"in range\" z\nend\non key k:string\n    x = x + 1\n    print \"key\" k x y\nend\non up\n    y = y + x\n    print \"up\" x y\nend\nprint \"top\" x y\n", gx, gy)
		want := []string{fmt.Sprintf("top %v %v", gx, gy)}
		var evs []evaluator.Event
		seq := ""
		fails := 0
		for k := 0; k < 4+r.Intn(8); k++ {
			switch r.Intn(3) {
			case 0:
				px, py := float64(pick(r, 0, 1, 2, 5, 7, -3)), float64(r.Intn(50))
				evs = append(evs, evaluator.Event{Name: "down", Params: []any{px, py}})
				want = append(want, fmt.Sprintf("down %v %v", px, py))
				if px == 0 || px == 1 {
					want = append(want, fmt.Sprintf("in range %v", px+1))
				} else {
					want = append(want, "FAILED")
					fails++
				}
				seq += "d"
			case 1:
				ks := pick(r, "a", "Enter", "é")
				evs = append(evs, evaluator.Event{Name: "key", Params: []any{ks}})
				gx++
				want = append(want, fmt.Sprintf("key %s %v %v", ks, gx, gy))
				seq += "k"
			default:
				evs = append(evs, evaluator.Event{Name: "up", Params: []any{3.0, 4.0}})
				gy += gx
				want = append(want, fmt.Sprintf("up %v %v", gx, gy))
				seq += "u"
			}
		}
		c.Journal(src)
		c.Event("sessions_after_failure", 1)
		c.Event("failed_handlers_followed_by_events", fails)
		c.Distinct("after-failure|" + seq + fmt.Sprint(gx, gy))
		o := plat.Run(src, plat.Opts{Events: evs, YieldBudget: 100000, KeepDelivering: true})
		if o.Class == "gopanic" {
			c.Violation("handler-program-failed:gopanic", "events after a failed handler: "+firstN(o.GoPanic, 200), src, map[string]any{"events": evs})
			continue
		}
		var got []string
		for _, e := range o.Events {
			switch {
			case strings.HasPrefix(e, "handler-failed:"):
				got = append(got, "FAILED")
			case strings.HasPrefix(e, "print "):
				if t, err := strconv.Unquote(strings.TrimPrefix(e, "print ")); err == nil {
					got = append(got, strings.TrimSuffix(t, "\n"))
				} else {
					got = append(got, e)
				}
			default:
				got = append(got, e)
			}
		}
		if o.Class != "ok" || strings.Join(got, "|") != strings.Join(want, "|") {
			c.Violation("after-failed-handler", fmt.Sprintf("events %s delivered after Eval, going on after failed handlers: ended %s %q with trace %v, the model of fresh handler scopes on shared globals gives %v", seq, o.Class, firstN(o.ErrText, 100), got, want), src, map[string]any{"events": evs})
		}
	}
}

// c15DuringRun: an event that arrives while the top-level code is still running (delivered from the
// platform's yield point) finds its handler and runs it once; nothing crashes.
func c15DuringRun(c *core.Ctx) {
	for _, at := range []int{20, 40, 90, 150, 200} {
		src := "n := 0\non key k:string\n    n = n + 1\n    print \"key\" k\nend\nfor range 60\n    n = n + 10\nend\nprint \"top done\" n\n"
		var ev *evaluator.Evaluator
		delivered := false
		var herr error
		c.Journal(src)
		o := plat.Run(src, plat.Opts{YieldBudget: 50000,
			Attach: func(e *evaluator.Evaluator) { ev = e },
			OnYield: func(n int) {
				if n == at && ev != nil && !delivered {
					delivered = true
					herr = ev.HandleEvent(evaluator.Event{Name: "key", Params: []any{"a"}})
				}
			}})
		c.Event("events_during_run", 1)
		c.Distinct(fmt.Sprintf("during-run|%d", at))
		if !delivered {
			c.Violation("harness-event-not-delivered", fmt.Sprintf("the run ended (%s, %d yields) before yield %d", o.Class, o.Yields, at), src, nil)
			continue
		}
		if o.Class == "gopanic" {
			c.Violation("handler-program-failed:gopanic", fmt.Sprintf("event delivered at yield %d of the top-level run: Go panic %s", at, firstN(o.GoPanic, 200)), src, nil)
			continue
		}
		keys := 0
		for _, e := range o.Events {
			if strings.HasPrefix(e, "print \"key a") {
				keys++
			}
		}
		if herr != nil || keys != 1 || o.Class != "ok" || len(o.Events) == 0 || o.Events[len(o.Events)-1] != "print \"top done 601\\n\"" {
			c.Violation("event-during-run", fmt.Sprintf("event delivered at yield %d of the top-level run: handler error %v, handler ran %d times, run ended %s with %v", at, herr, keys, o.Class, o.Events), src, nil)
		}
	}
}

func c15Run(c *core.Ctx, i int) {
	if i == 0 {
		c15Signatures(c)
		c15DuringRun(c)
		c15AfterFailure(c)
	}
	r := c.Rng
	c.Event("programs", 1)
	top := []gen.Stmt{
		gen.Decl{Name: "zero", T: tNum, Init: nl(0)},
		gen.Decl{Name: "cnt", T: tNum, Init: nl(0)},
		gen.Decl{Name: "g1", T: tNum, Init: nl(10)},
		gen.Decl{Name: "last", T: tNum, Init: nl(-1)},
		gen.Decl{Name: "lg", T: tArrS, Typed: true},
		gen.Decl{Name: "m", T: tMapN, Typed: true},
		gen.Decl{Name: "x", T: tNum, Init: nl(1000)},
		gen.Decl{Name: "t", T: tNum, Init: nl(2000)},
		gen.Decl{Name: "k", T: tStr, Init: sl("global k")},
		gen.Decl{Name: "val", T: tStr, Init: sl("global val")},
		gen.FuncDef{Name: "note", Params: []gen.Param{{Name: "s", T: tStr}}, Ret: gen.TNone, Body: []gen.Stmt{
			gen.Assign{Target: vr("lg", tArrS), Val: gen.Binary{Op: "+", L: vr("lg", tArrS), R: arrLit(tArrS, vr("s", tStr)), T: tArrS}}}},
		gen.FuncDef{Name: "bump", Params: []gen.Param{{Name: "by", T: tNum}}, Ret: tNum, Body: []gen.Stmt{
			gen.Assign{Target: vr("cnt", tNum), Val: gen.Binary{Op: "+", L: vr("cnt", tNum), R: vr("by", tNum), T: tNum}}, gen.Return{Val: vr("cnt", tNum)}}},
		printCall(sl("top"), vr("zero", tNum), vr("cnt", tNum), vr("g1", tNum), vr("last", tNum), vr("lg", tArrS), vr("m", tMapN), vr("x", tNum), vr("t", tNum), vr("k", tStr), vr("val", tStr)),
	}
	var handlers []gen.Handler
	present := map[string]bool{}
	for k, name := range c15Names {
		if r.Intn(2) == 0 {
			handlers = append(handlers, c15Handler(c, name, k))
			present[name] = true
		}
	}
	if len(handlers) == 0 {
		handlers = append(handlers, c15Handler(c, "key", 0))
		present["key"] = true
	}
	c.Cover("handlers", fmt.Sprint(len(handlers)))
	// event sequence
	n := 1 + r.Intn(30)
	if i%10 == 7 {
		// long sessions: hundreds of deliveries (animation frames) - nothing may accumulate per delivery
		n = 280 + r.Intn(400)
		c.Cover("session", "hundreds-of-deliveries")
	}
	var evs []c15Event
	for k := 0; k < n; k++ {
		evs = append(evs, c15Payload(c, c15Names[r.Intn(len(c15Names))]))
	}
	// P: program with handlers
	var pStmts, qStmts []gen.Stmt
	pStmts = append(pStmts, top...)
	qStmts = append(qStmts, top...)
	for _, h := range handlers {
		pStmts = append(pStmts, h)
		qStmts = append(qStmts, gen.FuncDef{Name: "h_" + h.Name, Params: h.Params, Ret: gen.TNone, Body: h.Body})
	}
	var implEvents []evaluator.Event
	var refEvents []ref.Event
	sig := strings.Builder{}
	for _, e := range evs {
		var anyArgs []any
		var refArgs []ref.Value
		var callArgs []gen.Expr
		ni, si := 0, 0
		for _, p := range c15Sigs[e.name] {
			if p.T.K == gen.Num {
				anyArgs = append(anyArgs, e.args[ni])
				refArgs = append(refArgs, e.args[ni])
				callArgs = append(callArgs, numExprOf(e.args[ni]))
				ni++
			} else {
				anyArgs = append(anyArgs, e.strs[si])
				refArgs = append(refArgs, e.strs[si])
				callArgs = append(callArgs, sl(e.strs[si]))
				si++
			}
		}
		fmt.Fprintf(&sig, "%s%v%q;", e.name, e.args, e.strs)
		implEvents = append(implEvents, evaluator.Event{Name: e.name, Params: anyArgs})
		refEvents = append(refEvents, ref.Event{Name: e.name, Args: refArgs})
		if !present[e.name] {
			continue
		}
		c.Event("events_delivered", 1)
		c.Cover("event", e.name)
		// the procedure takes exactly the declared parameters
		for _, h := range handlers {
			if h.Name == e.name {
				if len(h.Params) == 0 {
					callArgs = nil
				}
			}
		}
		qStmts = append(qStmts, gen.CallStmt{C: call("h_"+e.name, gen.TNone, callArgs...)})
	}
	P, Q := &gen.Program{Stmts: pStmts}, &gen.Program{Stmts: qStmts}
	pText, qText := gen.Print(P, nil), gen.Print(Q, nil)
	c.Distinct(pText + sig.String())
	c.Journal(pText)
	o1 := plat.Run(pText, plat.Opts{Events: implEvents, YieldBudget: 400000})
	if o1.Class == "parse-error" || o1.Class == "gopanic" {
		c.Violation("handler-program-failed:"+o1.Class, "handler program: "+firstN(o1.ErrText+o1.GoPanic, 300), pText, nil)
		return
	}
	// (a) metamorphic: procedures + calls on the same evaluator
	o2 := plat.Run(qText, plat.Opts{YieldBudget: 400000})
	if o2.Class == "parse-error" {
		c.Violation("harness-procedure-program-rejected", firstN(o2.ErrText, 300), qText, nil)
		return
	}
	c.Event("effects_compared", len(o1.Events))
	s1 := o1.Class + "|" + stripPosPrefix(o1.ErrText) + "|" + strings.Join(o1.Events, "\n")
	s2 := o2.Class + "|" + stripPosPrefix(o2.ErrText) + "|" + strings.Join(o2.Events, "\n")
	if s1 != s2 {
		c.Violation("events-vs-calls", "delivering the events differs from calling equivalent procedures: "+firstDiff(s1, s2), pText, map[string]any{"events": sig.String(), "procedure_program": qText})
		return
	}
	// (b) reference interpreter on the handler program
	in := ref.New()
	want := in.Run(P, refEvents)
	if judged, ok, why := mon.Compare(o1, want); judged && !ok {
		c.Violation("events-vs-reference", why, pText, map[string]any{"events": sig.String()})
		return
	}
	// entry markers: exactly one per delivered event
	delivered := 0
	for _, e := range evs {
		if present[e.name] {
			delivered++
		}
	}
	enters := 0
	for _, e := range o1.Events {
		if strings.HasPrefix(e, "print \"enter ") {
			enters++
		}
		if strings.HasPrefix(e, "print \"loc ") && e != "print \"loc 1\\n\"" {
			c.Violation("local-survived", "a handler local kept its value across deliveries: "+e, pText, nil)
		}
	}
	if o1.Class == "ok" && enters != delivered {
		c.Violation("handler-count", fmt.Sprintf("%d handler entries for %d delivered events", enters, delivered), pText, map[string]any{"events": sig.String()})
	}
	if i < 2 {
		c.Sample(map[string]any{"program": firstN(pText, 700), "events": firstN(sig.String(), 300), "effects": len(o1.Events)})
	}
}
