package checks

import (
	"fmt"
	"math/rand"

	"verif/core"
	"verif/gen"
)

// C09 — basic values are copied, composites are shared.

var (
	tNum   = gen.TNum
	tStr   = gen.TStr
	tBool  = gen.TBool
	tAny   = gen.TAny
	tArrN  = gen.ArrOf(gen.TNum)
	tArrS  = gen.ArrOf(gen.TStr)
	tArrA  = gen.ArrOf(gen.TAny)
	tArrAN = gen.ArrOf(gen.ArrOf(gen.TNum))
	tMapN  = gen.MapOf(gen.TNum)
	tMapAN = gen.MapOf(gen.ArrOf(gen.TNum))
)

func vr(name string, t *gen.Type) gen.VarRef { return gen.VarRef{Name: name, T: t} }
func nl(v float64) gen.Expr {
	if v < 0 {
		return gen.Unary{Op: "-", X: gen.NumLit{V: -v}}
	}
	return gen.NumLit{V: v}
}
func sl(s string) gen.Expr { return gen.StrLit{V: s} }
func call(name string, t *gen.Type, args ...gen.Expr) gen.Call {
	return gen.Call{Name: name, T: t, Args: args}
}
func toAny(e gen.Expr) gen.Expr {
	if e.Ty().K == gen.Any {
		return e
	}
	return gen.ToAny{X: e}
}
func arrLit(t *gen.Type, el ...gen.Expr) gen.ArrLit { return gen.ArrLit{T: t, Elems: el} }

// aliasProg builds alias programs step by step; after every step all live names are printed.
type aliasProg struct {
	r     *rand.Rand
	stmts []gen.Stmt
	vars  []gen.VarInfo // live globals in declaration order
	n     int
	step  int
	funcs map[string]bool
	fdefs []gen.Stmt
}

func (a *aliasProg) fresh(p string) string { a.n++; return fmt.Sprintf("%s%d", p, a.n) }

func (a *aliasProg) declare(name string, t *gen.Type, init gen.Expr) {
	a.stmts = append(a.stmts, gen.Decl{Name: name, T: t, Init: init})
	a.vars = append(a.vars, gen.VarInfo{Name: name, T: t})
}

func (a *aliasProg) typed(name string, t *gen.Type) {
	a.stmts = append(a.stmts, gen.Decl{Name: name, T: t, Typed: true})
	a.vars = append(a.vars, gen.VarInfo{Name: name, T: t})
}

func (a *aliasProg) show() {
	a.step++
	args := []gen.Expr{sl(fmt.Sprintf("#%d", a.step)), vr("err", tBool), vr("errmsg", tStr)}
	for _, v := range a.vars {
		args = append(args, vr(v.Name, v.T))
	}
	a.stmts = append(a.stmts, printCall(args...))
}

func (a *aliasProg) pick(t *gen.Type) (gen.VarInfo, bool) {
	var c []gen.VarInfo
	for _, v := range a.vars {
		if v.T.Eq(t) {
			c = append(c, v)
		}
	}
	if len(c) == 0 {
		return gen.VarInfo{}, false
	}
	return c[a.r.Intn(len(c))], true
}

func (a *aliasProg) needFunc(name string) {
	if a.funcs[name] {
		return
	}
	a.funcs[name] = true
	switch name {
	case "setfirst": // modifies the caller's array through the parameter
		a.fdefs = append(a.fdefs, gen.FuncDef{Name: name, Ret: gen.TNone, Params: []gen.Param{{Name: "p", T: tArrN}, {Name: "v", T: tNum}}, Body: []gen.Stmt{
			gen.Assign{Target: gen.Index{X: vr("p", tArrN), I: nl(0), T: tNum}, Val: vr("v", tNum)},
			gen.Assign{Target: vr("v", tNum), Val: nl(-1)},
		}})
	case "bump": // reassigns its basic parameters: never visible outside
		a.fdefs = append(a.fdefs, gen.FuncDef{Name: name, Ret: tNum, Params: []gen.Param{{Name: "n", T: tNum}, {Name: "s", T: tStr}, {Name: "b", T: tBool}}, Body: []gen.Stmt{
			gen.Assign{Target: vr("n", tNum), Val: gen.Binary{Op: "+", L: vr("n", tNum), R: nl(100), T: tNum}},
			gen.Assign{Target: vr("s", tStr), Val: gen.Binary{Op: "+", L: vr("s", tStr), R: sl("!"), T: tStr}},
			gen.Assign{Target: vr("b", tBool), Val: gen.Unary{Op: "!", X: vr("b", tBool)}},
			printCall(sl("bump"), vr("n", tNum), vr("s", tStr), vr("b", tBool)),
			gen.Return{Val: vr("n", tNum)},
		}})
	case "ident": // returns its argument: the same array
		a.fdefs = append(a.fdefs, gen.FuncDef{Name: name, Ret: tArrN, Params: []gen.Param{{Name: "p", T: tArrN}}, Body: []gen.Stmt{gen.Return{Val: vr("p", tArrN)}}})
	case "identm":
		a.fdefs = append(a.fdefs, gen.FuncDef{Name: name, Ret: tMapN, Params: []gen.Param{{Name: "p", T: tMapN}}, Body: []gen.Stmt{gen.Return{Val: vr("p", tMapN)}}})
	case "vset": // variadic parameter: array of the arguments; arrays inside stay shared
		a.fdefs = append(a.fdefs, gen.FuncDef{Name: name, Ret: gen.TNone, Variadic: true, Params: []gen.Param{{Name: "ps", T: tArrN}}, Body: []gen.Stmt{
			gen.For{Var: "p", VarT: tArrN, Over: vr("ps", tArrAN), Body: []gen.Stmt{
				gen.If{Conds: []gen.Expr{gen.Binary{Op: ">", L: call("len", tNum, toAny(vr("p", tArrN))), R: nl(0), T: tBool}}, Blocks: [][]gen.Stmt{{
					gen.Assign{Target: gen.Index{X: vr("p", tArrN), I: nl(-1), T: tNum}, Val: nl(55)},
				}}},
			}},
		}})
	case "vnum": // variadic basic values: copies
		a.fdefs = append(a.fdefs, gen.FuncDef{Name: name, Ret: tArrN, Variadic: true, Params: []gen.Param{{Name: "ns", T: tNum}}, Body: []gen.Stmt{
			gen.If{Conds: []gen.Expr{gen.Binary{Op: ">", L: call("len", tNum, toAny(vr("ns", tArrN))), R: nl(0), T: tBool}}, Blocks: [][]gen.Stmt{{
				gen.Assign{Target: gen.Index{X: vr("ns", tArrN), I: nl(0), T: tNum}, Val: nl(-7)},
			}}},
			gen.Return{Val: vr("ns", tArrN)},
		}})
	case "geterr": // returns the built-in global itself; fails or succeeds depending on the argument
		a.fdefs = append(a.fdefs, gen.FuncDef{Name: name, Ret: tBool, Params: []gen.Param{{Name: "t", T: tStr}}, Body: []gen.Stmt{
			gen.Decl{Name: "q", T: tNum, Init: call("str2num", tNum, vr("t", tStr))},
			gen.If{Conds: []gen.Expr{gen.Binary{Op: "<", L: vr("q", tNum), R: nl(-999), T: tBool}}, Blocks: [][]gen.Stmt{{printCall(sl("never"))}}},
			gen.Return{Val: vr("err", tBool)},
		}})
	case "getmsg":
		a.fdefs = append(a.fdefs, gen.FuncDef{Name: name, Ret: tStr, Params: []gen.Param{{Name: "t", T: tStr}}, Body: []gen.Stmt{
			gen.Decl{Name: "q", T: tBool, Init: call("str2bool", tBool, vr("t", tStr))},
			gen.If{Conds: []gen.Expr{gen.Binary{Op: "and", L: vr("q", tBool), R: gen.Unary{Op: "!", X: vr("q", tBool)}, T: tBool}}, Blocks: [][]gen.Stmt{{printCall(sl("never"))}}},
			gen.Return{Val: vr("errmsg", tStr)},
		}})
	case "report": // parameters are copies: a conversion inside must not change them
		a.fdefs = append(a.fdefs, gen.FuncDef{Name: name, Ret: gen.TNone, Params: []gen.Param{{Name: "flag", T: tBool}, {Name: "msg", T: tStr}}, Body: []gen.Stmt{
			printCall(sl("report before"), vr("flag", tBool), vr("msg", tStr)),
			gen.Decl{Name: "q", T: tBool, Init: call("str2bool", tBool, sl("true"))},
			printCall(sl("report after"), vr("flag", tBool), vr("msg", tStr), vr("q", tBool)),
		}})
	case "newboard": // a literal made of literals only: every evaluation gives fresh containers
		a.fdefs = append(a.fdefs, gen.FuncDef{Name: name, Ret: tArrAN, Body: []gen.Stmt{gen.Return{Val: arrLit(tArrAN, arrLit(tArrN, nl(0), nl(0)), arrLit(tArrN, nl(0), nl(0)))}}})
	case "newconf":
		tMM := gen.MapOf(tMapN)
		a.fdefs = append(a.fdefs, gen.FuncDef{Name: name, Ret: tMM, Body: []gen.Stmt{gen.Return{Val: gen.MapLit{T: tMM, Keys: []string{"pos", "size"}, Vals: []gen.Expr{
			gen.MapLit{T: tMapN, Keys: []string{"x", "y"}, Vals: []gen.Expr{nl(0), nl(0)}}, gen.MapLit{T: tMapN, Keys: []string{"w"}, Vals: []gen.Expr{nl(1)}}}}}}})
	case "seterr": // a failing or succeeding conversion rewrites err/errmsg in place
	}
}

func (a *aliasProg) prelude() {
	a.declare("n", tNum, nl(float64(1+a.r.Intn(5))))
	a.declare("s", tStr, sl([]string{"a", "é", "hi"}[a.r.Intn(3)]))
	a.declare("b", tBool, gen.BoolLit{V: a.r.Intn(2) == 0})
	a.declare("an", tArrN, arrLit(tArrN, nl(1), nl(2), nl(3)))
	a.declare("nn", tArrAN, arrLit(tArrAN, arrLit(tArrN, nl(1), nl(2)), arrLit(tArrN, nl(3))))
	a.declare("mn", tMapN, gen.MapLit{T: tMapN, Keys: []string{"a", "b"}, Vals: []gen.Expr{nl(1), nl(2)}})
	a.declare("mm", tMapAN, gen.MapLit{T: tMapAN, Keys: []string{"k"}, Vals: []gen.Expr{arrLit(tArrN, nl(4), nl(5))}})
	a.typed("x", tAny)
	a.typed("xa", tArrA)
	a.show()
}

const c09Creates = 36
const c09Updates = 14

// create adds an alias-creating step of the given kind; returns false if not applicable.
func (a *aliasProg) create(kind int) bool {
	r := a.r
	switch kind {
	case 0: // inferred declaration from a basic variable
		t := []*gen.Type{tNum, tStr, tBool}[r.Intn(3)]
		v, ok := a.pick(t)
		if !ok {
			return false
		}
		a.declare(a.fresh("c"), t, vr(v.Name, t))
	case 1: // inferred declaration from a composite variable
		t := []*gen.Type{tArrN, tArrAN, tMapN, tMapAN}[r.Intn(4)]
		v, ok := a.pick(t)
		if !ok {
			return false
		}
		a.declare(a.fresh("c"), t, vr(v.Name, t))
	case 2: // assignment between existing variables of one type
		t := []*gen.Type{tNum, tStr, tBool, tArrN, tMapN, tArrAN}[r.Intn(6)]
		v, ok1 := a.pick(t)
		w, ok2 := a.pick(t)
		if !ok1 || !ok2 || v.Name == w.Name {
			return false
		}
		a.stmts = append(a.stmts, gen.Assign{Target: vr(v.Name, t), Val: vr(w.Name, t)})
	case 3: // declaration / assignment from err, errmsg
		if r.Intn(2) == 0 {
			a.declare(a.fresh("e"), tBool, vr("err", tBool))
		} else {
			a.declare(a.fresh("e"), tStr, vr("errmsg", tStr))
		}
	case 4: // assignment of err to a bool variable, and of a variable to err
		v, ok := a.pick(tBool)
		if !ok {
			return false
		}
		if r.Intn(2) == 0 {
			a.stmts = append(a.stmts, gen.Assign{Target: vr(v.Name, tBool), Val: vr("err", tBool)})
		} else {
			a.stmts = append(a.stmts, gen.Assign{Target: vr("err", tBool), Val: vr(v.Name, tBool)})
		}
	case 5: // element store of a basic value
		v, ok := a.pick(tNum)
		arr, ok2 := a.pick(tArrN)
		if !ok || !ok2 {
			return false
		}
		a.stmts = append(a.stmts, gen.Assign{Target: gen.Index{X: vr(arr.Name, tArrN), I: nl(float64(r.Intn(2))), T: tNum}, Val: vr(v.Name, tNum)})
	case 6: // element store of a composite (sharing)
		arr, ok := a.pick(tArrN)
		if !ok {
			return false
		}
		a.stmts = append(a.stmts, gen.Assign{Target: gen.Index{X: vr("nn", tArrAN), I: nl(float64(r.Intn(2))), T: tArrN}, Val: vr(arr.Name, tArrN)})
	case 7: // field store of basic / composite
		if r.Intn(2) == 0 {
			v, ok := a.pick(tNum)
			if !ok {
				return false
			}
			if r.Intn(2) == 0 {
				a.stmts = append(a.stmts, gen.Assign{Target: gen.Dot{X: vr("mn", tMapN), Key: "c", T: tNum}, Val: vr(v.Name, tNum)})
			} else {
				a.stmts = append(a.stmts, gen.Assign{Target: gen.Index{X: vr("mn", tMapN), I: sl("d e"), T: tNum}, Val: vr(v.Name, tNum)})
			}
		} else {
			arr, ok := a.pick(tArrN)
			if !ok {
				return false
			}
			a.stmts = append(a.stmts, gen.Assign{Target: gen.Dot{X: vr("mm", tMapAN), Key: []string{"k", "z"}[r.Intn(2)], T: tArrN}, Val: vr(arr.Name, tArrN)})
		}
	case 8: // literal containing variables
		v, _ := a.pick(tNum)
		arr, _ := a.pick(tArrN)
		if r.Intn(2) == 0 {
			a.declare(a.fresh("l"), tArrN, arrLit(tArrN, vr(v.Name, tNum), vr("n", tNum)))
		} else {
			a.declare(a.fresh("l"), tArrAN, arrLit(tArrAN, vr(arr.Name, tArrN), vr(arr.Name, tArrN)))
		}
	case 9: // map literal containing variables
		arr, _ := a.pick(tArrN)
		a.declare(a.fresh("l"), tMapAN, gen.MapLit{T: tMapAN, Keys: []string{"p", "q"}, Vals: []gen.Expr{vr(arr.Name, tArrN), vr("an", tArrN)}})
	case 10: // wrap into any
		switch r.Intn(4) {
		case 0:
			a.stmts = append(a.stmts, gen.Assign{Target: vr("x", tAny), Val: toAny(vr("n", tNum))})
		case 1:
			arr, _ := a.pick(tArrN)
			a.stmts = append(a.stmts, gen.Assign{Target: vr("x", tAny), Val: toAny(vr(arr.Name, tArrN))})
		case 2:
			a.stmts = append(a.stmts, gen.Assign{Target: vr("x", tAny), Val: toAny(vr("err", tBool))})
		case 3:
			a.stmts = append(a.stmts, gen.Assign{Target: vr("x", tAny), Val: toAny(vr("mn", tMapN))})
		}
	case 11: // any declared from any; []any literal holding variables
		if r.Intn(2) == 0 {
			a.declare(a.fresh("y"), tAny, vr("x", tAny))
		} else {
			arr, _ := a.pick(tArrN)
			a.stmts = append(a.stmts, gen.Assign{Target: vr("xa", tArrA), Val: arrLit(tArrA, toAny(vr("n", tNum)), toAny(vr(arr.Name, tArrN)), toAny(vr("s", tStr)))})
		}
	case 12: // type assertion result
		a.stmts = append(a.stmts, gen.Assign{Target: vr("x", tAny), Val: toAny(vr("an", tArrN))})
		a.declare(a.fresh("u"), tArrN, gen.Assert{X: vr("x", tAny), T: tArrN})
	case 13: // parameter passing: composite is shared, basic is copied
		a.needFunc("setfirst")
		arr, _ := a.pick(tArrN)
		v, _ := a.pick(tNum)
		a.stmts = append(a.stmts, gen.CallStmt{C: call("setfirst", gen.TNone, vr(arr.Name, tArrN), vr(v.Name, tNum))})
	case 14:
		a.needFunc("bump")
		a.declare(a.fresh("r"), tNum, call("bump", tNum, vr("n", tNum), vr("s", tStr), vr("b", tBool)))
	case 15: // return value shares
		a.needFunc("ident")
		arr, _ := a.pick(tArrN)
		a.declare(a.fresh("r"), tArrN, call("ident", tArrN, vr(arr.Name, tArrN)))
	case 16:
		a.needFunc("identm")
		a.declare(a.fresh("r"), tMapN, call("identm", tMapN, vr("mn", tMapN)))
	case 17: // variadic
		a.needFunc("vset")
		arr, _ := a.pick(tArrN)
		a.stmts = append(a.stmts, gen.CallStmt{C: call("vset", gen.TNone, vr(arr.Name, tArrN), vr("an", tArrN))})
	case 18:
		a.needFunc("vnum")
		v, _ := a.pick(tNum)
		a.declare(a.fresh("r"), tArrN, call("vnum", tArrN, vr(v.Name, tNum), vr("n", tNum)))
	case 19: // loop variable over nested array: the element is the shared inner array
		a.stmts = append(a.stmts, gen.For{Var: "el", VarT: tArrN, Over: vr("nn", tArrAN), Body: []gen.Stmt{
			gen.Assign{Target: gen.Index{X: vr("el", tArrN), I: nl(0), T: tNum}, Val: gen.Binary{Op: "+", L: gen.Index{X: vr("el", tArrN), I: nl(0), T: tNum}, R: nl(10), T: tNum}},
		}})
	case 20: // loop variable over []num: a copy
		arr, _ := a.pick(tArrN)
		a.stmts = append(a.stmts, gen.For{Var: "el", VarT: tNum, Over: vr(arr.Name, tArrN), Body: []gen.Stmt{
			gen.Assign{Target: vr("el", tNum), Val: gen.Binary{Op: "*", L: vr("el", tNum), R: nl(2), T: tNum}},
			printCall(sl("el"), vr("el", tNum)),
		}})
	case 21: // slice: fresh container
		arr, _ := a.pick(tArrN)
		name := a.fresh("f")
		a.declare(name, tArrN, gen.Slice{X: vr(arr.Name, tArrN)})
		a.stmts = append(a.stmts, gen.If{Conds: []gen.Expr{gen.Binary{Op: ">", L: call("len", tNum, toAny(vr(name, tArrN))), R: nl(0), T: tBool}}, Blocks: [][]gen.Stmt{{
			gen.Assign{Target: gen.Index{X: vr(name, tArrN), I: nl(0), T: tNum}, Val: nl(77)}}}})
	case 22: // concatenation: fresh outer container, inner arrays shared
		name := a.fresh("f")
		if r.Intn(2) == 0 {
			arr, _ := a.pick(tArrN)
			a.declare(name, tArrN, gen.Binary{Op: "+", L: vr(arr.Name, tArrN), R: vr("an", tArrN), T: tArrN})
			a.stmts = append(a.stmts, gen.Assign{Target: gen.Index{X: vr(name, tArrN), I: nl(0), T: tNum}, Val: nl(88)})
		} else {
			a.declare(name, tArrAN, gen.Binary{Op: "+", L: vr("nn", tArrAN), R: vr("nn", tArrAN), T: tArrAN})
			a.stmts = append(a.stmts, gen.Assign{Target: gen.Index{X: gen.Index{X: vr(name, tArrAN), I: nl(0), T: tArrN}, I: nl(0), T: tNum}, Val: nl(88)})
		}
	case 23: // repetition: deep copy
		name := a.fresh("f")
		a.declare(name, tArrAN, gen.Binary{Op: "*", L: vr("nn", tArrAN), R: nl(2), T: tArrAN})
		a.stmts = append(a.stmts, gen.Assign{Target: gen.Index{X: gen.Index{X: vr(name, tArrAN), I: nl(0), T: tArrN}, I: nl(0), T: tNum}, Val: nl(99)})
	case 34: // a constant nested array literal evaluated several times (function, loop): independent results
		a.needFunc("newboard")
		b1, b2 := a.fresh("bd"), a.fresh("bd")
		a.declare(b1, tArrAN, call("newboard", tArrAN))
		a.stmts = append(a.stmts, gen.Assign{Target: gen.Index{X: gen.Index{X: vr(b1, tArrAN), I: nl(0), T: tArrN}, I: nl(0), T: tNum}, Val: nl(1)})
		a.declare(b2, tArrAN, call("newboard", tArrAN))
		a.stmts = append(a.stmts, gen.Assign{Target: gen.Index{X: gen.Index{X: vr(b2, tArrAN), I: nl(1), T: tArrN}, I: nl(1), T: tNum}, Val: nl(2)})
		all := a.fresh("bds")
		a.typed(all, gen.ArrOf(tArrAN))
		a.stmts = append(a.stmts, gen.For{Var: "rnd", VarT: tNum, Args: []gen.Expr{nl(3)}, Body: []gen.Stmt{
			gen.Decl{Name: "fresh", T: tArrAN, Init: arrLit(tArrAN, arrLit(tArrN, nl(7), nl(7)), arrLit(tArrN, nl(7)))},
			gen.Assign{Target: gen.Index{X: gen.Index{X: vr("fresh", tArrAN), I: nl(0), T: tArrN}, I: nl(0), T: tNum}, Val: vr("rnd", tNum)},
			gen.Assign{Target: vr(all, gen.ArrOf(tArrAN)), Val: gen.Binary{Op: "+", L: vr(all, gen.ArrOf(tArrAN)), R: arrLit(gen.ArrOf(tArrAN), vr("fresh", tArrAN)), T: gen.ArrOf(tArrAN)}},
		}})
		a.declare(a.fresh("bd"), tArrAN, call("newboard", tArrAN))
	case 35: // the same for map literals with nested map literals
		tMM := gen.MapOf(tMapN)
		a.needFunc("newconf")
		c1, c2 := a.fresh("cf"), a.fresh("cf")
		a.declare(c1, tMM, call("newconf", tMM))
		a.stmts = append(a.stmts, gen.Assign{Target: gen.Dot{X: gen.Dot{X: vr(c1, tMM), Key: "pos", T: tMapN}, Key: "x", T: tNum}, Val: nl(5)},
			gen.Assign{Target: gen.Dot{X: gen.Dot{X: vr(c1, tMM), Key: "pos", T: tMapN}, Key: "z", T: tNum}, Val: nl(6)},
			gen.CallStmt{C: call("del", gen.TNone, gen.Dot{X: vr(c1, tMM), Key: "size", T: tMapN}, sl("w"))})
		a.declare(c2, tMM, call("newconf", tMM))
		a.stmts = append(a.stmts, gen.Assign{Target: gen.Dot{X: gen.Dot{X: vr(c2, tMM), Key: "pos", T: tMapN}, Key: "y", T: tNum}, Val: nl(9)})
		a.declare(a.fresh("cf"), tMM, call("newconf", tMM))
	case 31: // the loop variable over an array of composites is stored and reassigned inside the body
		tArrM := gen.ArrOf(tMapN)
		picked, spare, rows := a.fresh("p"), a.fresh("sp"), a.fresh("rw")
		a.declare(rows, tArrAN, arrLit(tArrAN, arrLit(tArrN, nl(1), nl(2)), arrLit(tArrN, nl(3), nl(4)), arrLit(tArrN, nl(5))))
		a.typed(picked, tArrAN)
		a.declare(spare, tArrN, arrLit(tArrN, nl(9), nl(9)))
		a.stmts = append(a.stmts, gen.For{Var: "row", VarT: tArrN, Over: vr(rows, tArrAN), Body: []gen.Stmt{
			gen.Assign{Target: vr(picked, tArrAN), Val: gen.Binary{Op: "+", L: vr(picked, tArrAN), R: arrLit(tArrAN, vr("row", tArrN)), T: tArrAN}},
			gen.If{Conds: []gen.Expr{gen.Binary{Op: "==", L: gen.Index{X: vr("row", tArrN), I: nl(0), T: tNum}, R: nl(3), T: tBool}}, Blocks: [][]gen.Stmt{{gen.Assign{Target: vr("row", tArrN), Val: vr(spare, tArrN)}}}},
			gen.Assign{Target: gen.Index{X: vr("row", tArrN), I: nl(0), T: tNum}, Val: gen.Binary{Op: "+", L: gen.Index{X: vr("row", tArrN), I: nl(0), T: tNum}, R: nl(100), T: tNum}},
		}})
		pm, ms := a.fresh("pm"), a.fresh("ms")
		a.declare(ms, tArrM, arrLit(tArrM, gen.MapLit{T: tMapN, Keys: []string{"a"}, Vals: []gen.Expr{nl(1)}}, gen.MapLit{T: tMapN, Keys: []string{"b"}, Vals: []gen.Expr{nl(2)}}))
		a.typed(pm, tArrM)
		a.stmts = append(a.stmts, gen.For{Var: "mp", VarT: tMapN, Over: vr(ms, tArrM), Body: []gen.Stmt{
			gen.Assign{Target: vr(pm, tArrM), Val: gen.Binary{Op: "+", L: arrLit(tArrM, vr("mp", tMapN)), R: vr(pm, tArrM), T: tArrM}},
			gen.Assign{Target: gen.Dot{X: vr("mp", tMapN), Key: "seen", T: tNum}, Val: nl(1)},
		}})
	case 32: // two splits of the same (long) string are two arrays
		tx, f1, f2 := a.fresh("tx"), a.fresh("f"), a.fresh("f")
		a.declare(tx, tStr, sl([]string{"alpha,beta,gamma,delta,epsilon,zeta,eta", "a b", "one two three four five six seven eight nine ten"}[r.Intn(3)]))
		sep := []string{",", " "}[r.Intn(2)]
		a.declare(f1, tArrS, call("split", tArrS, vr(tx, tStr), sl(sep)))
		a.stmts = append(a.stmts, gen.Assign{Target: gen.Index{X: vr(f1, tArrS), I: nl(0), T: tStr}, Val: call("upper", tStr, gen.Index{X: vr(f1, tArrS), I: nl(0), T: tStr})})
		a.declare(f2, tArrS, call("split", tArrS, vr(tx, tStr), sl(sep)))
		a.stmts = append(a.stmts, gen.Assign{Target: gen.Index{X: vr(f2, tArrS), I: nl(-1), T: tStr}, Val: sl("changed")})
		a.declare(a.fresh("f"), tArrS, call("split", tArrS, vr(tx, tStr), sl(sep)))
	case 33: // map values overwritten with equal but distinct composites, then the old and the new one changed
		inner1, inner2, holder := a.fresh("in"), a.fresh("in"), a.fresh("ho")
		a.declare(inner1, tArrN, arrLit(tArrN, nl(1), nl(2)))
		a.declare(inner2, tArrN, arrLit(tArrN, nl(1), nl(2)))
		a.declare(holder, tMapAN, gen.MapLit{T: tMapAN, Keys: []string{"k"}, Vals: []gen.Expr{vr(inner1, tArrN)}})
		a.stmts = append(a.stmts, gen.Assign{Target: gen.Dot{X: vr(holder, tMapAN), Key: "k", T: tArrN}, Val: vr(inner2, tArrN)},
			gen.Assign{Target: gen.Index{X: vr(inner1, tArrN), I: nl(0), T: tNum}, Val: nl(71)},
			gen.Assign{Target: gen.Index{X: vr(inner2, tArrN), I: nl(1), T: tNum}, Val: nl(72)})
	case 30: // an array grown by concatenation, then concatenated twice: three independent arrays
		arr, _ := a.pick(tArrN)
		g := a.fresh("g")
		a.declare(g, tArrN, gen.Binary{Op: "+", L: vr(arr.Name, tArrN), R: arrLit(tArrN, nl(4)), T: tArrN})
		for k := 0; k < r.Intn(3); k++ {
			a.stmts = append(a.stmts, gen.Assign{Target: vr(g, tArrN), Val: gen.Binary{Op: "+", L: vr(g, tArrN), R: arrLit(tArrN, nl(float64(5+k))), T: tArrN}})
		}
		b1, b2 := a.fresh("g"), a.fresh("g")
		a.declare(b1, tArrN, gen.Binary{Op: "+", L: vr(g, tArrN), R: arrLit(tArrN, nl(71)), T: tArrN})
		a.declare(b2, tArrN, gen.Binary{Op: "+", L: vr(g, tArrN), R: arrLit(tArrN, nl(72), nl(73)), T: tArrN})
		a.stmts = append(a.stmts, gen.Assign{Target: gen.Index{X: vr(b1, tArrN), I: nl(0), T: tNum}, Val: nl(100)},
			gen.Assign{Target: gen.Index{X: vr(b2, tArrN), I: nl(-1), T: tNum}, Val: nl(200)},
			gen.Assign{Target: vr(g, tArrN), Val: gen.Binary{Op: "+", L: vr(g, tArrN), R: arrLit(tArrN, nl(9)), T: tArrN}})
	case 27: // results of functions that return err / errmsg, stored as literal elements
		a.needFunc("geterr")
		a.needFunc("getmsg")
		tArrB := gen.ArrOf(tBool)
		a.declare(a.fresh("eb"), tArrB, arrLit(tArrB, call("geterr", tBool, sl("1")), call("geterr", tBool, sl("x")), call("geterr", tBool, sl("2"))))
		a.declare(a.fresh("em"), tArrS, arrLit(tArrS, call("getmsg", tStr, sl("nope")), call("getmsg", tStr, sl("true")), call("getmsg", tStr, sl("zz"))))
	case 28: // ... passed as arguments to a function that runs a conversion itself
		a.needFunc("geterr")
		a.needFunc("getmsg")
		a.needFunc("report")
		a.stmts = append(a.stmts, gen.CallStmt{C: call("report", gen.TNone, call("geterr", tBool, sl("z")), call("getmsg", tStr, sl("z")))})
	case 29: // ... as map values, any values and operands
		a.needFunc("geterr")
		a.needFunc("getmsg")
		tMapB := gen.MapOf(tBool)
		a.declare(a.fresh("mb"), tMapB, gen.MapLit{T: tMapB, Keys: []string{"p", "q"}, Vals: []gen.Expr{call("geterr", tBool, sl("bad")), call("geterr", tBool, sl("3"))}})
		a.stmts = append(a.stmts, gen.Assign{Target: vr("xa", tArrA), Val: arrLit(tArrA, toAny(call("getmsg", tStr, sl("bad"))), toAny(call("geterr", tBool, sl("4"))), toAny(call("getmsg", tStr, sl("true"))))})
		a.declare(a.fresh("cat"), tStr, gen.Binary{Op: "+", L: call("getmsg", tStr, sl("l")), R: call("getmsg", tStr, sl("true")), T: tStr})
	case 24: // repetition of []any whose elements hold composites: deep copy reaches through any
		arr, _ := a.pick(tArrN)
		a.stmts = append(a.stmts, gen.Assign{Target: vr("xa", tArrA), Val: arrLit(tArrA, toAny(vr(arr.Name, tArrN)), toAny(vr("mn", tMapN)), toAny(vr("n", tNum)))})
		name := a.fresh("f")
		a.declare(name, tArrA, gen.Binary{Op: "*", L: vr("xa", tArrA), R: nl(2), T: tArrA})
		u := a.fresh("u")
		a.declare(u, tArrN, gen.Assert{X: gen.Index{X: vr(name, tArrA), I: nl(float64(3 * r.Intn(2))), T: tAny}, T: tArrN})
		a.stmts = append(a.stmts, gen.If{Conds: []gen.Expr{gen.Binary{Op: ">", L: call("len", tNum, toAny(vr(u, tArrN))), R: nl(0), T: tBool}}, Blocks: [][]gen.Stmt{{
			gen.Assign{Target: gen.Index{X: vr(u, tArrN), I: nl(0), T: tNum}, Val: nl(111)}}}})
		w := a.fresh("w")
		a.declare(w, tMapN, gen.Assert{X: gen.Index{X: vr(name, tArrA), I: nl(float64(1 + 3*r.Intn(2))), T: tAny}, T: tMapN})
		a.stmts = append(a.stmts, gen.Assign{Target: gen.Dot{X: vr(w, tMapN), Key: "rep", T: tNum}, Val: nl(112)})
	case 25: // repetition of an array of {}any whose values hold composites
		tMapA := gen.MapOf(gen.TAny)
		g := a.fresh("g")
		arr, _ := a.pick(tArrN)
		a.declare(g, tMapA, gen.MapLit{T: tMapA, Keys: []string{"k", "m"}, Vals: []gen.Expr{toAny(vr(arr.Name, tArrN)), toAny(vr("mm", tMapAN))}})
		name := a.fresh("f")
		a.declare(name, gen.ArrOf(tMapA), gen.Binary{Op: "*", L: arrLit(gen.ArrOf(tMapA), vr(g, tMapA)), R: nl(2), T: gen.ArrOf(tMapA)})
		u := a.fresh("u")
		a.declare(u, tArrN, gen.Assert{X: gen.Dot{X: gen.Index{X: vr(name, gen.ArrOf(tMapA)), I: nl(float64(r.Intn(2))), T: tMapA}, Key: "k", T: tAny}, T: tArrN})
		a.stmts = append(a.stmts, gen.If{Conds: []gen.Expr{gen.Binary{Op: ">", L: call("len", tNum, toAny(vr(u, tArrN))), R: nl(0), T: tBool}}, Blocks: [][]gen.Stmt{{
			gen.Assign{Target: gen.Index{X: vr(u, tArrN), I: nl(-1), T: tNum}, Val: nl(113)}}}})
	case 26: // repetition of a nested array holding the any variable and []any
		arr, _ := a.pick(tArrN)
		a.stmts = append(a.stmts, gen.Assign{Target: vr("x", tAny), Val: toAny(vr(arr.Name, tArrN))})
		a.stmts = append(a.stmts, gen.Assign{Target: vr("xa", tArrA), Val: arrLit(tArrA, vr("x", tAny), toAny(vr("nn", tArrAN)))})
		name := a.fresh("f")
		tAA := gen.ArrOf(tArrA)
		a.declare(name, tAA, gen.Binary{Op: "*", L: arrLit(tAA, vr("xa", tArrA)), R: nl(float64(1 + r.Intn(2))), T: tAA})
		u := a.fresh("u")
		a.declare(u, tArrAN, gen.Assert{X: gen.Index{X: gen.Index{X: vr(name, tAA), I: nl(0), T: tArrA}, I: nl(1), T: tAny}, T: tArrAN})
		a.stmts = append(a.stmts, gen.Assign{Target: gen.Index{X: gen.Index{X: vr(u, tArrAN), I: nl(0), T: tArrN}, I: nl(0), T: tNum}, Val: nl(114)})
	}
	return true
}

// update changes something through one name.
func (a *aliasProg) update(kind int) bool {
	r := a.r
	switch kind {
	case 0: // reassign a basic variable
		v, ok := a.pick(tNum)
		if !ok {
			return false
		}
		a.stmts = append(a.stmts, gen.Assign{Target: vr(v.Name, tNum), Val: gen.Binary{Op: "+", L: vr(v.Name, tNum), R: nl(1000), T: tNum}})
	case 1:
		v, ok := a.pick(tStr)
		if !ok {
			return false
		}
		a.stmts = append(a.stmts, gen.Assign{Target: vr(v.Name, tStr), Val: gen.Binary{Op: "+", L: vr(v.Name, tStr), R: sl("+"), T: tStr}})
	case 2:
		v, ok := a.pick(tBool)
		if !ok {
			return false
		}
		a.stmts = append(a.stmts, gen.Assign{Target: vr(v.Name, tBool), Val: gen.Unary{Op: "!", X: vr(v.Name, tBool)}})
	case 3: // element assignment through some array name
		v, ok := a.pick(tArrN)
		if !ok {
			return false
		}
		a.stmts = append(a.stmts, gen.If{Conds: []gen.Expr{gen.Binary{Op: ">", L: call("len", tNum, toAny(vr(v.Name, tArrN))), R: nl(0), T: tBool}}, Blocks: [][]gen.Stmt{{
			gen.Assign{Target: gen.Index{X: vr(v.Name, tArrN), I: nl(-1), T: tNum}, Val: nl(float64(200 + r.Intn(50)))}}}})
	case 4: // nested element assignment
		v, ok := a.pick(tArrAN)
		if !ok {
			return false
		}
		a.stmts = append(a.stmts, gen.Assign{Target: gen.Index{X: gen.Index{X: vr(v.Name, tArrAN), I: nl(0), T: tArrN}, I: nl(0), T: tNum}, Val: nl(float64(300 + r.Intn(50)))})
	case 5: // map field assignment / deletion
		v, ok := a.pick(tMapN)
		if !ok {
			return false
		}
		if r.Intn(2) == 0 {
			a.stmts = append(a.stmts, gen.Assign{Target: gen.Dot{X: vr(v.Name, tMapN), Key: "a", T: tNum}, Val: nl(float64(400 + r.Intn(50)))})
		} else {
			a.stmts = append(a.stmts, gen.CallStmt{C: call("del", gen.TNone, vr(v.Name, tMapN), sl([]string{"a", "b", "c"}[r.Intn(3)]))})
		}
	case 6: // through a map of arrays
		v, ok := a.pick(tMapAN)
		if !ok {
			return false
		}
		a.stmts = append(a.stmts, gen.If{Conds: []gen.Expr{call("has", tBool, vr(v.Name, tMapAN), sl("k"))}, Blocks: [][]gen.Stmt{{
			gen.Assign{Target: gen.Index{X: gen.Dot{X: vr(v.Name, tMapAN), Key: "k", T: tArrN}, I: nl(0), T: tNum}, Val: nl(float64(500 + r.Intn(50)))}}}})
	case 7: // failing conversion: err/errmsg rewritten by the runtime
		name := a.fresh("q")
		a.declare(name, tNum, call("str2num", tNum, sl("not a number")))
	case 8: // succeeding conversion: err/errmsg reset
		name := a.fresh("q")
		a.declare(name, tNum, call("str2num", tNum, sl("12")))
	case 9: // str2bool failing / succeeding
		name := a.fresh("q")
		a.declare(name, tBool, call("str2bool", tBool, sl([]string{"true", "nope", "0"}[r.Intn(3)])))
	case 10: // user assignment to err / errmsg
		if r.Intn(2) == 0 {
			a.stmts = append(a.stmts, gen.Assign{Target: vr("err", tBool), Val: gen.BoolLit{V: r.Intn(2) == 0}})
		} else {
			a.stmts = append(a.stmts, gen.Assign{Target: vr("errmsg", tStr), Val: sl("custom")})
		}
	case 11: // reassign the any variable
		a.stmts = append(a.stmts, gen.Assign{Target: vr("x", tAny), Val: toAny(sl("now a string"))})
	case 12: // element of []any reassigned
		a.stmts = append(a.stmts, gen.If{Conds: []gen.Expr{gen.Binary{Op: ">", L: call("len", tNum, toAny(vr("xa", tArrA))), R: nl(0), T: tBool}}, Blocks: [][]gen.Stmt{{
			gen.Assign{Target: gen.Index{X: vr("xa", tArrA), I: nl(0), T: tAny}, Val: toAny(gen.BoolLit{V: true})}}}})
	case 13: // replace a whole composite variable by a fresh literal: other names keep the old one
		v, ok := a.pick(tArrN)
		if !ok {
			return false
		}
		a.stmts = append(a.stmts, gen.Assign{Target: vr(v.Name, tArrN), Val: arrLit(tArrN, nl(6), nl(6))})
	}
	return true
}

func (a *aliasProg) program() *gen.Program {
	var all []gen.Stmt
	all = append(all, a.fdefs...)
	all = append(all, a.stmts...)
	return &gen.Program{Stmts: all}
}

func init() {
	core.Register(&core.Check{
		ID:    "C09",
		Level: "exploration",
		Rule: "alias programs: a prelude of basic, composite, nested and any variables, then steps (alias creation x update) with all live names (and err/errmsg) printed after every step; " +
			"quick: all (creation kind, update kind) pairs and (creation, update, creation) / (creation, creation, update) triples sampled + random 6-10 step programs; thorough: all triples; distinct = distinct canonical program texts",
		Assumptions: []string{"reference store model: immutable basic values, heap-allocated composites shared by reference (harness/ref)"},
		NumCases: func(tier string) int {
			pairs := c09Creates * c09Updates
			if tier == "thorough" {
				return pairs + c09Creates*c09Creates*c09Updates + c09Creates*c09Updates*c09Updates + 25000
			}
			return pairs + 1500 + 1000
		},
		Exhaustive: func(tier string) bool { return false },
		Run:        c09Run,
		MinEvents:  []string{"programs", "layouts_run", "effects_compared"},
	})
}

func c09Run(c *core.Ctx, i int) {
	tailStart := c09Creates*c09Updates + 1500
	if c.Tier == "thorough" {
		tailStart = c09Creates*c09Updates + c09Creates*c09Creates*c09Updates + c09Creates*c09Updates*c09Updates
	}
	if i >= tailStart && i%8 == 3 { // concatenation with aliases alive (rebinding, not growth in place)
		runTextFamily(c, "concat-aliases", concatAliasSource(c.Rng), nil)
		return
	}
	if i >= tailStart && i%8 == 1 { // slices: fresh outer array, shared composite elements
		runTextFamily(c, "slice-sharing", sliceSharingSource(c.Rng), nil)
		return
	}
	if i >= tailStart && i%8 == 5 {
		runTextFamily(c, "unary-on-stored-values", unaryOnCallSource(c.Rng), nil)
		return
	}
	if i >= tailStart && i%8 == 7 { // repetition copies nested maps, key order included
		runTextFamily(c, "repeated-maps", repeatedMapSource(c.Rng), nil)
		return
	}
	a := &aliasProg{r: c.Rng, funcs: map[string]bool{}}
	a.prelude()
	pairs := c09Creates * c09Updates
	apply := func(isCreate bool, kind int) {
		ok := false
		if isCreate {
			ok = a.create(kind)
			c.Cover("creation", fmt.Sprint(kind))
		} else {
			ok = a.update(kind)
			c.Cover("update", fmt.Sprint(kind))
		}
		if ok {
			a.show()
		}
	}
	switch {
	case i < pairs:
		ck, uk := i/c09Updates, i%c09Updates
		apply(true, ck)
		apply(false, uk)
		c.Cover("pair", fmt.Sprintf("%d/%d", ck, uk))
	case c.Tier == "thorough" && i < pairs+c09Creates*c09Creates*c09Updates:
		j := i - pairs
		apply(true, j/(c09Creates*c09Updates))
		apply(true, (j/c09Updates)%c09Creates)
		apply(false, j%c09Updates)
	case c.Tier == "thorough" && i < pairs+c09Creates*c09Creates*c09Updates+c09Creates*c09Updates*c09Updates:
		j := i - pairs - c09Creates*c09Creates*c09Updates
		apply(true, j/(c09Updates*c09Updates))
		apply(false, (j/c09Updates)%c09Updates)
		apply(false, j%c09Updates)
	case c.Tier != "thorough" && i < pairs+1500:
		// sampled triples
		apply(true, c.Rng.Intn(c09Creates))
		if c.Rng.Intn(2) == 0 {
			apply(true, c.Rng.Intn(c09Creates))
		} else {
			apply(false, c.Rng.Intn(c09Updates))
		}
		apply(false, c.Rng.Intn(c09Updates))
	default:
		n := 6 + c.Rng.Intn(5)
		for k := 0; k < n; k++ {
			if c.Rng.Intn(2) == 0 {
				apply(true, c.Rng.Intn(c09Creates))
			} else {
				apply(false, c.Rng.Intn(c09Updates))
			}
		}
	}
	runGenProgram(c, a.program(), nil, true, i < 2)
}
