package checks

import (
	"fmt"
	"math/rand"
	"strings"

	"evylang.dev/evy/pkg/bytecode"

	"verif/core"
	"verif/gen"
	"verif/mon"
	"verif/plat"
)

// C17 — emitted bytecode is well formed and the VM cannot be crashed.

func init() {
	core.Register(&core.Check{
		ID:          "C17",
		Level:       "exploration",
		Rule:        "every bytecode program emitted for (a) random programs of the compiler's subset, (b) stress shapes (loops nested 6 deep with a break and block-local variables at every level and in sibling blocks, 10^4-iteration loops) and (c) programs just below and above every 16-bit limit (constants, instruction bytes/jump distances, array and map literal lengths, globals, locals) is statically verified (decodable, operands in range, jump targets on boundaries, one abstract stack height per instruction, never negative, empty at the end) and executed under the VM trace hook (sp >= LocalCount, sp equals the statically computed height at every instruction, sp == LocalCount at the end, no Go panic) with a shadow-slot monitor (a read compiled for variable v must see a slot last written for v); (d) random Push/Pop/Define/Resolve histories on the symbol table against a scope-stack model. distinct = distinct program texts / histories",
		Assumptions: []string{"closed-form verifier; no reference interpreter involved"},
		NumCases: func(tier string) int {
			if tier == "thorough" {
				return 40000
			}
			return 1600
		},
		Run:       c17Run,
		MinEvents: []string{"bytecode_programs_verified", "instructions_verified", "vm_steps_traced", "symbol_histories", "slot_reads_checked"},
	})
}

// c17Check verifies and runs one program text; expectCompile says whether the compiler is
// required to accept it.
func c17Check(c *core.Ctx, text, kind string) {
	c.Journal(text)
	var info *mon.BCInfo
	var bcRef *bytecode.Bytecode
	lastWriter := map[string]string{}
	var notes map[int]string
	pcSP := map[int]int{}
	var traceProblem string
	steps := 0
	// compile first (so that the trace callback can use the static information)
	pre := vmRun0(text)
	if pre.goPanic != "" {
		c.Violation("compiler-crash@"+pre.site, kind+": compiler crashed: "+firstN(pre.goPanic, 200), text, nil)
		return
	}
	if pre.compileErr != nil && strings.HasPrefix(pre.compileErr.Error(), "parse: ") {
		// every program of this check is meant to be a valid Evy program
		c.Violation("harness-program-rejected", kind+": "+firstN(pre.compileErr.Error(), 200), text, nil)
		return
	}
	if pre.compileErr != nil {
		c.Event("compile_errors", 1)
		c.Cover("compile-error", kind)
		return
	}
	bcRef = pre.bc
	notes = pre.comp.VerifVarNotes()
	info = mon.VerifyBytecode(bcRef)
	c.Event("bytecode_programs_verified", 1)
	c.Event("instructions_verified", info.Instructions)
	for op := range info.Opcodes {
		c.Cover("opcode", op)
	}
	if len(info.Problems) > 0 {
		c.Violation("malformed-bytecode:"+kind+":"+msgClass(info.Problems[0]), kind+": "+strings.Join(info.Problems, "; "), text, nil)
		return
	}
	ins := bcRef.Instructions
	local := bcRef.LocalCount
	res := vmRun(text, func(ip, sp int) {
		steps++
		if traceProblem != "" {
			return
		}
		if sp < local {
			traceProblem = fmt.Sprintf("sp %d below LocalCount %d at instruction %d", sp, local, ip)
			return
		}
		if h, ok := info.Height[ip]; ok && sp-local != h && !(info.Extra[ip] > 0 && sp-local == h+info.Extra[ip]) {
			traceProblem = fmt.Sprintf("operand stack height %d at instruction %d, statically %d", sp-local, ip, h)
			return
		}
		if prev, ok := pcSP[ip]; ok && prev != sp && info.Extra[ip] == 0 {
			traceProblem = fmt.Sprintf("instruction %d visited with sp %d and %d", ip, prev, sp)
			return
		}
		pcSP[ip] = sp
		op := bytecode.Opcode(ins[ip])
		switch op {
		case bytecode.OpSetGlobal, bytecode.OpSetLocal, bytecode.OpGetGlobal, bytecode.OpGetLocal:
			slot := int(bytecode.ReadUint16(ins[ip+1:]))
			key := fmt.Sprintf("L%d", slot)
			if op == bytecode.OpSetGlobal || op == bytecode.OpGetGlobal {
				key = fmt.Sprintf("G%d", slot)
			}
			who := notes[ip]
			if op == bytecode.OpSetGlobal || op == bytecode.OpSetLocal {
				lastWriter[key] = who
			} else {
				c.Event("slot_reads_checked", 1)
				if w, ok := lastWriter[key]; ok && w != who {
					traceProblem = fmt.Sprintf("slot %s read for variable %s at instruction %d was last written for variable %s: two live variables share storage", key, who, ip, w)
				}
			}
		}
	})
	c.Event("vm_steps_traced", steps)
	if res.goPanic != "" {
		if strings.Contains(res.goPanic, "step budget") {
			c.Inconclusive(kind + ": VM step budget exceeded")
			return
		}
		c.Violation("vm-crash:"+kind+"@"+res.site, kind+": the VM crashed: "+firstN(res.goPanic, 200), text, nil)
		return
	}
	if traceProblem != "" {
		c.Violation("vm-trace:"+kind+":"+msgClass(traceProblem), kind+": "+traceProblem, text, nil)
		return
	}
	if res.runErr == nil && res.sp != local {
		c.Violation("vm-final-sp:"+kind, fmt.Sprintf("%s: sp is %d after Run, LocalCount %d", kind, res.sp, local), text, nil)
	}
	if cls := vmErrClass(res.runErr); cls == "internal" || cls == "other-error" {
		c.Violation("vm-internal-error:"+kind+":"+cls, fmt.Sprintf("%s: VM ended with %s: %v", kind, cls, res.runErr), text, nil)
	}
}

// vmRun0 compiles only.
func vmRun0(src string) (res vmResult) {
	defer func() {
		if p := recover(); p != nil {
			res.goPanic = fmt.Sprint(p)
			res.site = plat.PanicSite()
		}
	}()
	return vmCompile(src)
}

func nestedLoops(r *rand.Rand) string {
	var b strings.Builder
	b.WriteString("acc := 0\n")
	depth := 6
	kinds := make([]int, depth)
	for d := 0; d < depth; d++ {
		ind := strings.Repeat("    ", d)
		kinds[d] = r.Intn(4)
		switch kinds[d] {
		case 0:
			fmt.Fprintf(&b, "%sfor i%d := range %d\n", ind, d, 2+r.Intn(2))
		case 1:
			fmt.Fprintf(&b, "%sfor i%d := range [1 2 3]\n", ind, d)
		case 2:
			fmt.Fprintf(&b, "%sw%d := 0\n%swhile w%d < 2\n%s    w%d = w%d + 1\n", ind, d, ind, d, ind, d, d)
		case 3:
			fmt.Fprintf(&b, "%sfor i%d := range \"ab\"\n", ind, d)
		}
		in := ind + "    "
		fmt.Fprintf(&b, "%sloc%d := acc + %d\n%sacc = acc + loc%d\n", in, d, d, in, d)
		// sibling block with its own locals
		fmt.Fprintf(&b, "%sif acc %% 2 == 0\n%s    sib%d := acc\n%s    acc = acc + sib%d\n%selse\n%s    sib%db := 1\n%s    acc = acc + sib%db\n%send\n", in, in, d, in, d, in, in, d, in, d, in)
		if r.Intn(2) == 0 {
			fmt.Fprintf(&b, "%sif acc %% %d == 1\n%s    brk%d := acc\n%s    acc = acc + brk%d\n%s    break\n%send\n", in, 2+r.Intn(3), in, d, in, d, in, in)
		}
	}
	for d := depth - 1; d >= 0; d-- {
		ind := strings.Repeat("    ", d)
		in := ind + "    "
		fmt.Fprintf(&b, "%safter%d := acc\n%sacc = acc + after%d\n", in, d, in, d)
		if kinds[d] != 2 {
			fmt.Fprintf(&b, "%sused%d := i%d == i%d\n%sif used%d\n%s    acc = acc + 1\n%send\n", in, d, d, d, in, d, in, in)
		}
		fmt.Fprintf(&b, "%send\n", ind)
	}
	b.WriteString("acc = acc + 1\n")
	return b.String()
}

func limitProgram(kind string, n int) string {
	var b strings.Builder
	switch kind {
	case "constants":
		b.WriteString("x := 0\n")
		for i := 0; i < n-1; i++ {
			fmt.Fprintf(&b, "x = %d\n", i)
		}
	case "array-literal":
		b.WriteString("x := [")
		b.WriteString(strings.Repeat("1 ", n))
		b.WriteString("]\nx = x\n")
	case "map-literal":
		b.WriteString("x := {")
		for i := 0; i < n; i++ {
			fmt.Fprintf(&b, "k%d:1 ", i)
		}
		b.WriteString("}\nx = x\n")
	case "globals":
		for i := 0; i < n; i++ {
			fmt.Fprintf(&b, "g%d := true\ng%d = g%d\n", i, i, i)
		}
	case "locals":
		b.WriteString("if true\n")
		for i := 0; i < n; i++ {
			fmt.Fprintf(&b, "    l%d := true\n    l%d = l%d\n", i, i, i)
		}
		b.WriteString("end\n")
	case "loop-body-bytes":
		// a loop whose body is about n bytes of bytecode: the backward jump and the exit jump cross it
		b.WriteString("x := true\nwhile x\n    x = false\n")
		for i := 0; i < n/6; i++ {
			b.WriteString("    x = false\n") // OpFalse(1) + OpSetGlobal(3)... a few bytes each
		}
		b.WriteString("end\n")
	case "array-of-empty":
		// n empty literals as elements: each OpArray 0 pushes without popping, the last ones on a full stack
		b.WriteString("x := [" + strings.Repeat("[] ", n) + "]\nx = x\n")
	case "array-of-empty-maps":
		b.WriteString("x := [" + strings.Repeat("{} ", n) + "]\nx = x\n")
	case "map-of-empty":
		b.WriteString("x := {")
		for i := 0; i < n; i++ {
			fmt.Fprintf(&b, "k%d:[] ", i)
		}
		b.WriteString("}\nx = x\n")
	case "if-body-bytes":
		b.WriteString("x := true\nif x\n")
		for i := 0; i < n/4; i++ {
			b.WriteString("    x = false\n")
		}
		b.WriteString("else\n    x = true\nend\n")
	}
	return b.String()
}

var c17Limits = []struct {
	kind string
	n    int
}{
	{"constants", 65535}, {"constants", 65536}, {"constants", 65537}, {"constants", 70001},
	{"array-literal", 65535}, {"array-literal", 65536}, {"array-literal", 65540},
	{"map-literal", 65535}, {"map-literal", 65536},
	{"globals", 65535}, {"globals", 65536}, {"globals", 65537},
	{"locals", 2000}, {"locals", 2047}, {"locals", 2048}, {"locals", 3000}, {"locals", 65536},
	{"loop-body-bytes", 65400}, {"loop-body-bytes", 65600}, {"loop-body-bytes", 131000},
	{"if-body-bytes", 65400}, {"if-body-bytes", 65600}, {"if-body-bytes", 70000},
	{"array-of-empty", 2040}, {"array-of-empty", 2044}, {"array-of-empty", 2045}, {"array-of-empty", 2046}, {"array-of-empty", 2047}, {"array-of-empty", 2048}, {"array-of-empty", 2049}, {"array-of-empty", 2050}, {"array-of-empty", 2051}, {"array-of-empty", 4096},
	{"array-of-empty-maps", 2046}, {"array-of-empty-maps", 2047}, {"array-of-empty-maps", 2048}, {"array-of-empty-maps", 2049}, {"array-of-empty-maps", 2050},
	{"map-of-empty", 1022}, {"map-of-empty", 1023}, {"map-of-empty", 1024}, {"map-of-empty", 1025}, {"map-of-empty", 2048},
}

func c17Run(c *core.Ctx, i int) {
	r := c.Rng
	switch {
	case i < len(c17Limits):
		l := c17Limits[i]
		c.Cover("shape", "limit-"+l.kind)
		text := limitProgram(l.kind, l.n)
		c.Distinct(fmt.Sprintf("limit %s %d", l.kind, l.n))
		c17Check(c, text, fmt.Sprintf("limit-%s-%d", l.kind, l.n))
	case i%8 == 0:
		c.Cover("shape", "nested-loops")
		text := nestedLoops(r)
		c.Distinct(text)
		c17Check(c, text, "nested-loops")
	case i%8 == 1 && i%64 == 1:
		c.Cover("shape", "long-loop")
		text := "acc := 0\nfor i := range 10000\n    loc := i % 7\n    if loc == 3\n        t := acc\n        acc = t + 1\n    else\n        acc = acc + loc\n    end\nend\nw := 0\nwhile w < 10000\n    w = w + 1\n    for j := range [1 2]\n        acc = acc + j\n        if j == 1\n            break\n        end\n    end\nend\n"
		c.Distinct(text + fmt.Sprint(i))
		c17Check(c, text, "long-loop")
	case i%8 == 3 && i%16 == 3:
		// a loop placed so that its jump targets sweep over every byte offset around round numbers
		// (a placeholder value that collides with a real target, an off-by-one at a size boundary)
		c.Cover("shape", "offset-sweep")
		base := []int{9999, 255, 256, 4095, 65000, 9998, 10000, 1000}[(i/16)%8]
		off := base - 40 + r.Intn(60)
		tens, sixes := off/10, 0
		for (off-tens*10-sixes*6)%2 != 0 || off-tens*10-sixes*6 < 0 || (off-tens*10-sixes*6) > 0 && sixes < 5 {
			if off-tens*10-sixes*6 >= 6 {
				sixes++
			} else {
				break
			}
		}
		var b strings.Builder
		b.WriteString("x := 0\nn := 0\n")
		for k := 0; k < tens; k++ {
			b.WriteString("x = x + 1\n") // 10 bytes of bytecode
		}
		for k := 0; k < sixes; k++ {
			b.WriteString("x = 1\n") // 6 bytes
		}
		body := []string{
			"for range 2\n    w := 0\n    while w < 3\n        w = w + 1\n        n = n + w\n    end\nend\n",
			"for i := range 3\n    if i == 1\n        n = n + 10\n    else\n        n = n + 1\n    end\nend\nwhile n < 50\n    n = n + 7\n    if n > 40\n        break\n    end\nend\n",
			"w := 0\nwhile w < 4\n    w = w + 1\n    for j := range [1 2]\n        n = n + j\n        if j == 1\n            break\n        end\n    end\nend\n",
		}[r.Intn(3)]
		b.WriteString(body + "done := n >= 0\nif done\n    x = x + n\nend\n")
		text := b.String()
		c.Distinct(text)
		c17Check(c, text, "offset-sweep")
	case i%8 == 5 && i%16 == 5:
		// programs whose bytecode ends exactly around the 16-bit limit of jump operands, the last statement
		// an if / while / for: its jumps target the end of the program (one past the last instruction)
		c.Cover("shape", "size-boundary")
		target := 65520 + (i/16)%30
		tail := []string{"if x > 0\n    x = 0\nend\n", "while x > 5\n    x = x - 1\nend\n", "for range 2\n    x = x + 1\nend\n", "if x > 0\n    x = 0\nelse\n    x = 2\nend\n"}[r.Intn(4)]
		odd := "" // one filler statement of odd size, when the parity of the target needs it
		size := func(tens, sixes int) (int, string) {
			text := "x := 0\n" + odd + strings.Repeat("x = x + 1\n", tens) + strings.Repeat("x = 1\n", sixes) + tail
			pre := vmRun0(text)
			if pre.bc == nil {
				return -1, text
			}
			return len(pre.bc.Instructions), text
		}
		s0, _ := size(0, 0)
		s1, _ := size(1, 0)
		s2, _ := size(0, 1)
		if s0 < 0 || s1 <= s0 || s2 <= s0 {
			c.Violation("harness-program-rejected", "size-boundary: the small base program does not compile", tail, nil)
			return
		}
		dt, ds := s1-s0, s2-s0
		if (target-s0)%2 != 0 && dt%2 == 0 && ds%2 == 0 {
			for _, f := range []string{"x = -x\n", "x = x\n", "x = -x + 1\n", "x = x + 1 + 1\n", "x = [x][0]\n"} {
				odd = f
				if so, _ := size(0, 0); so > 0 && (so-s0)%2 != 0 {
					s0 = so
					break
				}
				odd = ""
			}
		}
		need := target - s0
		sixes := 0
		for sixes < dt && (need-sixes*ds)%dt != 0 {
			sixes++
		}
		if (need-sixes*ds)%dt != 0 || need-sixes*ds < 0 {
			c.Event("size_boundary_unreachable", 1)
			return
		}
		tens := (need - sixes*ds) / dt
		text := "x := 0\n" + odd + strings.Repeat("x = x + 1\n", tens) + strings.Repeat("x = 1\n", sixes) + tail
		if got, _ := size(tens, sixes); got >= 0 && got != target {
			c.Event("size_boundary_missed", 1)
		}
		c.Cover("bytecode-size", fmt.Sprint(target))
		c.Distinct(fmt.Sprintf("size-boundary %d %q", target, tail))
		c17Check(c, text, "size-boundary")
		// and the VM must compute what the evaluator computes (a jump truncated to the start of the program
		// re-runs it for ever: the step budget of the VM run reports that)
		if pre := vmRun0(text); pre.compileErr == nil && pre.goPanic == "" {
			c.Event("size_boundary_programs_compiled", 1)
			c16Compare(c, text, []gen.VarInfo{{Name: "x", T: tNum, Len: -1}}, "size-boundary:")
		}
	case i%8 == 4 && i%32 == 4:
		// strings with characters of several bytes: whatever the VM computes, it must not crash
		c.Cover("shape", "non-ascii-strings")
		str := []string{"héllo", "日本", "ab🌍", "🌍", "é", "aé", "x\u0301y"}[r.Intn(7)]
		text := "s := \"" + str + "\"\nacc := \"\"\ncnt := 0\nfor ch := range s\n    acc = acc + ch\n    cnt = cnt + 1\nend\nfor range s\n    cnt = cnt + 1\nend\n" +
			"t := s + s\nfor ch := range t\n    acc = acc + ch\n    cnt = cnt + 1\n    if cnt > 100\n        break\n    end\nend\nu := s[0]\nv := s[:1]\nw := s[-1]\nacc = acc + u + v + w\n"
		c.Distinct(text)
		c17Check(c, text, "non-ascii")
	case i%8 == 2:
		c17Symbols(c)
	default:
		c.Cover("shape", "random-subset-program")
		g := &vmGen{unsafe: 0.05, zeroStep: true}
		prog, _ := vmProgram(r, g)
		text := gen.Print(prog, nil)
		c.Distinct(text)
		c17Check(c, text, "random")
		if i < 6 {
			c.Sample(map[string]any{"shape": "random-subset-program", "program": firstN(text, 500)})
		}
	}
}

// c17Symbols runs a random history of symbol table operations against a scope-stack model.
func c17Symbols(c *core.Ctx) {
	r := c.Rng
	c.Event("symbol_histories", 1)
	c.Cover("shape", "symbol-history")
	type msym struct {
		scope string
		index int
	}
	st := bytecode.NewSymbolTable()
	model := []map[string]msym{{}}
	names := []string{"a", "b", "c", "d", "e", "f"}
	var hist []string
	maxLocal := -1
	n := 20 + r.Intn(180)
	fail := func(why string) {
		c.Violation("symbol-table:"+msgClass(why), why, strings.Join(hist, " "), nil)
	}
	for k := 0; k < n; k++ {
		switch op := r.Intn(10); {
		case op < 2 && len(model) < 9:
			hist = append(hist, "push")
			st = st.Push()
			model = append(model, map[string]msym{})
		case op < 4 && len(model) > 1:
			hist = append(hist, "pop")
			st = st.Pop()
			model = model[:len(model)-1]
		case op < 7:
			name := names[r.Intn(len(names))]
			hist = append(hist, "define "+name)
			sym := st.Define(name)
			top := model[len(model)-1]
			want := "LOCAL"
			if len(model) == 1 {
				want = "GLOBAL"
			}
			if string(sym.Scope) != want {
				fail(fmt.Sprintf("Define %s at depth %d returned scope %s", name, len(model)-1, sym.Scope))
				return
			}
			if prev, ok := top[name]; ok {
				if prev.index != sym.Index {
					fail(fmt.Sprintf("re-Define of %s changed its index %d -> %d", name, prev.index, sym.Index))
					return
				}
			} else {
				top[name] = msym{want, sym.Index}
				if want == "LOCAL" && sym.Index > maxLocal {
					maxLocal = sym.Index
				}
			}
		default:
			name := names[r.Intn(len(names))]
			hist = append(hist, "resolve "+name)
			sym, ok := st.Resolve(name)
			var want *msym
			for d := len(model) - 1; d >= 0; d-- {
				if s, found := model[d][name]; found {
					want = &s
					break
				}
			}
			if (want != nil) != ok {
				fail(fmt.Sprintf("Resolve %s: found=%v, model says %v", name, ok, want != nil))
				return
			}
			if ok && (string(sym.Scope) != want.scope || sym.Index != want.index) {
				fail(fmt.Sprintf("Resolve %s returned (%s,%d), the innermost definition is (%s,%d)", name, sym.Scope, sym.Index, want.scope, want.index))
				return
			}
		}
		// all simultaneously resolvable symbols occupy distinct slots
		seen := map[string]string{}
		for _, name := range names {
			if sym, ok := st.Resolve(name); ok {
				key := fmt.Sprintf("%s%d", sym.Scope, sym.Index)
				if other, dup := seen[key]; dup {
					fail(fmt.Sprintf("variables %s and %s are resolvable at the same time and share slot %s", other, name, key))
					return
				}
				seen[key] = name
			}
		}
		c.Event("symbol_operations", 1)
	}
	for len(model) > 1 {
		st = st.Pop()
		model = model[:len(model)-1]
		hist = append(hist, "pop")
	}
	_, nested := st.VerifState()
	if nested < maxLocal+1 {
		fail(fmt.Sprintf("after all pops the root reports %d local slots but local index %d was handed out", nested, maxLocal))
	}
	c.Distinct(strings.Join(hist, " "))
}
