package checks

import (
	"fmt"
	"math/rand"
	"sort"
	"strconv"
	"strings"

	"evylang.dev/evy/pkg/parser"

	"verif/conv"
	"verif/core"
	"verif/gen"
	"verif/mon"
	"verif/plat"
	"verif/ref"
)

// C01 — expressions evaluate as the language definition prescribes.

func init() {
	core.Register(&core.Check{
		ID:    "C01",
		Level: "exploration",
		Rule: "type-directed random expression trees (depth <= 5) over all operators and operand types with effectful probes in operands, arguments and literal elements, each program rendered under the canonical layout and 3 random legal layouts (optional whitespace, redundant parentheses, comments); " +
			"expected trace from the reference interpreter evaluating the generator's own tree; the parsed tree is also compared with the generator's tree. distinct = distinct canonical program texts; non-trivial = contains at least one binary operator",
		Assumptions: []string{
			"the reference interpreter (harness/ref) is the transcription of docs/spec.md; calibrated on the corpus and documentation examples",
			"numbers are compared by value where the spelling of NaN/Inf/huge values is not documented",
		},
		NumCases: func(tier string) int {
			if tier == "thorough" {
				return 40000 + 2*14*14
			}
			return 1500 + 2*14*14
		},
		Run:       c01Run,
		MinEvents: []string{"programs", "layouts_run", "effects_compared", "trees_compared"},
	})
}

type progBuilder struct {
	r     *rand.Rand
	g     *gen.ExprGen
	stmts []gen.Stmt
	nvar  int
}

// c01Prelude declares variables of every type and the effectful probes.
func c01Prelude(r *rand.Rand) *progBuilder {
	b := &progBuilder{r: r, g: gen.NewExprGen(r)}
	g := b.g
	add := func(name string, t *gen.Type, init gen.Expr, v gen.VarInfo) {
		b.stmts = append(b.stmts, gen.Decl{Name: name, T: t, Init: init})
		v.Name, v.T = name, t
		g.Vars = append(g.Vars, v)
	}
	num := func(v float64) gen.Expr {
		if v < 0 {
			return gen.Unary{Op: "-", X: gen.NumLit{V: -v}}
		}
		return gen.NumLit{V: v}
	}
	nums := []float64{3, -2.5, 0, 7, 0.5, 10, -1, 100}
	r.Shuffle(len(nums), func(i, j int) { nums[i], nums[j] = nums[j], nums[i] })
	add("n1", gen.TNum, num(nums[0]), gen.VarInfo{Len: -1})
	add("n2", gen.TNum, num(nums[1]), gen.VarInfo{Len: -1})
	strs := []string{"ab", "aé🌍", "", "hello", "Z", "x y"}
	r.Shuffle(len(strs), func(i, j int) { strs[i], strs[j] = strs[j], strs[i] })
	add("s1", gen.TStr, gen.StrLit{V: strs[0]}, gen.VarInfo{Len: len([]rune(strs[0]))})
	add("s2", gen.TStr, gen.StrLit{V: strs[1]}, gen.VarInfo{Len: len([]rune(strs[1]))})
	add("b1", gen.TBool, gen.BoolLit{V: r.Intn(2) == 0}, gen.VarInfo{Len: -1})
	add("b2", gen.TBool, gen.BoolLit{V: r.Intn(2) == 0}, gen.VarInfo{Len: -1})
	an := 1 + r.Intn(4)
	lit := gen.ArrLit{T: gen.ArrOf(gen.TNum)}
	for i := 0; i < an; i++ {
		lit.Elems = append(lit.Elems, num(float64(r.Intn(9))))
	}
	add("an", gen.ArrOf(gen.TNum), lit, gen.VarInfo{Len: an})
	add("as", gen.ArrOf(gen.TStr), gen.ArrLit{T: gen.ArrOf(gen.TStr), Elems: []gen.Expr{gen.StrLit{V: "x"}, gen.StrLit{V: "yé"}}}, gen.VarInfo{Len: 2})
	add("ab", gen.ArrOf(gen.TBool), gen.ArrLit{T: gen.ArrOf(gen.TBool), Elems: []gen.Expr{gen.BoolLit{V: true}, gen.BoolLit{V: false}, gen.BoolLit{V: true}}}, gen.VarInfo{Len: 3})
	add("nn", gen.ArrOf(gen.ArrOf(gen.TNum)), gen.ArrLit{T: gen.ArrOf(gen.ArrOf(gen.TNum)), Elems: []gen.Expr{
		gen.ArrLit{T: gen.ArrOf(gen.TNum), Elems: []gen.Expr{gen.NumLit{V: 1}, gen.NumLit{V: 2}}},
		gen.ArrLit{T: gen.ArrOf(gen.TNum), Elems: []gen.Expr{gen.NumLit{V: 3}}}}}, gen.VarInfo{Len: 2})
	add("mn", gen.MapOf(gen.TNum), gen.MapLit{T: gen.MapOf(gen.TNum), Keys: []string{"a", "b", "end"}, Vals: []gen.Expr{gen.NumLit{V: 1}, gen.NumLit{V: 2.5}, gen.NumLit{V: 9}}}, gen.VarInfo{Keys: []string{"a", "b", "end"}})
	add("ms", gen.MapOf(gen.TStr), gen.MapLit{T: gen.MapOf(gen.TStr), Keys: []string{"k", "name"}, Vals: []gen.Expr{gen.StrLit{V: "v"}, gen.StrLit{V: "é"}}}, gen.VarInfo{Keys: []string{"k", "name"}})
	// any variables holding different dynamic types
	b.stmts = append(b.stmts, gen.Decl{Name: "x1", T: gen.TAny, Typed: true}, gen.Assign{Target: gen.VarRef{Name: "x1", T: gen.TAny}, Val: gen.ToAny{X: num(float64(r.Intn(5)))}})
	g.Vars = append(g.Vars, gen.VarInfo{Name: "x1", T: gen.TAny, Holds: gen.TNum, Len: -1})
	b.stmts = append(b.stmts, gen.Decl{Name: "x2", T: gen.TAny, Typed: true}, gen.Assign{Target: gen.VarRef{Name: "x2", T: gen.TAny}, Val: gen.ToAny{X: gen.StrLit{V: "any-s"}}})
	g.Vars = append(g.Vars, gen.VarInfo{Name: "x2", T: gen.TAny, Holds: gen.TStr, Len: -1})
	b.stmts = append(b.stmts, gen.Decl{Name: "x3", T: gen.TAny, Typed: true})
	g.Vars = append(g.Vars, gen.VarInfo{Name: "x3", T: gen.TAny, Holds: gen.TBool, Len: -1})
	// probes: print a tag and return the argument
	probe := func(name string, t *gen.Type) {
		b.stmts = append(b.stmts, gen.FuncDef{Name: name, Params: []gen.Param{{Name: "v", T: t}}, Ret: t, Body: []gen.Stmt{
			gen.CallStmt{C: gen.Call{Name: "print", T: gen.TNone, Args: []gen.Expr{gen.ToAny{X: gen.StrLit{V: name}}, gen.ToAny{X: gen.VarRef{Name: "v", T: t}}}}},
			gen.Return{Val: gen.VarRef{Name: "v", T: t}},
		}})
		g.Funcs = append(g.Funcs, gen.FuncInfo{Name: name, Params: []*gen.Type{t}, Ret: t})
	}
	probe("pn", gen.TNum)
	probe("ps", gen.TStr)
	probe("pb", gen.TBool)
	probe("pa", gen.ArrOf(gen.TNum))
	return b
}

func printCall(args ...gen.Expr) gen.Stmt {
	c := gen.Call{Name: "print", T: gen.TNone}
	for _, a := range args {
		if a.Ty().K != gen.Any {
			a = gen.ToAny{X: a}
		}
		c.Args = append(c.Args, a)
	}
	return gen.CallStmt{C: c}
}

func (b *progBuilder) fresh(prefix string) string {
	b.nvar++
	return fmt.Sprintf("%s%d", prefix, b.nvar)
}

// addExprStmt adds one statement that evaluates and shows a random expression in a random
// syntactic context.
func (b *progBuilder) addExprStmt(depth int) {
	g, r := b.g, b.r
	t := []*gen.Type{gen.TNum, gen.TNum, gen.TStr, gen.TBool, gen.TBool, gen.ArrOf(gen.TNum), gen.MapOf(gen.TNum), gen.ArrOf(gen.TStr), gen.ArrOf(gen.ArrOf(gen.TNum))}[r.Intn(9)]
	e := g.Expr(t, depth)
	switch r.Intn(7) {
	case 0, 1: // call argument (tight)
		b.stmts = append(b.stmts, printCall(gen.StrLit{V: "arg"}, e, g.Expr(gen.TNum, 1)))
	case 2: // inferred declaration (loose)
		name := b.fresh("r")
		b.stmts = append(b.stmts, gen.Decl{Name: name, T: t, Init: e}, printCall(gen.VarRef{Name: name, T: t}))
	case 3: // assignment to a typed variable
		name := b.fresh("t")
		b.stmts = append(b.stmts, gen.Decl{Name: name, T: t, Typed: true}, gen.Assign{Target: gen.VarRef{Name: name, T: t}, Val: e}, printCall(gen.VarRef{Name: name, T: t}))
	case 4: // condition
		cond := g.Expr(gen.TBool, depth)
		b.stmts = append(b.stmts, gen.If{Conds: []gen.Expr{cond}, Blocks: [][]gen.Stmt{{printCall(gen.StrLit{V: "T"}, e)}}, Else: []gen.Stmt{printCall(gen.StrLit{V: "F"})}})
	case 5: // array element and map value positions
		lit := gen.ArrLit{T: gen.ArrOf(t), Elems: []gen.Expr{e, g.Expr(t, 1)}}
		b.stmts = append(b.stmts, printCall(lit))
		if !t.IsComposite() {
			m := gen.MapLit{T: gen.MapOf(t), Keys: []string{"p", "q"}, Vals: []gen.Expr{g.Expr(t, depth-1), g.Expr(t, 1)}}
			b.stmts = append(b.stmts, printCall(m))
		}
	case 6: // inside an index and a slice
		idx := gen.Binary{Op: "%", L: gen.Call{Name: "abs", T: gen.TNum, Args: []gen.Expr{gen.Call{Name: "floor", T: gen.TNum, Args: []gen.Expr{g.Expr(gen.TNum, depth-1)}}}}, R: gen.NumLit{V: 3}, T: gen.TNum}
		b.stmts = append(b.stmts, printCall(gen.Index{X: gen.VarRef{Name: "ab", T: gen.ArrOf(gen.TBool)}, I: idx, T: gen.TBool}))
	}
}

var binOps = []string{"or", "and", "==", "!=", "<", "<=", ">", ">=", "+", "-", "*", "/", "%"}

// pairProgram builds the systematic (outer, inner, side) operator pair programs: for every pair
// of binary operators a tree outer(inner(a,b),c) or outer(a,inner(b,c)), where types allow.
func pairExpr(outer, inner string, right bool, r *rand.Rand) (gen.Expr, bool) {
	operandType := func(op string) []*gen.Type { // possible operand types
		switch op {
		case "or", "and":
			return []*gen.Type{gen.TBool}
		case "==", "!=":
			return []*gen.Type{gen.TNum, gen.TBool, gen.TStr}
		case "<", "<=", ">", ">=":
			return []*gen.Type{gen.TNum, gen.TStr}
		case "+":
			return []*gen.Type{gen.TNum, gen.TStr}
		}
		return []*gen.Type{gen.TNum}
	}
	resultType := func(op string, operand *gen.Type) *gen.Type {
		switch op {
		case "or", "and", "==", "!=", "<", "<=", ">", ">=":
			return gen.TBool
		}
		return operand
	}
	leaf := func(t *gen.Type) gen.Expr {
		switch t.K {
		case gen.Num:
			return gen.Call{Name: "pn", T: gen.TNum, Args: []gen.Expr{gen.NumLit{V: float64(1 + r.Intn(9))}}}
		case gen.Str:
			return gen.Call{Name: "ps", T: gen.TStr, Args: []gen.Expr{gen.StrLit{V: string(rune('a' + r.Intn(5)))}}}
		}
		return gen.Call{Name: "pb", T: gen.TBool, Args: []gen.Expr{gen.BoolLit{V: r.Intn(2) == 0}}}
	}
	for _, it := range operandType(inner) {
		innerRes := resultType(inner, it)
		for _, ot := range operandType(outer) {
			if !ot.Eq(innerRes) {
				continue
			}
			in := gen.Binary{Op: inner, L: leaf(it), R: leaf(it), T: innerRes}
			if right {
				return gen.Binary{Op: outer, L: leaf(ot), R: in, T: resultType(outer, ot)}, true
			}
			return gen.Binary{Op: outer, L: in, R: leaf(ot), T: resultType(outer, ot)}, true
		}
	}
	return nil, false
}

func c01Run(c *core.Ctx, i int) {
	r := c.Rng
	if i%40 == 9 { // spellings of number literals: always decimal, whatever zeros lead or trail
		c.Cover("family", "number-literal-spellings")
		c01Literals(c)
		return
	}
	if i%40 == 19 { // operands read from globals that a later operand's call assigns
		c.Cover("family", "operand-order-with-assignment")
		runGenProgram(c, operandOrderProgram(r), nil, true, false)
		return
	}
	if i%40 == 29 { // unary operators on calls / elements whose value lives in a global, element or entry
		runTextFamily(c, "unary-on-stored-values", unaryOnCallSource(r), nil)
		return
	}
	if i%40 == 34 { // equality is by value, also between a composite and itself
		runTextFamily(c, "self-equality", selfEqualitySource(r), nil)
		return
	}
	if i%40 == 39 { // deep equality of any values with different dynamic types
		c.Cover("family", "any-equality")
		runGenProgram(c, anyEqProgram(r), nil, true, false)
		return
	}
	b := c01Prelude(r)
	npairs := 2 * len(binOps) * len(binOps)
	nontrivial := false
	if i < npairs {
		outer, inner, right := binOps[(i/2)%len(binOps)], binOps[(i/2)/len(binOps)%len(binOps)], i%2 == 1
		e, ok := pairExpr(outer, inner, right, r)
		if !ok {
			c.Event("pair_not_typable", 1)
			return
		}
		side := "L"
		if right {
			side = "R"
		}
		c.Cover("op-pair", outer+"/"+inner+"/"+side)
		b.stmts = append(b.stmts, printCall(e))
		name := b.fresh("r")
		b.stmts = append(b.stmts, gen.Decl{Name: name, T: e.Ty(), Init: e}, printCall(gen.VarRef{Name: name, T: e.Ty()}))
		nontrivial = true
	} else {
		n := 4 + r.Intn(8)
		for k := 0; k < n; k++ {
			b.addExprStmt(2 + r.Intn(4))
		}
		nontrivial = len(b.g.Ops) > 0
	}
	// every declared variable must be used: show the final value of all of them
	var all []gen.Expr
	for _, v := range b.g.Vars {
		all = append(all, gen.VarRef{Name: v.Name, T: v.T})
	}
	b.stmts = append(b.stmts, printCall(all...))
	prog := &gen.Program{Stmts: b.stmts}
	for k, v := range b.g.Ops {
		for n := 0; n < v; n++ {
			c.Cover("operator", k)
		}
	}
	keys := make([]string, 0, len(b.g.Pairs))
	for k := range b.g.Pairs {
		keys = append(keys, k)
	}
	sort.Strings(keys)
	for _, k := range keys {
		c.Cover("op-pair", k)
	}
	runGenProgram(c, prog, nil, nontrivial, i < 3)
}

// runGenProgram is the common monitor for generator-built programs: reference outcome vs the
// evaluator's outcome under several layouts, and parsed tree vs generator tree.
func runGenProgram(c *core.Ctx, prog *gen.Program, inputs []string, nontrivial, sample bool) {
	c.Event("programs", 1)
	canon := gen.Print(prog, nil)
	if nontrivial {
		c.Distinct(canon)
	}
	in := ref.New()
	in.Inputs = inputs
	in.MaxSteps = 300000
	want := in.Run(prog, nil)
	if want.Unknown != "" || want.Class == "ref-budget" {
		c.Event("not_judged_by_reference", 1)
	}
	c.Cover("expected-class", strings.SplitN(want.Class, ":", 2)[0])
	nlay := 4
	for k := 0; k < nlay; k++ {
		var lay *gen.Layout
		if k > 0 {
			lay = gen.RandomLayout(rand.New(rand.NewSource(c.Rng.Int63())))
			if k == 1 {
				lay.Parens = 0 // only optional whitespace and comments
			}
		}
		text := canon
		if k > 0 {
			text = gen.Print(prog, lay)
		}
		c.Journal(text)
		o := plat.Run(text, plat.Opts{Inputs: inputs, YieldBudget: 400000, MaxEvents: 50000})
		c.Event("layouts_run", 1)
		if o.Class == "parse-error" {
			c.Violation("well-typed-program-rejected", "generated program rejected under layout "+fmt.Sprint(k)+": "+firstN(o.ErrText, 300), text, map[string]any{"canonical": canon})
			return
		}
		if o.Class == "gopanic" {
			c.Violation("gopanic@"+o.Site, "Go panic while parsing/evaluating: "+firstN(o.GoPanic, 200), text, nil)
			return
		}
		// tree: the parsed program, converted back, must print canonically like the generator's tree
		if o.Prog != nil {
			if back, err := conv.Program(o.Prog); err == nil {
				c.Event("trees_compared", 1)
				if got := gen.Print(stripParens(back), nil); got != gen.Print(stripParens(prog), nil) {
					c.Violation("tree-differs", "the parser's tree differs from the tree the text was printed from: "+firstDiff(gen.Print(stripParens(prog), nil), got), text, map[string]any{"canonical": canon})
					return
				}
			}
		}
		judged, ok, why := mon.Compare(o, want)
		if !judged {
			continue
		}
		c.Event("effects_compared", len(o.Events))
		if !ok {
			c.Violation("trace-differs", why, text, map[string]any{"canonical": canon, "layout": k})
			return
		}
	}
	if sample {
		c.Sample(map[string]any{"program": firstN(canon, 600), "expected_effects": len(want.Events), "expected_class": want.Class})
	}
	var _ *parser.Program
}

// stripParens removes explicit Paren nodes (semantically neutral) from a program.
func stripParens(p *gen.Program) *gen.Program {
	return &gen.Program{Stmts: mapStmts(p.Stmts)}
}

func mapStmts(ss []gen.Stmt) []gen.Stmt {
	if ss == nil {
		return nil
	}
	out := make([]gen.Stmt, 0, len(ss))
	for _, s := range ss {
		switch s := s.(type) {
		case gen.Decl:
			if s.Init != nil {
				s.Init = sp(s.Init)
			}
			out = append(out, s)
		case gen.Assign:
			s.Target, s.Val = sp(s.Target), sp(s.Val)
			out = append(out, s)
		case gen.CallStmt:
			s.C = sp(s.C).(gen.Call)
			out = append(out, s)
		case gen.If:
			n := gen.If{Else: mapStmts(s.Else)}
			for k := range s.Conds {
				n.Conds = append(n.Conds, sp(s.Conds[k]))
				n.Blocks = append(n.Blocks, mapStmts(s.Blocks[k]))
			}
			out = append(out, n)
		case gen.While:
			out = append(out, gen.While{Cond: sp(s.Cond), Body: mapStmts(s.Body)})
		case gen.For:
			n := s
			n.Body = mapStmts(s.Body)
			n.Args = nil
			for _, a := range s.Args {
				n.Args = append(n.Args, sp(a))
			}
			if s.Over != nil {
				n.Over = sp(s.Over)
			}
			out = append(out, n)
		case gen.Return:
			if s.Val != nil {
				s.Val = sp(s.Val)
			}
			out = append(out, s)
		case gen.FuncDef:
			s.Body = mapStmts(s.Body)
			out = append(out, s)
		case gen.Handler:
			s.Body = mapStmts(s.Body)
			out = append(out, s)
		case gen.Comment, gen.Blank:
		default:
			out = append(out, s)
		}
	}
	return out
}

func sp(e gen.Expr) gen.Expr {
	switch e := e.(type) {
	case gen.Paren:
		return sp(e.X)
	case gen.ToAny:
		return sp(e.X) // conversions are implicit in the text
	case gen.Unary:
		e.X = sp(e.X)
		return e
	case gen.Binary:
		e.L, e.R = sp(e.L), sp(e.R)
		return e
	case gen.Index:
		e.X, e.I = sp(e.X), sp(e.I)
		return e
	case gen.Slice:
		e.X = sp(e.X)
		if e.Lo != nil {
			e.Lo = sp(e.Lo)
		}
		if e.Hi != nil {
			e.Hi = sp(e.Hi)
		}
		return e
	case gen.Dot:
		e.X = sp(e.X)
		return e
	case gen.Assert:
		e.X = sp(e.X)
		return e
	case gen.ArrLit:
		n := gen.ArrLit{T: e.T, Multi: false}
		for _, x := range e.Elems {
			n.Elems = append(n.Elems, sp(x))
		}
		return n
	case gen.MapLit:
		n := gen.MapLit{T: e.T, Keys: e.Keys}
		for _, x := range e.Vals {
			n.Vals = append(n.Vals, sp(x))
		}
		return n
	case gen.Call:
		n := gen.Call{Name: e.Name, T: e.T}
		for _, x := range e.Args {
			n.Args = append(n.Args, sp(x))
		}
		return n
	}
	return e
}

// c01Literals: number literals are decimal numbers; leading and trailing zeros change nothing.
func c01Literals(c *core.Ctx) {
	r := c.Rng
	type lit struct {
		src string
		val float64
	}
	pool := []lit{{"010", 10}, {"0755", 755}, {"007", 7}, {"08", 8}, {"019", 19}, {"010.0", 10}, {"1.50", 1.5}, {"00", 0}, {"0.50", 0.5}, {"0100", 100}, {"017", 17}, {"0012.250", 12.25},
		{"9007199254740993", 9007199254740992}, {"0.1", 0.1}, {"100", 100}, {"0777", 777}, {"01", 1}, {"0000000012", 12}, {"12.000", 12}, {"0.000001", 0.000001}}
	r.Shuffle(len(pool), func(a, b int) { pool[a], pool[b] = pool[b], pool[a] })
	pool = pool[:6+r.Intn(8)]
	var src strings.Builder
	var want []string
	src.WriteString("print")
	for _, l := range pool {
		src.WriteString(" " + l.src)
		want = append(want, ref.FormatNum(l.val))
	}
	src.WriteString("\n")
	a, b := pool[0], pool[1]
	src.WriteString(fmt.Sprintf("print %s+%s (%s==%s) [%s %s] {k:%s}\n", a.src, b.src, a.src, ref.FormatNum(a.val), a.src, b.src, b.src))
	wantLine2 := fmt.Sprintf("%s true [%s %s] {k:%s}", ref.FormatNum(a.val+b.val), ref.FormatNum(a.val), ref.FormatNum(b.val), ref.FormatNum(b.val))
	text := src.String()
	c.Event("programs", 1)
	c.Distinct(text)
	c.Journal(text)
	o := plat.Run(text, plat.Opts{YieldBudget: 10000})
	c.Event("layouts_run", 1)
	wantEvents := []string{"print " + strconv.Quote(strings.Join(want, " ")+"\n"), "print " + strconv.Quote(wantLine2+"\n")}
	c.Event("effects_compared", len(o.Events))
	if o.Class != "ok" || len(o.Events) != 2 || !mon.SameText(o.Events[0], wantEvents[0]) || !mon.SameText(o.Events[1], wantEvents[1]) {
		c.Violation("trace-differs", fmt.Sprintf("number literals: expected %v, got %s %q %v", wantEvents, o.Class, o.ErrText, o.Events), text, nil)
	}
}
