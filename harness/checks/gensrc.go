package checks

import (
	"math/rand"
	"strings"

	"verif/core"
	"verif/gen"
)

// Generator-backed sources for the formatter checks: programs from the C01/C09/C10/C12/C16
// generators (own AST, so the printer knows where whitespace, comments and line breaks are
// optional) rendered under a random legal layout, plus statements with empty and multi-line
// literals.
func init() {
	genSource = func(c *core.Ctx, i int) (string, bool) {
		r := c.Rng
		var prog *gen.Program
		switch (i / 3) % 6 {
		case 5:
			// constant expressions in positions where they are converted to another composite type
			// (arguments, elements, map values, assignments): tight operators must stay tight
			head := "func takes a:[]any\n    print a\nend\nfunc takesm m:{}any\n    print m\nend\nfunc vari a:[]any...\n    print a\nend\nz:[]any\nw:[][]any\n"
			lines := []string{
				"takes [1]+[2]", "takes [0]*3", "takes ([1 2])", "takes [1 2][:1]", "takesm {a:1}", "vari [1]+[2] [3]*2", "vari [1] [2]+[3] ([4])",
				"print [[1]+[2] [\"a\"]]", "print {a:[1]+[2] b:[\"x\"]}", "z = [1]+[2]", "z = [[1]+[2] [3]][0]", "w = [[]]+[[1]]", "w = [[1]+[2]]*2",
				"print \"\\xff\" \"caf\\xe9\" (\"\\xf0\\x9f\"+\"\\x98\\x80\") \"a\\x80b\"", "print \"\\u200d\" \"\\t\\n\\\\\" \"\\U0001F600\" \"\\x00\\x7f\"",
				"print [1]+[2] [3]*2 -1", "print [[1]*2 [\"s\"]+[\"t\"]] {k:[true]+[false] l:[1]}", "print z w",
			}
			r.Shuffle(len(lines), func(a, b int) { lines[a], lines[b] = lines[b], lines[a] })
			src := head + strings.Join(lines[:6+r.Intn(len(lines)-6)], "\n") + "\nprint z w\n"
			if !acceptedQuiet(src) {
				c.Violation("generated-layout-rejected", "a program of constant expressions in converting positions is rejected", src, nil)
				return "", false
			}
			return src, true
		case 0:
			b := c01Prelude(r)
			for k := 0; k < 3+r.Intn(6); k++ {
				b.addExprStmt(2 + r.Intn(3))
			}
			var all []gen.Expr
			for _, v := range b.g.Vars {
				all = append(all, vr(v.Name, v.T))
			}
			b.stmts = append(b.stmts, printCall(all...))
			prog = &gen.Program{Stmts: b.stmts}
		case 1:
			prog = cfProgram(c, 2+r.Intn(3))
		case 2:
			a := &aliasProg{r: r, funcs: map[string]bool{}}
			a.prelude()
			for k := 0; k < 5; k++ {
				if r.Intn(2) == 0 {
					if a.create(r.Intn(c09Creates)) {
						a.show()
					}
				} else if a.update(r.Intn(c09Updates)) {
					a.show()
				}
			}
			prog = a.program()
		case 3:
			g := &vmGen{unsafe: 0.02}
			prog, _ = vmProgram(r, g)
		default:
			// literals: empty, nested empty, multi-line arrays and maps in every statement position
			tMapA := gen.MapOf(tAny)
			ml := func(e gen.Expr) gen.Expr {
				switch l := e.(type) {
				case gen.ArrLit:
					l.Multi = r.Intn(2) == 0
					return l
				case gen.MapLit:
					l.Multi = r.Intn(2) == 0
					return l
				}
				return e
			}
			stmts := []gen.Stmt{
				gen.Decl{Name: "e1", T: tArrN, Typed: true},
				gen.Assign{Target: vr("e1", tArrN), Val: arrLit(tArrN)},
				gen.Decl{Name: "e2", T: tMapA, Typed: true},
				gen.Assign{Target: vr("e2", tMapA), Val: gen.MapLit{T: tMapA}},
				gen.Decl{Name: "e3", T: tArrAN, Typed: true},
				gen.Assign{Target: vr("e3", tArrAN), Val: ml(arrLit(tArrAN, arrLit(tArrN), ml(arrLit(tArrN, nl(1), nl(2))), arrLit(tArrN)))},
				gen.Decl{Name: "e4", T: tArrN, Init: ml(arrLit(tArrN, nl(1), nl(2), nl(3)))},
				gen.Decl{Name: "e5", T: tMapN, Init: ml(gen.MapLit{T: tMapN, Keys: []string{"a", "b", "end"}, Vals: []gen.Expr{nl(1), nl(2), nl(3)}})},
				gen.Decl{Name: "e6", T: gen.MapOf(tArrN), Init: ml(gen.MapLit{T: gen.MapOf(tArrN), Keys: []string{"p", "q"}, Vals: []gen.Expr{ml(arrLit(tArrN, nl(1))), arrLit(tArrN, nl(2), nl(3))}})},
				gen.If{Conds: []gen.Expr{gen.Binary{Op: "==", L: vr("e1", tArrN), R: arrLit(tArrN), T: tBool}}, Blocks: [][]gen.Stmt{{
					gen.Assign{Target: vr("e4", tArrN), Val: ml(arrLit(tArrN, nl(7), nl(8)))},
					printCall(ml(arrLit(tArrN, nl(1), nl(2))), vr("e4", tArrN)),
				}}},
				printCall(vr("e1", tArrN), vr("e2", tMapA), vr("e3", tArrAN), vr("e4", tArrN), vr("e5", tMapN), vr("e6", gen.MapOf(tArrN))),
			}
			prog = &gen.Program{Stmts: stmts}
		}
		lay := gen.RandomLayout(rand.New(rand.NewSource(r.Int63())))
		lay.Comments = 0.3
		lay.OwnLine = 0.2
		src := gen.Print(prog, lay)
		if !acceptedQuiet(src) {
			// a layout the printer believes legal but the parser rejects: report through the caller
			c.Violation("generated-layout-rejected", "a generated program under a legal layout is rejected", src, nil)
			return "", false
		}
		return src, true
	}
}
