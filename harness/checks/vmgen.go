package checks

import (
	"fmt"
	"math/rand"
	"strings"

	"verif/gen"
)

// vmGen generates programs inside the subset the bytecode compiler translates today: inferred
// declarations, assignment to variables and indexes, numeric/string operators and comparisons,
// ==/!=, unary operators, array and map literals, index, slice, concatenation, repetition,
// if/else-if/else, while, the four range loops, break, nested block scopes with shadowing.
//
// It stays out of the regions fenced off by open findings (D23), see the avoid* flags.
type vmGen struct {
	r       *rand.Rand
	scopes  [][]gen.VarInfo
	n       int
	loops   int
	budget  int
	globals []gen.VarInfo
	unsafe  float64
	// regions of open findings
	nonASCII     bool // D23a: VM indexes/slices/ranges strings by byte
	mapInsert    bool // D23b: m[k] = v for a new key does not extend the VM map's key order
	zeroStep     bool // D23c: range with step 0 is a no-op on the VM, a panic in the evaluator
	nestedRepeat bool // D23d: repetition shares nested arrays on the VM
	mapMutation  bool // D23e: mutation of a map while ranging over it
}

func (g *vmGen) fresh(p string) string { g.n++; return fmt.Sprintf("%s%d", p, g.n) }

func (g *vmGen) visible(t *gen.Type) []gen.VarInfo {
	seen := map[string]bool{}
	var out []gen.VarInfo
	for i := len(g.scopes) - 1; i >= 0; i-- {
		for j := len(g.scopes[i]) - 1; j >= 0; j-- {
			v := g.scopes[i][j]
			if seen[v.Name] {
				continue
			}
			seen[v.Name] = true
			if t == nil || v.T.Eq(t) {
				out = append(out, v)
			}
		}
	}
	return out
}

func (g *vmGen) declare(name string, t *gen.Type, ln int) {
	g.scopes[len(g.scopes)-1] = append(g.scopes[len(g.scopes)-1], gen.VarInfo{Name: name, T: t, Len: ln})
}

func (g *vmGen) str() string {
	pool := []string{"", "a", "ab", "xyz", "hello", "Q", "0", "1", "3", "true", "2.5"}
	if g.nonASCII {
		pool = append(pool, "é", "aé🌍")
	}
	return pool[g.r.Intn(len(pool))]
}

func (g *vmGen) num(depth int) gen.Expr {
	vs := g.visible(tNum)
	switch k := g.r.Intn(9); {
	case depth > 0 && k < 3:
		op := []string{"+", "-", "*"}[g.r.Intn(3)]
		return gen.Binary{Op: op, L: g.num(depth - 1), R: g.num(depth - 1), T: tNum}
	case depth > 0 && k == 3:
		// division and modulo by a non-zero literal (by zero is an error on the VM only)
		op := []string{"/", "%"}[g.r.Intn(2)]
		return gen.Binary{Op: op, L: g.num(depth - 1), R: nl(float64(1 + g.r.Intn(4))), T: tNum}
	case depth > 0 && k == 4:
		return gen.Unary{Op: "-", X: g.num(depth - 1)}
	case depth > 0 && k == 5:
		if as := g.visible(tArrN); len(as) > 0 {
			a := as[g.r.Intn(len(as))]
			if a.Len > 0 || g.r.Float64() < g.unsafe {
				return gen.Index{X: vr(a.Name, tArrN), I: g.index(a.Len), T: tNum}
			}
		}
	case depth > 0 && k == 6:
		if ms := g.visible(tMapN); len(ms) > 0 {
			m := ms[g.r.Intn(len(ms))]
			key := "a"
			if len(m.Keys) > 0 {
				key = m.Keys[g.r.Intn(len(m.Keys))]
			}
			if g.r.Float64() < g.unsafe {
				key = "missing"
			}
			return gen.Index{X: vr(m.Name, tMapN), I: sl(key), T: tNum}
		}
	case len(vs) > 0 && k < 8:
		return vr(vs[g.r.Intn(len(vs))].Name, tNum)
	}
	return nl(float64(g.r.Intn(7)))
}

func (g *vmGen) index(n int) gen.Expr {
	if g.r.Float64() < g.unsafe || n <= 0 {
		return nl([]float64{-9, 9, 0.5, 100}[g.r.Intn(4)])
	}
	return nl(float64(g.r.Intn(2*n) - n))
}

func (g *vmGen) strExpr(depth int) gen.Expr {
	vs := g.visible(tStr)
	switch k := g.r.Intn(6); {
	case depth > 0 && k < 2 && g.loops == 0: // no concatenation inside loops: sizes would grow exponentially
		return gen.Binary{Op: "+", L: g.strExpr(depth - 1), R: g.strExpr(depth - 1), T: tStr}
	case depth > 0 && k == 2 && len(vs) > 0:
		v := vs[g.r.Intn(len(vs))]
		if v.Len > 0 {
			return gen.Index{X: vr(v.Name, tStr), I: g.index(v.Len), T: tStr}
		}
	case depth > 0 && k == 3:
		s := g.str()
		n := len([]rune(s))
		a := g.r.Intn(n + 1)
		b := a + g.r.Intn(n-a+1)
		sl2 := gen.Slice{X: sl(s)}
		if g.r.Intn(3) > 0 {
			sl2.Lo = nl(float64(a))
		}
		if g.r.Intn(3) > 0 {
			sl2.Hi = nl(float64(b))
		}
		if g.r.Float64() < g.unsafe {
			sl2.Lo, sl2.Hi = nl(float64(b+1)), nl(float64(a))
		}
		return sl2
	case len(vs) > 0 && k < 5:
		return vr(vs[g.r.Intn(len(vs))].Name, tStr)
	}
	return sl(g.str())
}

func (g *vmGen) boolExpr(depth int) gen.Expr {
	vs := g.visible(tBool)
	switch k := g.r.Intn(8); {
	case k < 3:
		return gen.Binary{Op: []string{"<", "<=", ">", ">=", "==", "!="}[g.r.Intn(6)], L: g.num(depth), R: g.num(depth), T: tBool}
	case k == 3:
		return gen.Binary{Op: []string{"<", "<=", ">", ">=", "==", "!="}[g.r.Intn(6)], L: g.strExpr(depth), R: g.strExpr(depth), T: tBool}
	case k == 4 && depth > 0:
		return gen.Unary{Op: "!", X: g.boolExpr(depth - 1)}
	case k == 5:
		return gen.Binary{Op: []string{"==", "!="}[g.r.Intn(2)], L: g.arrExpr(depth), R: g.arrExpr(depth), T: tBool}
	case k == 6 && len(vs) > 0:
		return vr(vs[g.r.Intn(len(vs))].Name, tBool)
	}
	return gen.BoolLit{V: g.r.Intn(2) == 0}
}

func (g *vmGen) arrExpr(depth int) gen.Expr {
	vs := g.visible(tArrN)
	switch k := g.r.Intn(7); {
	case depth > 0 && k == 0 && g.loops == 0:
		return gen.Binary{Op: "+", L: g.arrExpr(depth - 1), R: g.arrExpr(depth - 1), T: tArrN}
	case depth > 0 && k == 1 && g.loops == 0:
		cnt := nl(float64(g.r.Intn(3)))
		if g.r.Float64() < g.unsafe {
			cnt = nl([]float64{-1, 0.5}[g.r.Intn(2)])
		}
		return gen.Binary{Op: "*", L: g.arrExpr(depth - 1), R: cnt, T: tArrN}
	case depth > 0 && k == 2 && len(vs) > 0:
		v := vs[g.r.Intn(len(vs))]
		if v.Len >= 0 {
			a := g.r.Intn(v.Len + 1)
			return gen.Slice{X: vr(v.Name, tArrN), Lo: nl(float64(a)), Hi: nl(float64(a + g.r.Intn(v.Len-a+1)))}
		}
	case len(vs) > 0 && k < 5:
		return vr(vs[g.r.Intn(len(vs))].Name, tArrN)
	}
	lit := arrLit(tArrN)
	for i := 0; i < g.r.Intn(4); i++ {
		lit.Elems = append(lit.Elems, g.num(depth-1))
	}
	if len(lit.Elems) == 0 {
		lit.Elems = append(lit.Elems, nl(1))
	}
	return lit
}

// exprOf returns an expression and, for arrays/strings whose length is statically known, that
// length (-1 otherwise).
func (g *vmGen) exprOf(t *gen.Type, depth int) (gen.Expr, int) {
	switch t.K {
	case gen.Num:
		return g.num(depth), -1
	case gen.Str:
		e := g.strExpr(depth)
		if l, ok := e.(gen.StrLit); ok {
			return e, len([]rune(l.V))
		}
		return e, -1
	case gen.Bool:
		return g.boolExpr(depth), -1
	case gen.Arr:
		e := g.arrExpr(depth)
		if l, ok := e.(gen.ArrLit); ok {
			return e, len(l.Elems)
		}
		return e, -1
	}
	panic("vmgen type")
}

func (g *vmGen) block(depth int) []gen.Stmt {
	g.scopes = append(g.scopes, nil)
	defer func() { g.scopes = g.scopes[:len(g.scopes)-1] }()
	return g.stmts(depth, 1+g.r.Intn(4))
}

func (g *vmGen) accumulate() gen.Stmt {
	// make the effect of control flow visible in a global
	return gen.Assign{Target: vr("acc", tNum), Val: gen.Binary{Op: "+", L: gen.Binary{Op: "*", L: vr("acc", tNum), R: nl(3), T: tNum}, R: g.num(1), T: tNum}}
}

func (g *vmGen) stmts(depth, n int) []gen.Stmt {
	var out []gen.Stmt
	for k := 0; k < n; k++ {
		switch c := g.r.Intn(12); {
		case c < 2: // declaration (possibly shadowing)
			t := []*gen.Type{tNum, tStr, tBool, tArrN}[g.r.Intn(4)]
			name := g.fresh("v")
			if vis := g.visible(nil); len(vis) > 0 && len(g.scopes) > 1 && g.r.Intn(4) == 0 {
				cand := vis[g.r.Intn(len(vis))].Name
				dup := false
				for _, v := range g.scopes[len(g.scopes)-1] {
					if v.Name == cand {
						dup = true
					}
				}
				if !dup && cand != "acc" && cand != "used" && cand != "sacc" && !strings.HasPrefix(cand, "w") {
					name = cand
				}
			}
			e, ln := g.exprOf(t, 2)
			out = append(out, gen.Decl{Name: name, T: t, Init: e})
			g.declare(name, t, ln)
		case c < 5: // assignment to a visible variable
			vis := g.visible(nil)
			if len(vis) == 0 {
				continue
			}
			v := vis[g.r.Intn(len(vis))]
			if v.T.K == gen.Map || v.Name == "used" || strings.HasPrefix(v.Name, "w") || (v.T.K == gen.Arr && !v.T.Eq(tArrN)) {
				continue // loop counters are only changed by their loop
			}
			e, ln := g.exprOf(v.T, 2)
			out = append(out, gen.Assign{Target: vr(v.Name, v.T), Val: e})
			g.setLen(v.Name, ln)
		case c == 5: // element assignment
			if as := g.visible(tArrN); len(as) > 0 {
				a := as[g.r.Intn(len(as))]
				if a.Len > 0 || g.r.Float64() < g.unsafe {
					out = append(out, gen.Assign{Target: gen.Index{X: vr(a.Name, tArrN), I: g.index(a.Len), T: tNum}, Val: g.num(1)})
				}
			}
		case c == 6: // map value overwrite (existing key)
			if ms := g.visible(tMapN); len(ms) > 0 {
				m := ms[g.r.Intn(len(ms))]
				key := m.Keys[g.r.Intn(len(m.Keys))]
				if g.mapInsert && g.r.Intn(2) == 0 {
					key = g.fresh("nk")
				}
				out = append(out, gen.Assign{Target: gen.Index{X: vr(m.Name, tMapN), I: sl(key), T: tNum}, Val: g.num(1)})
			}
		default:
			if depth <= 0 || g.budget <= 0 {
				out = append(out, g.accumulate())
				continue
			}
			g.budget--
			out = append(out, g.construct(depth-1)...)
		}
	}
	out = append(out, g.accumulate())
	// every variable declared in this scope must be used; == is type agnostic in both implementations
	for _, v := range g.scopes[len(g.scopes)-1] {
		if v.Name == "used" {
			continue
		}
		out = append(out, gen.Assign{Target: vr("used", tBool), Val: gen.Binary{Op: "==", L: vr("used", tBool), R: gen.Binary{Op: "==", L: vr(v.Name, v.T), R: vr(v.Name, v.T), T: tBool}, T: tBool}})
	}
	if g.loops > 0 && g.r.Intn(3) == 0 {
		out = append(out, gen.If{Conds: []gen.Expr{g.boolExpr(1)}, Blocks: [][]gen.Stmt{{g.accumulate(), gen.Break{}}}})
	}
	return out
}

func (g *vmGen) setLen(name string, ln int) {
	for i := len(g.scopes) - 1; i >= 0; i-- {
		for j := range g.scopes[i] {
			if g.scopes[i][j].Name == name {
				g.scopes[i][j].Len = ln
				return
			}
		}
	}
}

func (g *vmGen) construct(depth int) []gen.Stmt {
	switch g.r.Intn(7) {
	case 0:
		s := gen.If{Conds: []gen.Expr{g.boolExpr(1)}, Blocks: [][]gen.Stmt{g.block(depth)}}
		for k := 0; k < g.r.Intn(3); k++ {
			s.Conds = append(s.Conds, g.boolExpr(1))
			s.Blocks = append(s.Blocks, g.block(depth))
		}
		if g.r.Intn(2) == 0 {
			s.Else = g.block(depth)
		}
		return []gen.Stmt{s}
	case 1:
		w := g.fresh("w")
		g.declare(w, tNum, -1)
		limit := float64(1 + g.r.Intn(4))
		g.loops++
		g.scopes = append(g.scopes, nil)
		body := append([]gen.Stmt{gen.Assign{Target: vr(w, tNum), Val: gen.Binary{Op: "+", L: vr(w, tNum), R: nl(1), T: tNum}}}, g.stmts(depth, 1+g.r.Intn(3))...)
		g.scopes = g.scopes[:len(g.scopes)-1]
		g.loops--
		return []gen.Stmt{gen.Decl{Name: w, T: tNum, Init: nl(0)}, gen.While{Cond: gen.Binary{Op: "<", L: vr(w, tNum), R: nl(limit), T: tBool}, Body: body}}
	case 2:
		f := gen.For{}
		switch g.r.Intn(4) {
		case 0:
			f.Args = []gen.Expr{nl(float64(g.r.Intn(5)))}
		case 1:
			f.Args = []gen.Expr{nl(float64(g.r.Intn(3))), nl(float64(g.r.Intn(6)))}
		case 2:
			f.Args = []gen.Expr{nl(float64(g.r.Intn(3))), nl(float64(2 + g.r.Intn(5))), nl([]float64{1, 2, 0.5}[g.r.Intn(3)])}
		case 3:
			f.Args = []gen.Expr{nl(float64(3 + g.r.Intn(3))), nl(float64(g.r.Intn(2))), nl(-1)}
		}
		if g.zeroStep && g.r.Intn(14) == 0 {
			f.Args = []gen.Expr{nl(0), nl(3), nl(0)}
		}
		return g.forLoop(f, tNum, depth)
	case 3:
		e, _ := g.exprOf(tArrN, 1)
		return g.forLoop(gen.For{Over: e}, tNum, depth)
	case 4:
		return g.forLoop(gen.For{Over: sl(g.str())}, tStr, depth)
	case 5:
		if ms := g.visible(tMapN); len(ms) > 0 {
			m := ms[g.r.Intn(len(ms))]
			return g.forLoop(gen.For{Over: vr(m.Name, tMapN)}, tStr, depth)
		}
	}
	return []gen.Stmt{g.accumulate()}
}

func (g *vmGen) forLoop(f gen.For, vt *gen.Type, depth int) []gen.Stmt {
	g.loops++
	g.scopes = append(g.scopes, nil)
	if g.r.Intn(4) > 0 {
		f.Var, f.VarT = g.fresh("i"), vt
		g.declare(f.Var, vt, -1)
	}
	f.Body = g.stmts(depth, 1+g.r.Intn(3))
	if f.Var != "" {
		// use the loop variable
		switch vt.K {
		case gen.Num:
			f.Body = append(f.Body, gen.Assign{Target: vr("acc", tNum), Val: gen.Binary{Op: "+", L: vr("acc", tNum), R: vr(f.Var, tNum), T: tNum}})
		case gen.Str:
			f.Body = append(f.Body, gen.Assign{Target: vr("sacc", tStr), Val: gen.Binary{Op: "+", L: vr("sacc", tStr), R: vr(f.Var, tStr), T: tStr}})
		}
	}
	g.scopes = g.scopes[:len(g.scopes)-1]
	g.loops--
	return []gen.Stmt{f}
}

// vmProgram returns the program text shared by both implementations and the names of the
// globals declared at top level.
func vmProgram(r *rand.Rand, g *vmGen) (*gen.Program, []gen.VarInfo) {
	g.r = r
	g.scopes = [][]gen.VarInfo{nil}
	g.budget = 6 + r.Intn(8)
	var top []gen.Stmt
	decl := func(name string, t *gen.Type, e gen.Expr, ln int, keys []string) {
		top = append(top, gen.Decl{Name: name, T: t, Init: e})
		g.scopes[0] = append(g.scopes[0], gen.VarInfo{Name: name, T: t, Len: ln, Keys: keys})
	}
	decl("used", tBool, gen.BoolLit{V: true}, -1, nil)
	decl("acc", tNum, nl(1), -1, nil)
	decl("sacc", tStr, sl(""), 0, nil)
	decl("n1", tNum, nl(float64(r.Intn(9))), -1, nil)
	decl("s1", tStr, sl("hello"), 5, nil)
	decl("b1", tBool, gen.BoolLit{V: r.Intn(2) == 0}, -1, nil)
	decl("a1", tArrN, arrLit(tArrN, nl(3), nl(1), nl(4)), 3, nil)
	decl("m1", tMapN, gen.MapLit{T: tMapN, Keys: []string{"a", "b", "c"}, Vals: []gen.Expr{nl(1), nl(2), nl(3)}}, -1, []string{"a", "b", "c"})
	decl("nn1", tArrAN, arrLit(tArrAN, arrLit(tArrN, nl(1), nl(2)), arrLit(tArrN, nl(3))), 2, nil)
	if g.nestedRepeat {
		top = append(top, gen.Decl{Name: "rep", T: tArrAN, Init: gen.Binary{Op: "*", L: vr("nn1", tArrAN), R: nl(2), T: tArrAN}},
			gen.Assign{Target: gen.Index{X: gen.Index{X: vr("rep", tArrAN), I: nl(0), T: tArrN}, I: nl(0), T: tNum}, Val: nl(99)})
		g.scopes[0] = append(g.scopes[0], gen.VarInfo{Name: "rep", T: tArrAN, Len: 4})
	}
	if g.mapMutation {
		top = append(top, gen.For{Var: "mk", VarT: tStr, Over: vr("m1", tMapN), Body: []gen.Stmt{
			gen.Assign{Target: gen.Index{X: vr("m1", tMapN), I: gen.Binary{Op: "+", L: vr("mk", tStr), R: sl("x"), T: tStr}, T: tNum}, Val: nl(7)},
			gen.Assign{Target: vr("sacc", tStr), Val: gen.Binary{Op: "+", L: vr("sacc", tStr), R: vr("mk", tStr), T: tStr}}}})
	}
	if r.Intn(2) == 0 {
		// results of +, * and slicing are fresh arrays also when an operand is empty: writing through
		// the result must not change the operand (and the other way round)
		one := func(name string, e gen.Expr, idx int, val float64) {
			decl(name, tArrN, e, 3, nil)
			top = append(top, gen.Assign{Target: gen.Index{X: vr(name, tArrN), I: nl(float64(idx)), T: tNum}, Val: nl(val)})
		}
		decl("e0", tArrN, gen.Slice{X: vr("a1", tArrN), Hi: nl(0)}, 0, nil)
		cands := []func(){
			func() { one("c1", gen.Binary{Op: "+", L: vr("a1", tArrN), R: arrLit(tArrN), T: tArrN}, 0, 77) },
			func() { one("c2", gen.Binary{Op: "+", L: arrLit(tArrN), R: vr("a1", tArrN), T: tArrN}, 1, 88) },
			func() { one("c3", gen.Binary{Op: "+", L: vr("e0", tArrN), R: vr("a1", tArrN), T: tArrN}, 2, 99) },
			func() { one("c4", gen.Binary{Op: "+", L: vr("a1", tArrN), R: vr("e0", tArrN), T: tArrN}, -1, 66) },
			func() { one("c5", gen.Slice{X: vr("a1", tArrN)}, 0, 55) },
			func() { one("c6", gen.Binary{Op: "*", L: vr("a1", tArrN), R: nl(1), T: tArrN}, 1, 44) },
			func() {
				decl("c7", tArrN, gen.Binary{Op: "+", L: vr("a1", tArrN), R: vr("e0", tArrN), T: tArrN}, 3, nil)
				top = append(top, gen.Assign{Target: gen.Index{X: vr("a1", tArrN), I: nl(2), T: tNum}, Val: nl(33)})
			},
		}
		for _, k := range r.Perm(len(cands))[:2+r.Intn(3)] {
			cands[k]()
		}
	}
	if r.Intn(3) == 0 {
		// arithmetic on operands that are not exactly representable, map equality across insertion orders
		decl("md1", tNum, gen.Binary{Op: "%", L: nl([]float64{1, 5.5, 7.25, 0.7}[r.Intn(4)]), R: nl([]float64{0.1, 0.3, 0.7}[r.Intn(3)]), T: tNum}, -1, nil)
		decl("md2", tNum, gen.Binary{Op: "%", L: nl(10000000000000000000000), R: nl(float64(3 + r.Intn(9))), T: tNum}, -1, nil)
		decl("md3", tNum, gen.Binary{Op: "%", L: gen.Unary{Op: "-", X: nl(7.5)}, R: nl(2), T: tNum}, -1, nil)
		decl("md4", tNum, gen.Binary{Op: "/", L: nl(1), R: nl(3), T: tNum}, -1, nil)
		decl("mq1", tMapN, gen.MapLit{T: tMapN, Keys: []string{"x", "y", "z"}, Vals: []gen.Expr{nl(1), nl(2), nl(3)}}, -1, []string{"x", "y", "z"})
		decl("mq2", tMapN, gen.MapLit{T: tMapN, Keys: []string{"z", "x", "y"}, Vals: []gen.Expr{nl(3), nl(1), nl(2)}}, -1, []string{"z", "x", "y"})
		decl("mq3", tMapN, gen.MapLit{T: tMapN, Keys: []string{"x", "y", "w"}, Vals: []gen.Expr{nl(1), nl(2), nl(3)}}, -1, []string{"x", "y", "w"})
		decl("beq", tBool, gen.Binary{Op: "==", L: vr("mq1", tMapN), R: vr("mq2", tMapN), T: tBool}, -1, nil)
		decl("bne", tBool, gen.Binary{Op: "!=", L: vr("mq2", tMapN), R: vr("mq1", tMapN), T: tBool}, -1, nil)
		decl("bk", tBool, gen.Binary{Op: "==", L: vr("mq1", tMapN), R: vr("mq3", tMapN), T: tBool}, -1, nil)
	}
	top = append(top, g.stmts(3, 3+r.Intn(5))...)
	globals := append([]gen.VarInfo(nil), g.scopes[0]...)
	g.globals = globals
	return &gen.Program{Stmts: top}, globals
}
