package checks

import (
	"fmt"
	"os"
	"path/filepath"
	"regexp"
	"strings"

	"evylang.dev/evy/pkg/evaluator"
	"evylang.dev/evy/pkg/parser"

	"verif/core"
	"verif/gen"
	"verif/plat"
)

// C05 — invalid programs are rejected and nothing of them runs.

func init() {
	core.Register(&core.Check{
		ID:          "C05",
		Level:       "exploration",
		Rule:        "a valid generated base program (effects at the very start and in every block, functions, an event handler, graphics calls) plus exactly one rule-breaking edit from a catalogue of 36 edit kinds (undeclared/unused variable, variable of a sibling if-branch, redeclaration incl. parameters, repeated handler parameter names, err / errmsg declared in nested scopes, as parameters and as loop variables, parameter without the colon between name and type, loop variables, built-in globals and function names, type mismatches, argument counts, missing return at the end and in a single branch of an if/else-if/else chain, unreachable code (directly after the terminating statement and after comment / blank lines), break outside a loop, return value in a procedure/handler/top level, bare return in a function and at top level (directly and inside top-level blocks, before and after handlers), unknown function, call of a procedure used as a value (element, map value, operand, argument, declaration), stray tokens after statements, after func / on headers (also after a variadic marker) and after every kind of end, assignment to a character of a string element, anonymous handler parameter of the wrong type, two statements on one line, non-bool condition), applied at every line where the rule applies; each case runs in-process through Evaluator.Run with the recording platform and, sampled, through the real `evy run` (with and without --svg-out). distinct = distinct (edit kind, line kind, error message shape)",
		Assumptions: []string{"base programs are produced by the C10 generator (accepted by construction; a rejected base is reported as a harness failure)"},
		NeedsEvy:    true,
		NumCases: func(tier string) int {
			if tier == "thorough" {
				return 1600
			}
			return 32
		},
		Run:       c05Run,
		MinEvents: []string{"edits", "rejected_without_effects", "cli_runs"},
	})
}

var identRe = regexp.MustCompile(`^[a-z][a-zA-Z0-9_]*$`)

type c05Line struct {
	text   string
	indent string
	kind   string // decl, typed, assign, call, if, elseif, else, while, for, func, on, end, return, break, other
	inLoop bool
	inFunc string // "", "proc", "func" (has return type), "on"
	endOf  string // for end lines: construct closed
	endRet bool   // return line that is the last statement of a function body
}

func classifyLines(src string) []c05Line {
	lines := strings.Split(strings.TrimSuffix(src, "\n"), "\n")
	var out []c05Line
	var stack []string
	fn := ""
	for _, l := range lines {
		trim := strings.TrimLeft(l, " ")
		cl := c05Line{text: l, indent: l[:len(l)-len(trim)], kind: "other"}
		first := strings.SplitN(trim, " ", 2)[0]
		switch {
		case first == "func":
			cl.kind = "func"
			fn = "proc"
			if strings.Contains(strings.SplitN(trim, " ", 3)[1], ":") {
				fn = "func"
			}
			stack = append(stack, "func")
		case first == "on":
			cl.kind = "on"
			fn = "on"
			stack = append(stack, "on")
		case first == "if":
			cl.kind = "if"
			stack = append(stack, "if")
		case strings.HasPrefix(trim, "else if"):
			cl.kind = "elseif"
		case first == "else":
			cl.kind = "else"
		case first == "while":
			cl.kind = "while"
			stack = append(stack, "while")
		case first == "for":
			cl.kind = "for"
			stack = append(stack, "for")
		case first == "end":
			cl.kind = "end"
			if len(stack) > 0 {
				cl.endOf = stack[len(stack)-1]
				stack = stack[:len(stack)-1]
				if cl.endOf == "func" || cl.endOf == "on" {
					fn = ""
				}
			}
		case first == "return":
			cl.kind = "return"
		case first == "break":
			cl.kind = "break"
		case strings.Contains(trim, " := "):
			cl.kind = "decl"
		case strings.Contains(trim, " = "):
			cl.kind = "assign"
		case identRe.MatchString(strings.SplitN(first, ":", 2)[0]) && strings.Contains(first, ":") && !strings.Contains(trim, " "):
			cl.kind = "typed"
		case identRe.MatchString(first):
			cl.kind = "call"
		}
		for _, s := range stack {
			if s == "while" || s == "for" {
				cl.inLoop = true
			}
		}
		// loops inside a function do not count for code outside; and a func resets loops
		cl.inFunc = fn
		out = append(out, cl)
	}
	for i := range out {
		if out[i].kind == "return" && i+1 < len(out) && out[i+1].kind == "end" && out[i+1].endOf == "func" {
			out[i].endRet = true
		}
	}
	return out
}

type c05Edit struct {
	kind  string
	apply func(ls []c05Line, i int) (string, bool) // returns the new program text
}

func joinLines(ls []c05Line, mod func(i int, l c05Line) []string) string {
	var b strings.Builder
	for i, l := range ls {
		for _, s := range mod(i, l) {
			b.WriteString(s)
			b.WriteString("\n")
		}
	}
	return b.String()
}

func insertAfter(ls []c05Line, at int, text string) string {
	return joinLines(ls, func(i int, l c05Line) []string {
		if i == at {
			ind := l.indent
			switch l.kind {
			case "if", "elseif", "else", "while", "for", "func", "on":
				ind += "    "
			}
			return []string{l.text, ind + text}
		}
		return []string{l.text}
	})
}

func replaceLine(ls []c05Line, at int, text ...string) string {
	return joinLines(ls, func(i int, l c05Line) []string {
		if i == at {
			return text
		}
		return []string{l.text}
	})
}

func l0(l c05Line) string { return l.indent }

func simple(l c05Line) bool {
	return l.kind == "decl" || l.kind == "assign" || l.kind == "call" || l.kind == "typed"
}

func c05Edits() []c05Edit {
	ins := func(kind, text string, ok func(l c05Line) bool) c05Edit {
		return c05Edit{kind, func(ls []c05Line, i int) (string, bool) {
			if ok != nil && !ok(ls[i]) {
				return "", false
			}
			if ls[i].kind == "return" || ls[i].kind == "break" {
				return "", false // would also be unreachable code: keep exactly one broken rule
			}
			return insertAfter(ls, i, text), true
		}}
	}
	any := func(l c05Line) bool { return true }
	return []c05Edit{
		ins("undeclared-read", "print undeclared_q", any),
		ins("undeclared-write", "undeclared_q = 1", any),
		ins("unused-variable", "unused_q := 1", any),
		ins("unknown-function", "nosuchfn_q 1", any),
		ins("type-mismatch-operator", "print 1+\"a\"", any),
		ins("type-mismatch-argument", "print (len 1)", func(l c05Line) bool { return false }), // len takes any: not an error
		ins("type-mismatch-argument", "print (abs \"x\")", any),
		ins("too-many-arguments", "print (abs 1 2)", any),
		ins("too-few-arguments", "print (min 1)", any),
		ins("break-outside-loop", "break", func(l c05Line) bool { return !l.inLoop && l.kind != "if" && l.kind != "elseif" && l.kind != "else" }),
		ins("return-value-in-procedure", "return 1", func(l c05Line) bool { return l.inFunc == "proc" || l.inFunc == "on" }),
		ins("return-at-top-level", "return 1", func(l c05Line) bool { return l.inFunc == "" && l.indent == "" && l.kind == "end" }),
		ins("bare-return-at-top-level", "return", func(l c05Line) bool { return l.inFunc == "" }),
		ins("procedure-call-as-value", "print [(noret_q)]", any),
		ins("procedure-call-as-value", "print {a:(noret_q)}", func(l c05Line) bool { return l.kind == "decl" || l.kind == "end" }),
		ins("procedure-call-as-value", "print (noret_q)==(noret_q)", func(l c05Line) bool { return l.kind == "decl" || l.kind == "end" }),
		ins("procedure-call-as-value", "print [1 (noret_q)]+[2]", func(l c05Line) bool { return l.kind == "decl" || l.kind == "end" }),
		ins("procedure-call-as-value", "pv_q := (noret_q)", any),
		ins("procedure-call-as-value", "print (noret_q)", func(l c05Line) bool { return l.kind == "decl" || l.kind == "end" }),
		ins("assign-to-string-element", "sarr_q[0][1] = \"x\"", func(l c05Line) bool { return l.kind == "decl" || l.kind == "end" }),
		ins("assign-to-string-element", "smap_q.name[0] = \"x\"", func(l c05Line) bool { return l.kind == "assign" || l.kind == "end" }),
		ins("assign-to-string-element", "smap_q[\"name\"][-1] = \"x\"", func(l c05Line) bool { return l.kind == "call" }),
		ins("redeclare-builtin-global", "err := true", any),
		ins("redeclare-function-name", "pnum := 1", any),
		ins("assign-to-function", "pnum = 1", any),
		{"bare-return-in-function", func(ls []c05Line, i int) (string, bool) {
			if !ls[i].endRet {
				return "", false
			}
			return replaceLine(ls, i, ls[i].indent+"return"), true
		}},
		{"missing-return", func(ls []c05Line, i int) (string, bool) {
			if !ls[i].endRet {
				return "", false
			}
			return replaceLine(ls, i, ls[i].indent+"print \"no return\""), true
		}},
		{"missing-return-in-branch", func(ls []c05Line, i int) (string, bool) {
			if ls[i].kind != "return" || !strings.Contains(ls[i].text, "return  ") {
				return "", false
			}
			return replaceLine(ls, i, ls[i].indent+"print \"no return in this branch\""), true
		}},
		{"sibling-branch-variable", func(ls []c05Line, i int) (string, bool) {
			// a variable declared (and used) in one branch of an if statement does not exist in a later branch
			if ls[i].kind != "elseif" && ls[i].kind != "else" {
				return "", false
			}
			j := i - 1
			for j >= 0 && !(ls[j].kind == "if" && ls[j].indent == ls[i].indent) {
				j--
			}
			if j < 0 {
				return "", false
			}
			return joinLines(ls, func(k int, l c05Line) []string {
				switch k {
				case j:
					return []string{l.text, l.indent + "    sib_q := 1", l.indent + "    print sib_q"}
				case i:
					return []string{l.text, l.indent + "    print sib_q"}
				}
				return []string{l.text}
			}), true
		}},
		{"unreachable-code", func(ls []c05Line, i int) (string, bool) {
			if ls[i].kind != "return" && ls[i].kind != "break" {
				return "", false
			}
			return joinLines(ls, func(j int, l c05Line) []string {
				if j == i {
					return []string{l.text, l.indent + "print \"unreachable\""}
				}
				return []string{l.text}
			}), true
		}},
		{"unreachable-code-after-comment", func(ls []c05Line, i int) (string, bool) {
			if ls[i].kind != "return" && ls[i].kind != "break" {
				return "", false
			}
			between := [][]string{{l0(ls[i]) + "// a comment"}, {""}, {l0(ls[i]) + "// one", "", l0(ls[i]) + "// two"}}[i%3]
			return joinLines(ls, func(j int, l c05Line) []string {
				if j == i {
					return append(append([]string{l.text}, between...), l.indent+"print \"unreachable\"")
				}
				return []string{l.text}
			}), true
		}},
		{"redeclaration", func(ls []c05Line, i int) (string, bool) {
			if ls[i].kind != "decl" && ls[i].kind != "typed" {
				return "", false
			}
			name := strings.TrimSpace(strings.SplitN(strings.SplitN(strings.TrimSpace(ls[i].text), " ", 2)[0], ":", 2)[0])
			return insertAfter(ls, i, name+" := \"again\""), true
		}},
		{"redeclare-parameter", func(ls []c05Line, i int) (string, bool) {
			if ls[i].kind != "func" || !strings.Contains(ls[i].text, " a:num") {
				return "", false
			}
			return insertAfter(ls, i, "a := 5"), true
		}},
		{"malformed-parameter", func(ls []c05Line, i int) (string, bool) {
			// the ":" between a parameter's name and type replaced by another token
			if ls[i].kind != "func" && ls[i].kind != "on" {
				return "", false
			}
			t := ls[i].text
			f := strings.Fields(t)
			k := -1
			for j := 2; j < len(f); j++ {
				if strings.Contains(f[j], ":") && !strings.HasPrefix(f[j], ":") {
					k = j
				}
			}
			if k < 0 {
				return "", false
			}
			rep := []string{"+", "\"\"", "=", ".", "-", ":=", "::"}[i%7]
			f[k] = strings.Replace(f[k], ":", rep, 1)
			return replaceLine(ls, i, ls[i].indent+strings.Join(f, " ")), true
		}},
		{"redeclare-loop-variable", func(ls []c05Line, i int) (string, bool) {
			t := strings.TrimSpace(ls[i].text)
			if ls[i].kind != "for" || !strings.Contains(t, " := range") {
				return "", false
			}
			name := strings.Fields(t)[1]
			return insertAfter(ls, i, name+" := 1"), true
		}},
		{"non-bool-condition", func(ls []c05Line, i int) (string, bool) {
			if ls[i].kind != "if" && ls[i].kind != "while" {
				return "", false
			}
			return replaceLine(ls, i, ls[i].indent+ls[i].kind+" 1"), true
		}},
		{"non-bool-condition", func(ls []c05Line, i int) (string, bool) {
			// a condition of static type any (variable, element of a mixed literal, field of a mixed map)
			if ls[i].kind != "if" && ls[i].kind != "while" && ls[i].kind != "elseif" {
				return "", false
			}
			kw := map[string]string{"if": "if", "while": "while", "elseif": "else if"}[ls[i].kind]
			cond := []string{"anyq", "anymap_q.a", "[true 1][0]", "(anyq)", "{k:true l:\"s\"}.k"}[i%5]
			return replaceLine(ls, i, ls[i].indent+kw+" "+cond), true
		}},
		{"stray-after-statement", func(ls []c05Line, i int) (string, bool) {
			switch ls[i].kind {
			case "decl", "assign", "typed", "return", "break", "if", "elseif", "while", "for", "else":
				if ls[i].kind == "return" && strings.TrimSpace(ls[i].text) == "return" {
					return "", false
				}
				return replaceLine(ls, i, ls[i].text+" )"), true
			case "call":
				return replaceLine(ls, i, ls[i].text+" )"), true
			}
			return "", false
		}},
		{"redeclare-builtin-global-nested", func(ls []c05Line, i int) (string, bool) {
			// err and errmsg cannot be declared anywhere: nested blocks, function bodies, parameters, loop variables
			if ls[i].kind == "return" || ls[i].kind == "break" {
				return "", false
			}
			ind := ls[i].indent
			switch ls[i].kind {
			case "if", "elseif", "else", "while", "for", "func", "on":
				ind += "    "
			}
			forms := [][]string{
				{ind + "errmsg := \"x\"", ind + "print errmsg"}, {ind + "err:bool", ind + "print err"},
				{ind + "for err := range 2", ind + "    print err", ind + "end"}, {ind + "for errmsg := range \"ab\"", ind + "    print errmsg", ind + "end"},
			}
			if ls[i].kind == "end" && ls[i].indent == "" {
				forms = [][]string{{"func chk_q err:bool", "    print err", "end"}, {"func chk2_q n:num errmsg:string", "    print n errmsg", "end"}, {"func chk3_q errs:num...", "    print errs", "end", "func chk4_q err:string...", "    print err", "end"}}
			}
			f := forms[i%len(forms)]
			return joinLines(ls, func(j int, l c05Line) []string {
				if j == i {
					return append([]string{l.text}, f...)
				}
				return []string{l.text}
			}), true
		}},
		{"duplicate-handler-parameter", func(ls []c05Line, i int) (string, bool) {
			if ls[i].kind != "on" || strings.TrimSpace(ls[i].text) != "on up ux:num uy:num" || i+1 >= len(ls) {
				return "", false
			}
			return joinLines(ls, func(j int, l c05Line) []string {
				switch j {
				case i:
					return []string{"on up ux:num ux:num"}
				case i + 1:
					return []string{"    print ux ux"}
				}
				return []string{l.text}
			}), true
		}},
		{"stray-after-header", func(ls []c05Line, i int) (string, bool) {
			// text after the parameters of a func / on line, also after the variadic marker
			if ls[i].kind != "func" && ls[i].kind != "on" {
				return "", false
			}
			tail := []string{" )", " ... junk", "... press any key", " ]", " 12 \"abc\"", " ... )"}[i%6]
			if ls[i].kind == "func" && strings.HasPrefix(tail, "...") && strings.Count(ls[i].text, ":") != 1 {
				tail = " )" // a variadic marker is legal after a single parameter only; keep exactly one broken rule
			}
			return replaceLine(ls, i, ls[i].text+tail), true
		}},
		{"handler-signature-mismatch", func(ls []c05Line, i int) (string, bool) {
			// an anonymous parameter must still have the type of the event's signature
			t := strings.TrimSpace(ls[i].text)
			switch {
			case ls[i].kind != "on":
				return "", false
			case strings.HasPrefix(t, "on down "):
				return replaceLine(ls, i, ls[i].indent+"on down "+[]string{"_:string _:num", "_:num _:string", "_:[]num _:num", "_:any _:num", "_:num _:bool"}[i%5]), true
			case strings.HasPrefix(t, "on input "):
				return replaceLine(ls, i, ls[i].indent+"on input "+[]string{"_:num val:string", "_:bool val:string", "_:[]string val:string"}[i%3]), true
			}
			return "", false
		}},
		{"stray-after-end", func(ls []c05Line, i int) (string, bool) {
			if ls[i].kind != "end" {
				return "", false
			}
			return replaceLine(ls, i, ls[i].text+" print 1"), true
		}},
		{"two-statements-one-line", func(ls []c05Line, i int) (string, bool) {
			if i+1 >= len(ls) || !simple(ls[i]) || !simple(ls[i+1]) || ls[i].kind == "call" {
				return "", false
			}
			return joinLines(ls, func(j int, l c05Line) []string {
				if j == i {
					return []string{l.text + " " + strings.TrimSpace(ls[i+1].text)}
				}
				if j == i+1 {
					return nil
				}
				return []string{l.text}
			}), true
		}},
	}
}

func c05Base(c *core.Ctx) string {
	prog := cfProgram(c, 2+c.Rng.Intn(2))
	base := gen.Print(prog, nil)
	// graphics at the very start and an event handler: drawing, sleeping, reading must not happen either
	head := "move 10 10\ncircle 5\nsleep 0.001\nline0 := read\nprint \"first effect\" line0\n"
	tail := "on key k:string\n    print \"key\" k\n    circle 1\nend\non up ux:num uy:num\n    print ux uy\nend\non down _:num _:num\n    print \"down\"\nend\non input _:string val:string\n    print val\nend\n"
	// typed functions whose body ends in a branch chain: every branch must return
	n := c.Rng.Intn(4)
	chain, _ := returnPathsSource(c.Rng, n, nil, []string{"num", "string"}[c.Rng.Intn(2)])
	chain = strings.Replace(chain, "return ", "return  ", -1) // marks the branch returns for the edit catalogue
	// a procedure (no return value): its call is a statement, never a value
	proc := "func noret_q\n    print \"noret\"\nend\nsarr_q := [\"abc\" \"de\"]\nsmap_q := {name:\"xyz\"}\nprint sarr_q smap_q\nanyq:any\nanymap_q := {a:true b:1}\nprint anyq anymap_q\n"
	return head + base + chain + proc + tail
}

func c05Run(c *core.Ctx, i int) {
	base := c05Base(c)
	if _, err := parser.Parse(base, plat.Builtins()); err != nil {
		c.Violation("harness-base-rejected", "base program rejected: "+firstN(err.Error(), 300), base, nil)
		return
	}
	ls := classifyLines(base)
	edits := c05Edits()
	nbin := 0
	for li := range ls {
		for _, e := range edits {
			text, ok := e.apply(ls, li)
			if !ok {
				continue
			}
			c.Event("edits", 1)
			c.Cover("edit-kind", e.kind)
			c.Cover("edit-at", e.kind+"@"+ls[li].kind+"/"+ls[li].inFunc)
			shape := c05InProcess(c, e.kind, text)
			c.Distinct(e.kind + "@" + ls[li].kind + "|" + shape)
			// sample through the real binary
			if c.EvyBin != "" && nbin < 4 && c.Rng.Intn(40) == 0 {
				nbin++
				c05Binary(c, e.kind, text)
			}
		}
	}
	if i == 0 {
		c.Sample(map[string]any{"base_lines": len(ls), "base_head": firstN(base, 300)})
	}
}

func c05InProcess(c *core.Ctx, kind, text string) string {
	c.Journal(text)
	rec := &plat.Rec{YieldBudget: 50000}
	var runErr error
	func() {
		defer func() {
			if p := recover(); p != nil {
				c.Violation("crash:"+plat.PanicSite(), "Evaluator.Run panicked on an invalid program ("+kind+"): "+firstN(fmt.Sprint(p), 200), text, nil)
				runErr = fmt.Errorf("panic")
			}
		}()
		ev := evaluator.NewEvaluator(rec)
		rec.Ev = ev
		runErr = ev.Run(text)
	}()
	perrs, isParse := runErr.(parser.Errors)
	if runErr == nil || !isParse {
		c.Violation("accepted:"+kind, fmt.Sprintf("rule-breaking program (%s) was not rejected by the parser: result %v, effects %v", kind, runErr, firstN(fmt.Sprint(rec.Events), 200)), text, nil)
		return "accepted"
	}
	if len(rec.Events) > 0 {
		c.Violation("effects-before-rejection:"+kind, fmt.Sprintf("rejected program (%s) performed %d platform calls: %s", kind, len(rec.Events), firstN(fmt.Sprint(rec.Events), 200)), text, nil)
	}
	if rec.Yields > 0 {
		c.Violation("evaluated-before-rejection:"+kind, fmt.Sprintf("rejected program (%s) was evaluated (%d yields)", kind, rec.Yields), text, nil)
	}
	lines := strings.Split(text, "\n")
	var shapes []string
	for _, e := range perrs {
		m := errLocRe.FindStringSubmatch(strings.SplitN(e.Error(), "\n", 2)[0])
		if m == nil {
			c.Violation("error-format:"+kind, "diagnostic without location: "+e.Error(), text, nil)
			continue
		}
		var l, col int
		fmt.Sscan(m[1], &l)
		fmt.Sscan(m[2], &col)
		if l < 1 || l > len(lines) || col < 1 || col > len([]rune(lines[l-1]))+1 {
			c.Violation("error-position:"+kind, "diagnostic points outside the program: "+e.Error(), text, nil)
		}
		shapes = append(shapes, quotedRe.ReplaceAllString(m[3], "_"))
	}
	c.Event("rejected_without_effects", 1)
	if len(shapes) > 2 {
		shapes = shapes[:2]
	}
	return strings.Join(shapes, ";")
}

func c05Binary(c *core.Ctx, kind, text string) {
	path := filepath.Join(c.Tmp, "c05.evy")
	svg := filepath.Join(c.Tmp, "c05.svg")
	os.Remove(svg)
	if err := os.WriteFile(path, []byte(text), 0o644); err != nil {
		return
	}
	for _, args := range [][]string{{"run", path}, {"run", "--svg-out", svg, path}, {"run", "--svg-out", "-", path}} {
		stdout, stderr, code, err := evyCmd(c, "input line\n", args...)
		c.Event("cli_runs", 1)
		if err != nil {
			c.Inconclusive("evy run: " + err.Error())
			return
		}
		if stdout != "" {
			c.Violation("cli-stdout:"+kind, fmt.Sprintf("evy %v wrote to stdout for a rejected program: %q", args[1:len(args)-1], firstN(stdout, 200)), text, nil)
		}
		if strings.TrimSpace(stderr) == "" || code == 0 {
			c.Violation("cli-status:"+kind, fmt.Sprintf("evy %v: exit status %d, stderr %q for a rejected program", args[1:len(args)-1], code, firstN(stderr, 200)), text, nil)
		}
		if _, err := os.Stat(svg); err == nil {
			c.Violation("cli-svg-written:"+kind, "evy run --svg-out wrote an SVG file for a rejected program", text, nil)
			os.Remove(svg)
		}
	}
}
