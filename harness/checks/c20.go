package checks

import (
	"encoding/base64"
	"fmt"
	"os"
	"path/filepath"
	"regexp"
	"sort"
	"strings"
	"unicode/utf8"

	"evylang.dev/evy/learn/pkg/learn"

	"verif/core"
)

// C20 — sealed answers round-trip and answer verification is exact.

type c20State struct {
	keys []learn.KeyPair
}

var c20Texts = []string{
	"", "a", "c", "a, c", "b, d, e", "hello world", "é🌍ü", "line1\nline2\n", "key: value # yaml", "- item", "\"quoted\" 'single'", "\x00\x01\x02", "\xff\xfe invalid utf8",
	strings.Repeat("x", 255), strings.Repeat("long answer ", 341), "  padded  ", "---", "%s %d", "<b>&amp;</b>", "a,b,c,d,e,f,g,h,i,j,k,l,m,n,o,p,q,r,s,t,u,v,w,x,y,z",
	// texts that YAML reads as something else than a string when written plainly
	"42", "0.25", "true", "null", "~", "1e3", "0x1F", "yes", "2024-01-01", "-7", ".5", "no", "012",
}

const c20VerifyBlock = 400 // question cells per case

func c20VerifyCells() int {
	total := 0
	for n := 2; n <= 5; n++ {
		outs := 1
		for k := 0; k < n; k++ {
			outs *= 3
		}
		total += outs * (len(c20Markings(n)) * 2)
	}
	return total
}

// c20Markings returns the front matter markings tried for n choices.
func c20Markings(n int) []string {
	var out []string
	// every subset of the n letters (plus one letter beyond n)
	for mask := 1; mask < 1<<(n+1); mask++ {
		var ls []string
		for k := 0; k <= n; k++ {
			if mask&(1<<k) != 0 {
				ls = append(ls, string(rune('a'+k)))
			}
		}
		out = append(out, strings.Join(ls, ", "))
	}
	out = append(out, "A", "a, a", "a,b", " a ", "a b", "z", "a, ", "1", "e, a", "b,a")
	return out
}

func init() {
	core.Register(&core.Check{
		ID:          "C20",
		Level:       "exploration",
		Rule:        "(seal) texts of 20 classes (empty, ASCII, multi-byte, newlines, YAML-special, NUL, invalid UTF-8, up to 4 KiB) x 4 fresh key pairs (1024, 1028, 2048 and 1100+ bits) + the embedded public key: round trip, then for each sealed value every single byte position of the raw envelope x {+1, ^0x80, 0x00, 0xFF} (sampled to 400 positions for long values), every truncation length (sampled), single-character substitutions and deletions in the base64 text, appended bytes, swapped halves, a sealed value of another text under the same key, the right text under another key; QuestionModel.Seal/Unseal of a text question whose answer is each text with leading/trailing blanks, newlines, tabs, NBSP and ideographic space. (verify) exhaustive grid: n = 2..5 choices x every assignment of outputs {matches, differs, differs by a trailing space} (+ questions whose choices differ only in final line breaks, every marking) x every subset of marked letters incl. a letter beyond n and malformed markings x {single-choice, multiple-choice}, choices as inline code, text blocks and evy code blocks that are really executed; plus exercises whose text and image questions share program texts (print and draw), verified in random order in one process. distinct = distinct (text class, key, tampering) / question cells",
		Assumptions: []string{"closed-form oracle: a tampered or foreign-key value may be rejected or still yield the original, never another text; Verify accepts iff the marking is well formed and {marked} == {choices whose output equals the question's output}"},
		NumCases: func(tier string) int {
			seal := len(c20Texts) * 5
			mixed := 12
			if tier == "thorough" {
				mixed = 300
			}
			return seal + (c20VerifyCells()+c20VerifyBlock-1)/c20VerifyBlock + mixed
		},
		Exhaustive: func(tier string) bool { return true },
		Setup: func(c *core.Ctx) error {
			st := &c20State{}
			// also key sizes that are not a multiple of 8 bits (and one in the first slot of each run: 1024 + 8k + r)
			for _, bits := range []int{1024, 1028, 2048, 1100 + int(c.Seed%7)} {
				kp, err := learn.Keygen(bits)
				if err != nil {
					return err
				}
				st.keys = append(st.keys, kp)
			}
			c.State = st
			return nil
		},
		Run:       c20Run,
		MinEvents: []string{"round_trips", "tamperings", "questions_verified"},
	})
}

func c20Run(c *core.Ctx, i int) {
	st := c.State.(*c20State)
	nSeal := len(c20Texts) * 5
	if i < nSeal {
		c20Seal(c, st, c20Texts[i/5], i%5)
		return
	}
	if blocks := (c20VerifyCells() + c20VerifyBlock - 1) / c20VerifyBlock; i-nSeal >= blocks {
		if i-nSeal-blocks == 0 {
			c20Newlines(c)
			c20TextAnswers(c)
		}
		if (i-nSeal-blocks)%3 == 0 {
			for k := 0; k < 6; k++ {
				c20Generated(c, (i-nSeal-blocks)*6+k)
			}
		}
		c20Mixed(c, i-nSeal-blocks)
		return
	}
	c20Verify(c, (i-nSeal)*c20VerifyBlock)
}

// c20TextAnswers: a text question is verified exactly when the answer program prints the question's output.
func c20TextAnswers(c *core.Ctx) {
	lines := [][]string{{"a", "b"}, {"1, 2,", "Robots say moo.", "🤖🐄"}, {"x"}, {"  *", " ***", "*****"}, {"a", "    b", "\tc", "d"}}
	for qi, ls := range lines {
		md := "## Understanding sequence\n\nComplete the program that generates this output:\n\n```\n" + strings.Join(ls, "\n") + "\n```\n\nProgram:\n\n```evy\n\nprint \"" + ls[len(ls)-1] + "\"\n```\n"
		prog := func(out []string) string {
			var b strings.Builder
			for _, l := range out {
				b.WriteString("  print \"" + l + "\"\n")
			}
			return b.String()
		}
		cases := []struct {
			what string
			out  []string
			ok   bool
		}{
			{"exact", ls, true}, {"shorter", ls[:len(ls)-1], len(ls) == 0}, {"one more line", append(append([]string{}, ls...), "extra"), false}, {"two more lines", append(append([]string{}, ls...), "extra", ls[0]), false},
			{"last line different", append(append([]string{}, ls[:len(ls)-1]...), ls[len(ls)-1]+"2"), false}, {"first line different", append([]string{"z" + ls[0]}, ls[1:]...), false},
			{"line inserted before", append([]string{"extra"}, ls...), false}, {"twice", append(append([]string{}, ls...), ls...), false},
		}
		if len(ls) >= 3 {
			// white space inside the output (not at its two ends, which are trimmed) is part of it
			mid := func(f func(string) string) []string {
				out := append([]string{}, ls...)
				out[1] = f(out[1])
				return out
			}
			type tcase = struct {
				what string
				out  []string
				ok   bool
			}
			cases = append(cases, tcase{"inner line indented more", mid(func(l string) string { return " " + l }), false},
				tcase{"inner line with trailing blank", mid(func(l string) string { return l + " " }), false},
				tcase{"inner line with trailing tab", mid(func(l string) string { return l + "\\t" }), false})
			if d := strings.TrimLeft(ls[1], " \t"); d != ls[1] {
				cases = append(cases, tcase{"inner line de-indented", mid(func(string) string { return d }), false})
			}
		}
		for _, tc := range cases {
			if len(tc.out) == 0 {
				continue
			}
			fm := "type: question\ndifficulty: easy\nanswer-type: text\nanswer: |\n" + prog(tc.out)
			var verr error
			func() {
				defer func() {
					if p := recover(); p != nil {
						verr = fmt.Errorf("panic: %v", p)
						c.Violation("verify:crash", fmt.Sprintf("text question %d (%s): %v", qi, tc.what, p), fm+"---\n"+md, nil)
					}
				}()
				m, err := learn.NewQuestionModel("course/unit/exercise/q.md", learn.WithRawMD(fm, md))
				if err != nil {
					verr = err
					return
				}
				verr = m.Verify()
			}()
			c.Event("questions_verified", 1)
			c.Event("text_questions_verified", 1)
			c.Distinct(fmt.Sprintf("text-question|%d|%s", qi, tc.what))
			if (verr == nil) != tc.ok {
				kind := "accepts-wrong-answer"
				if tc.ok {
					kind = "rejects-right-answer"
				}
				c.Violation("verify:text:"+kind, fmt.Sprintf("text question with output %q, answer program printing %q (%s): Verify accepted=%v (%v)", ls, tc.out, tc.what, verr == nil, verr), fm+"---\n"+md, nil)
			}
		}
	}
}

// c20Newlines: outputs that differ only in their final line breaks are different outputs.
func c20Newlines(c *core.Ctx) {
	fence := func(src string) string {
		return "- ```evy\n  " + strings.ReplaceAll(strings.TrimSuffix(src, "\n"), "\n", "\n  ") + "\n  ```\n"
	}
	type q struct {
		question string
		choices  []string
		matching string // letters of the matching choices
	}
	qs := []q{
		{"print \"Q\"\n", []string{"print \"Q\"\n", "printf \"Q\"\n", "printf \"Q\\n\\n\"\n", "printf \"Q\\n\"\n"}, "ad"},
		{"printf \"Q\"\n", []string{"print \"Q\"\n", "printf \"Q\"\n", "printf \"%s\" \"Q\"\n"}, "bc"},
		{"print \"\"\n", []string{"// prints nothing\n", "print \"\"\n", "printf \"\\n\\n\"\n"}, "b"},
		{"print \"a\"\nprint \"b\"\n", []string{"printf \"a\\nb\"\n", "print \"a\\nb\"\n", "print \"a\"\nprint \"b\"\nprint \"\"\n"}, "b"},
		// outputs differing only in leading / trailing blanks, indentation of the first line, a tab
		{"print \"hi \"\n", []string{"print \"hi\"\n", "print \"hi \"\n", "print \" hi \"\n", "print \"hi  \"\n"}, "b"},
		{"print \"  *\"\nprint \" ***\"\n", []string{"print \"*\"\nprint \" ***\"\n", "print \"  *\"\nprint \" ***\"\n", "print \"  *\"\nprint \"***\"\n"}, "b"},
		{"print \"x\"\n", []string{"print \"\\tx\"\n", "print \"x\\t\"\n", "print \"x\"\n", "print \"x\\r\"\n"}, "c"},
	}
	for qi, qu := range qs {
		md := "## Question\n\nWhich programs print the same as this one?\n\n```evy\n" + qu.question + "```\n\nChoose:\n\n"
		for _, ch := range qu.choices {
			md += fence(ch)
		}
		md += "- ```\n  zzz\n  ```\n" // a plain text choice (never matching) tells the model that text output is compared
		// every non-empty subset of letters as marking
		n := len(qu.choices) + 1
		for mask := 1; mask < 1<<n; mask++ {
			var letters []string
			set := ""
			for k := 0; k < n; k++ {
				if mask&(1<<k) != 0 {
					letters = append(letters, string(rune('a'+k)))
					set += string(rune('a' + k))
				}
			}
			want := set == qu.matching
			atype := "multiple-choice"
			if len(letters) == 1 && mask%2 == 1 {
				atype = "single-choice"
			}
			fm := "type: question\ndifficulty: easy\nanswer-type: " + atype + "\nanswer: \"" + strings.Join(letters, ", ") + "\"\n"
			var verr error
			func() {
				defer func() {
					if p := recover(); p != nil {
						verr = fmt.Errorf("panic: %v", p)
						c.Violation("verify:crash", fmt.Sprintf("newline question %d marked %s: %v", qi, set, p), fm+"---\n"+md, nil)
					}
				}()
				m, err := learn.NewQuestionModel("course/unit/exercise/q.md", learn.WithRawMD(fm, md))
				if err != nil {
					verr = err
					return
				}
				verr = m.Verify()
			}()
			c.Event("questions_verified", 1)
			c.Event("newline_questions_verified", 1)
			c.Distinct(fmt.Sprintf("newline|%d|%s|%s", qi, set, atype))
			if (verr == nil) != want {
				kind := "accepts-wrong-marking"
				if want {
					kind = "rejects-right-marking"
				}
				c.Violation("verify:newline:"+kind, fmt.Sprintf("question %d (outputs differing only in final line breaks), marked %q as %s: Verify accepted=%v (%v); the choices with exactly the question's output are %q", qi, set, atype, verr == nil, verr, qu.matching), fm+"---\n"+md, nil)
				return
			}
		}
	}
}

// c20Mixed: questions of one exercise that share program texts but are judged by different kinds of
// output (printed text vs picture), verified one after the other in one process, in random order and
// twice: the verdict of each depends only on what its own programs print / draw.
func c20Mixed(c *core.Ctx, n int) {
	r := c.Rng
	dir := filepath.Join(c.Tmp, fmt.Sprintf("c20mixed-%d", n), "course", "unit", "exercise")
	defer os.RemoveAll(filepath.Join(c.Tmp, fmt.Sprintf("c20mixed-%d", n)))
	write := func(name, content string) {
		_ = os.MkdirAll(filepath.Dir(name), 0o755)
		_ = os.WriteFile(name, []byte(content), 0o644)
	}
	R := 5 + r.Intn(20)
	R2 := R + 1 + r.Intn(5)
	word := []string{"dot", "spot", "o"}[r.Intn(3)]
	draw := func(rad int) string { return fmt.Sprintf("move 50 50\ncolor \"red\"\ncircle %d\n", rad) }
	progBig := "print \"" + word + "\"\n" + draw(R)                                          // prints word, draws R
	progBig2 := fmt.Sprintf("move 50 50\ncolor \"red\"\nprint \"%s\"\ncircle %d\n", word, R) // same text, same picture, other source
	progSmall := "print \"" + word + "\"\n" + draw(R2)                                       // same text, other picture
	progOther := "print \"other\"\n" + draw(R)                                               // other text, same picture
	fence := func(src string) string {
		return "- ```evy\n  " + strings.ReplaceAll(strings.TrimSuffix(src, "\n"), "\n", "\n  ") + "\n  ```\n"
	}
	head := func(atype, answer string) string {
		return "---\ntype: question\ndifficulty: easy\nanswer-type: " + atype + "\nanswer: \"" + answer + "\"\n---\n\n"
	}
	write(filepath.Join(dir, "img", "big.evy"), draw(R))
	write(filepath.Join(dir, "img", "tiny.evy"), "move 10 10\ncircle 1\n")
	type q struct {
		name, md string
		ok       bool
		why      string
	}
	textQ := func(name, marked string, ok bool) q {
		// which programs print the word? big, small, big2 do; other does not
		return q{name, head("multiple-choice", marked) + "# T\n\nWhich programs print this?\n\n```\n" + word + "\n```\n\n" + fence(progBig) + fence(progSmall) + fence(progBig2) + fence(progOther), ok,
			"text question: a, b, c print the text, d prints another text; marked " + marked}
	}
	imgQ := func(name, marked string, ok bool) q {
		// which programs draw the picture of big.evy? big, big2, other do; small does not
		return q{name, head("multiple-choice", marked) + "# I\n\nWhich programs draw this?\n\n![question](img/big.evy.svg)\n\n" + fence(progBig) + fence(progSmall) + fence(progBig2) + fence(progOther), ok,
			"image question: a, c, d draw the picture, b draws another radius; marked " + marked}
	}
	img1 := func(name, marked string, ok bool) q {
		return q{name, head("single-choice", marked) + "# S\n\nWhich program draws the same as this program?\n\n```evy\n" + progBig2 + "```\n\n" + fence(progSmall) + fence(progBig) + "- ![answer](img/tiny.evy.svg)\n", ok,
			"image question with a program as question: only b draws the same; marked " + marked}
	}
	// the same output reached through every kind of choice: linked program run for its text, program
	// block, literal text block; characters that markup would escape
	special := []string{"x < y & \"z\" > 'w'", "a<b>&amp;", "1 & 2"}[r.Intn(3)]
	write(filepath.Join(dir, "txt", "sp.evy"), "print \""+strings.ReplaceAll(special, "\"", "\\\"")+"\"\n")
	write(filepath.Join(dir, "txt", "other.evy"), "print \"other\"\n")
	escaped := strings.NewReplacer("&", "&amp;", "<", "&lt;", ">", "&gt;", "\"", "&#34;", "'", "&#39;").Replace(special)
	linkQ := func(name, marked string, ok bool) q {
		md := head("multiple-choice", marked) + "# L\n\nWhich of these are the output of this program?\n\n```evy\nprint \"" + strings.ReplaceAll(special, "\"", "\\\"") + "\"\n```\n\n" +
			"- [answer](txt/sp.evy \"evy:text\")\n- ```\n  " + special + "\n  ```\n- ```\n  " + escaped + "\n  ```\n- [answer](txt/other.evy \"evy:text\")\n"
		return q{name, md, ok, "link question: a (linked program, text) and b (literal text) are the output, c is its HTML-escaped form, d another text; marked " + marked}
	}
	qs := []q{
		linkQ("l-right.md", "a, b", true), linkQ("l-wrong1.md", "b, c", false), linkQ("l-wrong2.md", "a", false), linkQ("l-wrong3.md", "a, b, c", false),
		textQ("t-right.md", "a, b, c", true), textQ("t-wrong.md", "a, c, d", false),
		imgQ("i-right.md", "a, c, d", true), imgQ("i-wrong.md", "a, b, c", false), imgQ("i-wrong2.md", "a, b, c, d", false),
		img1("s-right.md", "b", true), img1("s-wrong.md", "a", false),
	}
	order := r.Perm(len(qs))
	order = append(order, r.Perm(len(qs))...)
	for _, k := range order {
		qu := qs[k]
		fname := filepath.Join(dir, qu.name)
		write(fname, qu.md)
		var verr error
		func() {
			defer func() {
				if p := recover(); p != nil {
					verr = fmt.Errorf("panic: %v", p)
					c.Violation("verify:crash", fmt.Sprintf("%s: %v", qu.why, p), qu.md, nil)
				}
			}()
			m, err := learn.NewQuestionModel(fname)
			if err != nil {
				verr = err
				return
			}
			verr = m.Verify()
		}()
		c.Event("mixed_questions_verified", 1)
		c.Distinct(fmt.Sprintf("mixed|%d|%d|%s|%s", R, R2, word, qu.name))
		if (verr == nil) != qu.ok {
			kind := "accepts-wrong-marking"
			if qu.ok {
				kind = "rejects-right-marking"
			}
			c.Violation("verify:mixed:"+kind, fmt.Sprintf("%s: Verify accepted=%v (%v); questions of the exercise were verified in the order %v", qu.why, verr == nil, verr, order), qu.md, nil)
			return
		}
	}
}

func c20Seal(c *core.Ctx, st *c20State, text string, ki int) {
	if ki == 4 {
		// the embedded public key: encryption only (no private key available)
		sealed, err := learn.Encrypt(learn.PublicKey, text)
		c.Event("embedded_key_encryptions", 1)
		if err != nil || sealed == "" {
			c.Violation("seal:embedded-key", fmt.Sprintf("Encrypt with the embedded public key failed: %v", err), text, nil)
			return
		}
		// nobody but the key holder may read it: another key must not decrypt it to anything
		for _, kp := range st.keys[:2] {
			if got, err := learn.Decrypt(kp.Private, sealed); err == nil && got != text {
				c.Violation("seal:foreign-key-different-text", fmt.Sprintf("a foreign key decrypted the value to another text %q", firstN(got, 60)), text, nil)
			}
			c.Event("tamperings", 1)
		}
		return
	}
	kp := st.keys[ki]
	other := st.keys[(ki+1)%4]
	sealed, err := learn.Encrypt(kp.Public, text)
	if err != nil {
		c.Violation("seal:encrypt-error", err.Error(), text, nil)
		return
	}
	got, err := learn.Decrypt(kp.Private, sealed)
	c.Event("round_trips", 1)
	c.Cover("text-class", firstN(fmt.Sprintf("%q", text), 24))
	if err != nil || got != text {
		c.Violation("seal:round-trip", fmt.Sprintf("Decrypt(Encrypt(t)) = %q, %v", firstN(got, 80), err), text, nil)
		return
	}
	c.Distinct(fmt.Sprintf("roundtrip|%q|%d", text, ki))
	raw, _ := base64.StdEncoding.DecodeString(sealed)
	try := func(kind string, cand string, priv string) {
		c.Event("tamperings", 1)
		c.Cover("tamper", kind)
		var got string
		var err error
		func() {
			defer func() {
				if p := recover(); p != nil {
					err = fmt.Errorf("panic: %v", p)
					c.Violation("seal:crash:"+kind, fmt.Sprintf("Decrypt panicked on a tampered value: %v", p), text, map[string]any{"sealed": cand})
				}
			}()
			got, err = learn.Decrypt(priv, cand)
		}()
		if err == nil && got != text {
			c.Violation("seal:different-text:"+kind, fmt.Sprintf("a tampered sealed value (%s) decrypts without error to another text: %q", kind, firstN(got, 80)), text, map[string]any{"sealed": cand})
		}
		if err == nil {
			c.Event("tampered_still_original", 1)
		}
	}
	// byte-level tampering of the raw envelope
	positions := make([]int, 0, len(raw))
	if len(raw) <= 420 {
		for p := range raw {
			positions = append(positions, p)
		}
	} else {
		// header, first and last RSA bytes, ciphertext and tag, and a sample
		rsaLen := int(raw[1])<<8 | int(raw[2])
		for p := 0; p < 8; p++ {
			positions = append(positions, p)
		}
		for p := rsaLen; p < rsaLen+8 && p < len(raw); p++ {
			positions = append(positions, p)
		}
		for p := len(raw) - 20; p < len(raw); p++ {
			positions = append(positions, p)
		}
		for k := 0; k < 360; k++ {
			positions = append(positions, c.Rng.Intn(len(raw)))
		}
	}
	for _, p := range positions {
		for _, f := range []func(byte) byte{func(b byte) byte { return b + 1 }, func(b byte) byte { return b ^ 0x80 }, func(byte) byte { return 0 }, func(byte) byte { return 0xff }} {
			mod := append([]byte(nil), raw...)
			nb := f(mod[p])
			if nb == mod[p] {
				continue
			}
			mod[p] = nb
			try("byte", base64.StdEncoding.EncodeToString(mod), kp.Private)
		}
	}
	// truncations
	step := 1
	if len(raw) > 300 {
		step = len(raw) / 150
	}
	for l := 0; l < len(raw); l += step {
		try("truncate", base64.StdEncoding.EncodeToString(raw[:l]), kp.Private)
	}
	for l := len(raw) - 18; l < len(raw); l++ {
		if l >= 0 {
			try("truncate", base64.StdEncoding.EncodeToString(raw[:l]), kp.Private)
		}
	}
	// appended bytes, swapped halves
	try("append", base64.StdEncoding.EncodeToString(append(append([]byte(nil), raw...), 0)), kp.Private)
	try("append", base64.StdEncoding.EncodeToString(append(append([]byte(nil), raw...), raw...)), kp.Private)
	half := len(raw) / 2
	try("swap-halves", base64.StdEncoding.EncodeToString(append(append([]byte(nil), raw[half:]...), raw[:half]...)), kp.Private)
	// base64 text level
	for k := 0; k < 120 && len(sealed) > 0; k++ {
		p := c.Rng.Intn(len(sealed))
		b := []byte(sealed)
		b[p] = "ABCDEFGHIJKLMNOPQRSTUVWXYZabcdefghijklmnopqrstuvwxyz0123456789+/=!"[c.Rng.Intn(66)]
		try("base64-substitute", string(b), kp.Private)
		try("base64-delete", sealed[:p]+sealed[p+1:], kp.Private)
	}
	// another text under the same key, the right text under another key
	if text != "other text" {
		s2, _ := learn.Encrypt(kp.Public, "other text")
		if got, err := learn.Decrypt(kp.Private, s2); err != nil || got != "other text" {
			c.Violation("seal:round-trip", "second text does not round-trip", "other text", nil)
		}
		// splice: header+RSA part of one value with the AES part of the other
		r2, _ := base64.StdEncoding.DecodeString(s2)
		rsaLen := int(raw[1])<<8 | int(raw[2])
		if len(r2) > rsaLen+3 && len(raw) > rsaLen+3 {
			try("splice-rsa-of-other", base64.StdEncoding.EncodeToString(append(append([]byte(nil), r2[:rsaLen+3]...), raw[rsaLen+3:]...)), kp.Private)
		}
	}
	try("foreign-key", sealed, other.Private)
	// question level: the answer of a question file sealed and unsealed through the model
	if ki < 2 {
		for _, t := range []string{text, " " + text, text + " ", text + "\n", "\t" + text + "\n\n", "\u00a0" + text + "\u3000", "\n" + text} {
			c20ModelSeal(c, kp, other, t)
		}
		c20FileRoundTrip(c, kp, text)
	}
}

// yamlQuote returns t as a YAML double-quoted scalar, or "" if t needs escapes this function does not write.
func yamlQuote(t string) string {
	if !utf8.ValidString(t) {
		return ""
	}
	var b strings.Builder
	b.WriteByte('"')
	for _, r := range t {
		switch {
		case r == '"':
			b.WriteString("\\\"")
		case r == '\\':
			b.WriteString("\\\\")
		case r == '\n':
			b.WriteString("\\n")
		case r == '\t':
			b.WriteString("\\t")
		case r < 0x20 || r == 0x7f || r == 0x85 || r == 0x2028 || r == 0x2029 || r == 0xfeff:
			return ""
		default:
			b.WriteRune(r)
		}
	}
	b.WriteByte('"')
	return b.String()
}

const c20TextQuestionMD = "## Understanding sequence: `print`\n\nComplete the program that generates this output:\n\n```\n1\n```\n\nProgram:\n\n```evy\n\nprint 2\n```\n"

// c20ModelSeal: QuestionModel.Seal then Unseal (and Decrypt of the stored sealed value) must give back
// exactly the answer text the model held before sealing.
func c20ModelSeal(c *core.Ctx, kp, other learn.KeyPair, text string) {
	q := yamlQuote(text)
	if q == "" || text == "" {
		return
	}
	fm := "type: question\ndifficulty: easy\nanswer-type: text\nanswer: " + q + "\n"
	desc := fmt.Sprintf("question-level seal of %q", firstN(text, 60))
	defer func() {
		if p := recover(); p != nil {
			c.Violation("seal:model-crash", fmt.Sprintf("%s: %v", desc, p), fm+"---\n"+c20TextQuestionMD, nil)
		}
	}()
	m, err := learn.NewQuestionModel("course/unit/exercise/q.md", learn.WithRawMD(fm, c20TextQuestionMD), learn.WithPrivateKey(kp.Private))
	if err != nil {
		c.Cover("model-not-built", firstN(err.Error(), 40))
		return
	}
	before := m.Frontmatter.Answer
	if before != text {
		c.Cover("model-yaml-changed-text", "yes") // the YAML layer, not sealing, changed the text: judge what the model holds
	}
	if before == "" {
		return
	}
	c.Event("model_round_trips", 1)
	c.Distinct("model|" + text)
	if err := m.Seal(kp.Public); err != nil {
		c.Violation("seal:model-seal-error", fmt.Sprintf("%s: Seal failed: %v", desc, err), fm, nil)
		return
	}
	if m.Frontmatter.Answer != "" || m.Frontmatter.SealedAnswer == "" || !m.IsSealed() {
		c.Violation("seal:model-not-sealed", desc+": after Seal the plain answer is still present or no sealed answer is stored", fm, nil)
		return
	}
	if got, err := learn.Decrypt(kp.Private, m.Frontmatter.SealedAnswer); err != nil || got != before {
		c.Violation("seal:model-round-trip", fmt.Sprintf("%s: the stored sealed answer decrypts to %q (%v), the model held %q", desc, firstN(got, 80), err, firstN(before, 80)), fm, nil)
		return
	}
	if a, err := m.ExportAnswerKey(); err != nil || len(a) == 0 {
		_ = a // reading a sealed answer (as verification and export do) must not influence later sealing
	}
	if err := m.Unseal(); err != nil || m.Frontmatter.Answer != before || m.Frontmatter.SealedAnswer != "" {
		c.Violation("seal:model-round-trip", fmt.Sprintf("%s: after Seal and Unseal the answer is %q (%v), before it was %q", desc, firstN(m.Frontmatter.Answer, 80), err, firstN(before, 80)), fm, nil)
		return
	}
	// key rotation: the unsealed answer sealed again under ANOTHER key is readable with that key only
	if err := m.Seal(other.Public); err != nil || m.Frontmatter.SealedAnswer == "" {
		c.Violation("seal:model-reseal-error", fmt.Sprintf("%s: sealing the unsealed model under a second key failed: %v", desc, err), fm, nil)
		return
	}
	c.Event("model_key_rotations", 1)
	if got, err := learn.Decrypt(other.Private, m.Frontmatter.SealedAnswer); err != nil || got != before {
		c.Violation("seal:model-key-rotation", fmt.Sprintf("%s: unsealed with key A and sealed with key B, the value decrypts with B's private key to %q (%v), expected %q", desc, firstN(got, 80), err, firstN(before, 80)), fm, nil)
		return
	}
	if got, err := learn.Decrypt(kp.Private, m.Frontmatter.SealedAnswer); err == nil {
		c.Violation("seal:model-key-rotation", fmt.Sprintf("%s: the value sealed under key B still decrypts with key A's private key (to %q)", desc, firstN(got, 80)), fm, nil)
		return
	}
	// and sealing again under the first key after an edit of the answer seals the new text
	m2, err := learn.NewQuestionModel("course/unit/exercise/q.md", learn.WithRawMD(fm, c20TextQuestionMD), learn.WithPrivateKey(kp.Private))
	if err == nil && m2.Seal(kp.Public) == nil && m2.Unseal() == nil {
		m2.Frontmatter.Answer = before + " edited"
		if err := m2.Seal(kp.Public); err == nil {
			if got, err := learn.Decrypt(kp.Private, m2.Frontmatter.SealedAnswer); err != nil || got != before+" edited" {
				c.Violation("seal:model-reseal-after-edit", fmt.Sprintf("%s: answer edited after Unseal, sealed again: decrypts to %q (%v)", desc, firstN(got, 80), err), fm, nil)
			}
			// ... and the model itself gives back the edited answer, a third time too
			if err := m2.Unseal(); err != nil || m2.Frontmatter.Answer != before+" edited" {
				c.Violation("seal:model-reseal-after-edit", fmt.Sprintf("%s: answer edited, sealed and unsealed on the same model: answer is %q (%v), expected %q", desc, firstN(m2.Frontmatter.Answer, 80), err, firstN(before+" edited", 80)), fm, nil)
			}
			m2.Frontmatter.Answer = "third " + before
			if m2.Seal(kp.Public) == nil && (m2.Unseal() != nil || m2.Frontmatter.Answer != "third "+before) {
				c.Violation("seal:model-reseal-after-edit", fmt.Sprintf("%s: third seal/unseal on one model: answer is %q", desc, firstN(m2.Frontmatter.Answer, 80)), fm, nil)
			}
			c.Event("model_reseals", 1)
		}
	}
}

// c20Question builds the markdown of a choice question.
func c20Question(n int, outs []int, style int) string {
	var b strings.Builder
	b.WriteString("## Question\n\nWhat does this program print?\n\n```evy\nprint \"Q\"\n```\n\nChoose:\n\n")
	for k := 0; k < n; k++ {
		val := []string{"Q", fmt.Sprintf("x%d", k), "Q "}[outs[k]]
		switch (style + k) % 3 {
		case 0: // inline code
			if outs[k] == 2 {
				b.WriteString("- ```\n  Q \n  ```\n")
			} else {
				b.WriteString("- `" + val + "`\n")
			}
		case 1: // text block
			b.WriteString("- ```\n  " + val + "\n  ```\n")
		case 2: // evy code block, really executed
			b.WriteString("- ```evy\n  print \"" + val + "\"\n  ```\n")
		}
	}
	return b.String()
}

func c20Verify(c *core.Ctx, from int) {
	// enumerate cells in a fixed order and judge those in [from, from+block)
	idx := 0
	done := 0
	for n := 2; n <= 5; n++ {
		marks := c20Markings(n)
		nouts := 1
		for k := 0; k < n; k++ {
			nouts *= 3
		}
		cells := nouts * len(marks) * 2
		if idx+cells <= from {
			idx += cells
			continue
		}
		for o := 0; o < nouts; o++ {
			outs := make([]int, n)
			v := o
			for k := 0; k < n; k++ {
				outs[k] = v % 3
				v /= 3
			}
			for mi, mark := range marks {
				for t := 0; t < 2; t++ {
					if idx >= from && idx < from+c20VerifyBlock {
						c20VerifyCell(c, n, outs, mark, t, (o+mi)%3)
						done++
					}
					idx++
					if idx >= from+c20VerifyBlock {
						return
					}
				}
			}
		}
	}
	_ = done
}

func c20VerifyCell(c *core.Ctx, n int, outs []int, mark string, t int, style int) {
	atype := []string{"single-choice", "multiple-choice"}[t]
	fm := "type: question\ndifficulty: easy\nanswer-type: " + atype + "\nanswer: \"" + mark + "\"\n"
	md := c20Question(n, outs, style)
	cell := fmt.Sprintf("%s|n=%d|outs=%v|marked=%q|style=%d", atype, n, outs, mark, style)
	c.Event("questions_verified", 1)
	c.Distinct(cell)
	c.Cover("answer-type", atype)
	c.Cover("choices", fmt.Sprint(n))
	// expected verdict
	matching := map[string]bool{}
	for k := 0; k < n; k++ {
		if outs[k] == 0 {
			matching[string(rune('a'+k))] = true
		}
	}
	wellFormed := true
	marked := map[string]bool{}
	parts := strings.Split(mark, ",")
	for _, p := range parts {
		p = strings.TrimSpace(p)
		if len(p) != 1 || p[0] < 'a' || p[0] > 'z' {
			wellFormed = false
		}
		marked[p] = true
	}
	if atype == "single-choice" {
		m := mark
		if len(m) != 1 || m[0] < 'a' || m[0] > 'z' {
			wellFormed = false
		}
		marked = map[string]bool{m: true}
	}
	want := wellFormed && len(marked) == len(matching)
	for l := range marked {
		if !matching[l] {
			want = false
		}
	}
	var got bool
	var verr error
	func() {
		defer func() {
			if p := recover(); p != nil {
				verr = fmt.Errorf("panic: %v", p)
				c.Violation("verify:crash", fmt.Sprintf("%s: %v", cell, p), fm+"---\n"+md, nil)
			}
		}()
		q, err := learn.NewQuestionModel("course/unit/exercise/q.md", learn.WithRawMD(fm, md))
		if err != nil {
			verr = err
			return
		}
		verr = q.Verify()
	}()
	got = verr == nil
	if got != want {
		ms := make([]string, 0, len(matching))
		for l := range matching {
			ms = append(ms, l)
		}
		sort.Strings(ms)
		kind := "accepts-wrong-marking"
		if want {
			kind = "rejects-right-marking"
		}
		beyond := false
		for l := range marked {
			if len(l) == 1 && l[0] >= 'a' && int(l[0]-'a') >= n {
				beyond = true
			}
		}
		if beyond && !want {
			kind += ":letter-beyond-choices"
		}
		c.Violation("verify:"+kind, fmt.Sprintf("%s: Verify accepted=%v (%v) but the matching choices are %v", cell, got, verr, ms), fm+"---\n"+md, nil)
	}
	if c.Res.Counters["questions_verified"]%4001 == 1 {
		c.Sample(map[string]any{"cell": cell, "accepted": got, "markdown": firstN(md, 300)})
	}
}

var c20PlainScalarRe = regexp.MustCompile(`^[A-Za-z0-9.+~-][A-Za-z0-9.+ -]*$`)

// c20FileRoundTrip: what `levy seal` does to a question file - read, Seal, WriteFormatted - and reading
// the written file back with the private key gives back the answer, whether the front matter wrote it
// quoted or as a plain scalar (42, 0.25, true, ... are the text the learner has to type).
func c20FileRoundTrip(c *core.Ctx, kp learn.KeyPair, text string) {
	styles := []string{}
	if q := yamlQuote(text); q != "" && text != "" {
		styles = append(styles, q)
	}
	if c20PlainScalarRe.MatchString(text) && strings.TrimSpace(text) == text && len(text) < 100 {
		styles = append(styles, text)
	}
	for si, ans := range styles {
		dir := filepath.Join(c.Tmp, "c20file", "course", "unit", "exercise")
		_ = os.RemoveAll(filepath.Join(c.Tmp, "c20file"))
		if err := os.MkdirAll(dir, 0o755); err != nil {
			c.Inconclusive("mkdir: " + err.Error())
			return
		}
		fname := filepath.Join(dir, "q.md")
		content := "---\ntype: question\ndifficulty: easy # comment\nanswer-type: text\nanswer: " + ans + "\n---\n\n" + c20TextQuestionMD
		_ = os.WriteFile(fname, []byte(content), 0o644)
		desc := fmt.Sprintf("file round trip of answer %s (style %d)", firstN(ans, 60), si)
		func() {
			defer func() {
				if p := recover(); p != nil {
					c.Violation("seal:file-crash", fmt.Sprintf("%s: %v", desc, p), content, nil)
				}
			}()
			m, err := learn.NewQuestionModel(fname)
			if err != nil {
				c.Cover("model-not-built", firstN(err.Error(), 40))
				return
			}
			before := m.Frontmatter.Answer
			if before == "" {
				return
			}
			c.Event("file_round_trips", 1)
			c.Distinct("file|" + ans)
			if err := m.Seal(kp.Public); err != nil {
				c.Violation("seal:file-seal-error", desc+": Seal failed: "+err.Error(), content, nil)
				return
			}
			if err := m.WriteFormatted(); err != nil {
				c.Violation("seal:file-write-error", desc+": WriteFormatted failed: "+err.Error(), content, nil)
				return
			}
			written, _ := os.ReadFile(fname)
			if strings.Contains(string(written), "answer: "+ans+"\n") && !strings.Contains(string(written), "sealed-answer") {
				c.Violation("seal:file-not-sealed", desc+": the written file still holds the plain answer", string(written), nil)
				return
			}
			m2, err := learn.NewQuestionModel(fname, learn.WithPrivateKey(kp.Private))
			if err != nil {
				c.Violation("seal:file-round-trip", fmt.Sprintf("%s: the sealed file cannot be read back: %v", desc, err), string(written), nil)
				return
			}
			if !m2.IsSealed() {
				c.Violation("seal:file-not-sealed", desc+": the file read back is not sealed", string(written), nil)
				return
			}
			if err := m2.Unseal(); err != nil || m2.Frontmatter.Answer != before {
				c.Violation("seal:file-round-trip", fmt.Sprintf("%s: after seal, write, read, unseal the answer is %q (%v), it was %q", desc, firstN(m2.Frontmatter.Answer, 80), err, firstN(before, 80)), string(written), nil)
				return
			}
			// and unsealed + written again the file holds the answer in a form that reads back the same
			if err := m2.WriteFormatted(); err == nil {
				if m3, err := learn.NewQuestionModel(fname); err != nil || m3.Frontmatter.Answer != before {
					got := ""
					if m3 != nil {
						got = m3.Frontmatter.Answer
					}
					w2, _ := os.ReadFile(fname)
					c.Violation("seal:file-unsealed-write", fmt.Sprintf("%s: unsealed and written, the file reads back as %q (%v), it was %q", desc, firstN(got, 80), err, firstN(before, 80)), string(w2), nil)
				}
			}
		}()
	}
}

// c20Generated: a question that generates one sub-question per selected member of a txtar archive
// (`generate-questions: b, d`): the exported answer key (built from the verified answer of every sub-question) names, for every
// sub-question, the letter of the choice whose output is the output the sub-question shows - which is
// the member it was generated from, wherever that member stands in the selection.
func c20Generated(c *core.Ctx, n int) {
	r := c.Rng
	words := []string{"apple", "banana", "cherry", "date", "elder", "fig"}
	nf := 3 + r.Intn(4)
	letters := "abcdef"[:nf]
	var sel []string
	for _, l := range letters {
		if r.Intn(2) == 0 {
			sel = append(sel, string(l))
		}
	}
	if len(sel) < 2 { // at least two questions must be generated
		sel = []string{string(letters[nf-2]), string(letters[nf-1])}
		if r.Intn(2) == 0 {
			sel = []string{string(letters[1]), string(letters[nf-1])}
		}
	}
	gen := strings.Join(sel, ", ")
	if r.Intn(5) == 0 {
		gen, sel = "all", strings.Split(letters, "")
	}
	root := filepath.Join(c.Tmp, fmt.Sprintf("c20gen-%d", n))
	dir := filepath.Join(root, "course", "unit", "exercise")
	defer os.RemoveAll(root)
	_ = os.MkdirAll(dir, 0o755)
	var tx strings.Builder
	for k, l := range letters {
		fmt.Fprintf(&tx, "-- %c.evy --\nprint %q\n", l, words[k])
	}
	md := "---\ntype: question\ndifficulty: easy\nanswer-type: single-choice\ngenerate-questions: " + gen + "\n---\n\n## Understanding sequence\n\nWhich program generates the following output?\n\n[question](q-gen.txtar \"evy:text\")\n\nChoose one correct answer:\n\n- [answer](q-gen.txtar \"evy:source\")\n"
	_ = os.WriteFile(filepath.Join(dir, "q-gen.md"), []byte(md), 0o644)
	_ = os.WriteFile(filepath.Join(dir, "q-gen.txtar"), []byte(tx.String()), 0o644)
	desc := fmt.Sprintf("generated sub-questions: %d members, generate-questions: %s", nf, gen)
	witness := md + "\n--- q-gen.txtar ---\n" + tx.String()
	defer func() {
		if p := recover(); p != nil {
			c.Violation("verify:crash", fmt.Sprintf("%s: %v", desc, p), witness, nil)
		}
	}()
	m, err := learn.NewQuestionModel(filepath.Join(dir, "q-gen.md"))
	if err != nil {
		c.Violation("harness-question-rejected", desc+": "+err.Error(), witness, nil)
		return
	}
	c.Event("generated_questions", 1)
	c.Distinct("generated|" + letters + "|" + gen)
	ak, err := m.ExportAnswerKey() // verifies every sub-question on the way
	if err != nil {
		c.Violation("verify:generated:export", desc+": ExportAnswerKey failed: "+err.Error(), witness, nil)
		return
	}
	var got []string
	for _, q := range ak["course"]["unit"]["exercise"] {
		got = append(got, q.Single)
	}
	sort.Strings(got)
	want := append([]string{}, sel...)
	sort.Strings(want)
	c.Event("generated_answers_checked", len(got))
	if strings.Join(got, ",") != strings.Join(want, ",") {
		c.Violation("verify:generated:answer-key", fmt.Sprintf("%s: the exported answers are %v, the sub-questions show the outputs of members %v", desc, got, want), witness, nil)
	}
}
