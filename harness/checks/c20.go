package checks

import (
	"encoding/base64"
	"fmt"
	"sort"
	"strings"
	"unicode/utf8"

	"evylang.dev/evy/learn/pkg/learn"

	"verif/core"
)

// C20 — sealed answers round-trip and answer verification is exact.

type c20State struct {
	keys []learn.KeyPair
}

var c20Texts = []string{
	"", "a", "c", "a, c", "b, d, e", "hello world", "é🌍ü", "line1\nline2\n", "key: value # yaml", "- item", "\"quoted\" 'single'", "\x00\x01\x02", "\xff\xfe invalid utf8",
	strings.Repeat("x", 255), strings.Repeat("long answer ", 341), "  padded  ", "---", "%s %d", "<b>&amp;</b>", "a,b,c,d,e,f,g,h,i,j,k,l,m,n,o,p,q,r,s,t,u,v,w,x,y,z",
}

const c20VerifyBlock = 400 // question cells per case

func c20VerifyCells() int {
	total := 0
	for n := 2; n <= 5; n++ {
		outs := 1
		for k := 0; k < n; k++ {
			outs *= 3
		}
		total += outs * (len(c20Markings(n)) * 2)
	}
	return total
}

// c20Markings returns the front matter markings tried for n choices.
func c20Markings(n int) []string {
	var out []string
	// every subset of the n letters (plus one letter beyond n)
	for mask := 1; mask < 1<<(n+1); mask++ {
		var ls []string
		for k := 0; k <= n; k++ {
			if mask&(1<<k) != 0 {
				ls = append(ls, string(rune('a'+k)))
			}
		}
		out = append(out, strings.Join(ls, ", "))
	}
	out = append(out, "A", "a, a", "a,b", " a ", "a b", "z", "a, ", "1", "e, a", "b,a")
	return out
}

func init() {
	core.Register(&core.Check{
		ID:    "C20",
		Level: "exploration",
		Rule: "(seal) texts of 20 classes (empty, ASCII, multi-byte, newlines, YAML-special, NUL, invalid UTF-8, up to 4 KiB) x 4 fresh key pairs (1024 and 2048 bit) + the embedded public key: round trip, then for each sealed value every single byte position of the raw envelope x {+1, ^0x80, 0x00, 0xFF} (sampled to 400 positions for long values), every truncation length (sampled), single-character substitutions and deletions in the base64 text, appended bytes, swapped halves, a sealed value of another text under the same key, the right text under another key; QuestionModel.Seal/Unseal of a text question whose answer is each text with leading/trailing blanks, newlines, tabs, NBSP and ideographic space. (verify) exhaustive grid: n = 2..5 choices x every assignment of outputs {matches, differs, differs by a trailing space} x every subset of marked letters incl. a letter beyond n and malformed markings x {single-choice, multiple-choice}, choices as inline code, text blocks and evy code blocks that are really executed. distinct = distinct (text class, key, tampering) / question cells",
		Assumptions: []string{"closed-form oracle: a tampered or foreign-key value may be rejected or still yield the original, never another text; Verify accepts iff the marking is well formed and {marked} == {choices whose output equals the question's output}"},
		NumCases: func(tier string) int {
			seal := len(c20Texts) * 5
			return seal + (c20VerifyCells()+c20VerifyBlock-1)/c20VerifyBlock
		},
		Exhaustive: func(tier string) bool { return true },
		Setup: func(c *core.Ctx) error {
			st := &c20State{}
			for _, bits := range []int{1024, 1024, 2048, 2048} {
				kp, err := learn.Keygen(bits)
				if err != nil {
					return err
				}
				st.keys = append(st.keys, kp)
			}
			c.State = st
			return nil
		},
		Run:       c20Run,
		MinEvents: []string{"round_trips", "tamperings", "questions_verified"},
	})
}

func c20Run(c *core.Ctx, i int) {
	st := c.State.(*c20State)
	nSeal := len(c20Texts) * 5
	if i < nSeal {
		c20Seal(c, st, c20Texts[i/5], i%5)
		return
	}
	c20Verify(c, (i-nSeal)*c20VerifyBlock)
}

func c20Seal(c *core.Ctx, st *c20State, text string, ki int) {
	if ki == 4 {
		// the embedded public key: encryption only (no private key available)
		sealed, err := learn.Encrypt(learn.PublicKey, text)
		c.Event("embedded_key_encryptions", 1)
		if err != nil || sealed == "" {
			c.Violation("seal:embedded-key", fmt.Sprintf("Encrypt with the embedded public key failed: %v", err), text, nil)
			return
		}
		// nobody but the key holder may read it: another key must not decrypt it to anything
		for _, kp := range st.keys[:2] {
			if got, err := learn.Decrypt(kp.Private, sealed); err == nil && got != text {
				c.Violation("seal:foreign-key-different-text", fmt.Sprintf("a foreign key decrypted the value to another text %q", firstN(got, 60)), text, nil)
			}
			c.Event("tamperings", 1)
		}
		return
	}
	kp := st.keys[ki]
	other := st.keys[(ki+1)%4]
	sealed, err := learn.Encrypt(kp.Public, text)
	if err != nil {
		c.Violation("seal:encrypt-error", err.Error(), text, nil)
		return
	}
	got, err := learn.Decrypt(kp.Private, sealed)
	c.Event("round_trips", 1)
	c.Cover("text-class", firstN(fmt.Sprintf("%q", text), 24))
	if err != nil || got != text {
		c.Violation("seal:round-trip", fmt.Sprintf("Decrypt(Encrypt(t)) = %q, %v", firstN(got, 80), err), text, nil)
		return
	}
	c.Distinct(fmt.Sprintf("roundtrip|%q|%d", text, ki))
	raw, _ := base64.StdEncoding.DecodeString(sealed)
	try := func(kind string, cand string, priv string) {
		c.Event("tamperings", 1)
		c.Cover("tamper", kind)
		var got string
		var err error
		func() {
			defer func() {
				if p := recover(); p != nil {
					err = fmt.Errorf("panic: %v", p)
					c.Violation("seal:crash:"+kind, fmt.Sprintf("Decrypt panicked on a tampered value: %v", p), text, map[string]any{"sealed": cand})
				}
			}()
			got, err = learn.Decrypt(priv, cand)
		}()
		if err == nil && got != text {
			c.Violation("seal:different-text:"+kind, fmt.Sprintf("a tampered sealed value (%s) decrypts without error to another text: %q", kind, firstN(got, 80)), text, map[string]any{"sealed": cand})
		}
		if err == nil {
			c.Event("tampered_still_original", 1)
		}
	}
	// byte-level tampering of the raw envelope
	positions := make([]int, 0, len(raw))
	if len(raw) <= 420 {
		for p := range raw {
			positions = append(positions, p)
		}
	} else {
		// header, first and last RSA bytes, ciphertext and tag, and a sample
		rsaLen := int(raw[1])<<8 | int(raw[2])
		for p := 0; p < 8; p++ {
			positions = append(positions, p)
		}
		for p := rsaLen; p < rsaLen+8 && p < len(raw); p++ {
			positions = append(positions, p)
		}
		for p := len(raw) - 20; p < len(raw); p++ {
			positions = append(positions, p)
		}
		for k := 0; k < 360; k++ {
			positions = append(positions, c.Rng.Intn(len(raw)))
		}
	}
	for _, p := range positions {
		for _, f := range []func(byte) byte{func(b byte) byte { return b + 1 }, func(b byte) byte { return b ^ 0x80 }, func(byte) byte { return 0 }, func(byte) byte { return 0xff }} {
			mod := append([]byte(nil), raw...)
			nb := f(mod[p])
			if nb == mod[p] {
				continue
			}
			mod[p] = nb
			try("byte", base64.StdEncoding.EncodeToString(mod), kp.Private)
		}
	}
	// truncations
	step := 1
	if len(raw) > 300 {
		step = len(raw) / 150
	}
	for l := 0; l < len(raw); l += step {
		try("truncate", base64.StdEncoding.EncodeToString(raw[:l]), kp.Private)
	}
	for l := len(raw) - 18; l < len(raw); l++ {
		if l >= 0 {
			try("truncate", base64.StdEncoding.EncodeToString(raw[:l]), kp.Private)
		}
	}
	// appended bytes, swapped halves
	try("append", base64.StdEncoding.EncodeToString(append(append([]byte(nil), raw...), 0)), kp.Private)
	try("append", base64.StdEncoding.EncodeToString(append(append([]byte(nil), raw...), raw...)), kp.Private)
	half := len(raw) / 2
	try("swap-halves", base64.StdEncoding.EncodeToString(append(append([]byte(nil), raw[half:]...), raw[:half]...)), kp.Private)
	// base64 text level
	for k := 0; k < 120 && len(sealed) > 0; k++ {
		p := c.Rng.Intn(len(sealed))
		b := []byte(sealed)
		b[p] = "ABCDEFGHIJKLMNOPQRSTUVWXYZabcdefghijklmnopqrstuvwxyz0123456789+/=!"[c.Rng.Intn(66)]
		try("base64-substitute", string(b), kp.Private)
		try("base64-delete", sealed[:p]+sealed[p+1:], kp.Private)
	}
	// another text under the same key, the right text under another key
	if text != "other text" {
		s2, _ := learn.Encrypt(kp.Public, "other text")
		if got, err := learn.Decrypt(kp.Private, s2); err != nil || got != "other text" {
			c.Violation("seal:round-trip", "second text does not round-trip", "other text", nil)
		}
		// splice: header+RSA part of one value with the AES part of the other
		r2, _ := base64.StdEncoding.DecodeString(s2)
		rsaLen := int(raw[1])<<8 | int(raw[2])
		if len(r2) > rsaLen+3 && len(raw) > rsaLen+3 {
			try("splice-rsa-of-other", base64.StdEncoding.EncodeToString(append(append([]byte(nil), r2[:rsaLen+3]...), raw[rsaLen+3:]...)), kp.Private)
		}
	}
	try("foreign-key", sealed, other.Private)
	// question level: the answer of a question file sealed and unsealed through the model
	if ki < 2 {
		for _, t := range []string{text, " " + text, text + " ", text + "\n", "\t" + text + "\n\n", "\u00a0" + text + "\u3000", "\n" + text} {
			c20ModelSeal(c, kp, t)
		}
	}
}

// yamlQuote returns t as a YAML double-quoted scalar, or "" if t needs escapes this function does not write.
func yamlQuote(t string) string {
	if !utf8.ValidString(t) {
		return ""
	}
	var b strings.Builder
	b.WriteByte('"')
	for _, r := range t {
		switch {
		case r == '"':
			b.WriteString("\\\"")
		case r == '\\':
			b.WriteString("\\\\")
		case r == '\n':
			b.WriteString("\\n")
		case r == '\t':
			b.WriteString("\\t")
		case r < 0x20 || r == 0x7f || r == 0x85 || r == 0x2028 || r == 0x2029 || r == 0xfeff:
			return ""
		default:
			b.WriteRune(r)
		}
	}
	b.WriteByte('"')
	return b.String()
}

const c20TextQuestionMD = "## Understanding sequence: `print`\n\nComplete the program that generates this output:\n\n```\n1\n```\n\nProgram:\n\n```evy\n\nprint 2\n```\n"

// c20ModelSeal: QuestionModel.Seal then Unseal (and Decrypt of the stored sealed value) must give back
// exactly the answer text the model held before sealing.
func c20ModelSeal(c *core.Ctx, kp learn.KeyPair, text string) {
	q := yamlQuote(text)
	if q == "" || text == "" {
		return
	}
	fm := "type: question\ndifficulty: easy\nanswer-type: text\nanswer: " + q + "\n"
	desc := fmt.Sprintf("question-level seal of %q", firstN(text, 60))
	defer func() {
		if p := recover(); p != nil {
			c.Violation("seal:model-crash", fmt.Sprintf("%s: %v", desc, p), fm+"---\n"+c20TextQuestionMD, nil)
		}
	}()
	m, err := learn.NewQuestionModel("course/unit/exercise/q.md", learn.WithRawMD(fm, c20TextQuestionMD), learn.WithPrivateKey(kp.Private))
	if err != nil {
		c.Cover("model-not-built", firstN(err.Error(), 40))
		return
	}
	before := m.Frontmatter.Answer
	if before != text {
		c.Cover("model-yaml-changed-text", "yes") // the YAML layer, not sealing, changed the text: judge what the model holds
	}
	if before == "" {
		return
	}
	c.Event("model_round_trips", 1)
	c.Distinct("model|" + text)
	if err := m.Seal(kp.Public); err != nil {
		c.Violation("seal:model-seal-error", fmt.Sprintf("%s: Seal failed: %v", desc, err), fm, nil)
		return
	}
	if m.Frontmatter.Answer != "" || m.Frontmatter.SealedAnswer == "" || !m.IsSealed() {
		c.Violation("seal:model-not-sealed", desc+": after Seal the plain answer is still present or no sealed answer is stored", fm, nil)
		return
	}
	if got, err := learn.Decrypt(kp.Private, m.Frontmatter.SealedAnswer); err != nil || got != before {
		c.Violation("seal:model-round-trip", fmt.Sprintf("%s: the stored sealed answer decrypts to %q (%v), the model held %q", desc, firstN(got, 80), err, firstN(before, 80)), fm, nil)
		return
	}
	if err := m.Unseal(); err != nil || m.Frontmatter.Answer != before || m.Frontmatter.SealedAnswer != "" {
		c.Violation("seal:model-round-trip", fmt.Sprintf("%s: after Seal and Unseal the answer is %q (%v), before it was %q", desc, firstN(m.Frontmatter.Answer, 80), err, firstN(before, 80)), fm, nil)
	}
}

// c20Question builds the markdown of a choice question.
func c20Question(n int, outs []int, style int) string {
	var b strings.Builder
	b.WriteString("## Question\n\nWhat does this program print?\n\n```evy\nprint \"Q\"\n```\n\nChoose:\n\n")
	for k := 0; k < n; k++ {
		val := []string{"Q", fmt.Sprintf("x%d", k), "Q "}[outs[k]]
		switch (style + k) % 3 {
		case 0: // inline code
			if outs[k] == 2 {
				b.WriteString("- ```\n  Q \n  ```\n")
			} else {
				b.WriteString("- `" + val + "`\n")
			}
		case 1: // text block
			b.WriteString("- ```\n  " + val + "\n  ```\n")
		case 2: // evy code block, really executed
			b.WriteString("- ```evy\n  print \"" + val + "\"\n  ```\n")
		}
	}
	return b.String()
}

func c20Verify(c *core.Ctx, from int) {
	// enumerate cells in a fixed order and judge those in [from, from+block)
	idx := 0
	done := 0
	for n := 2; n <= 5; n++ {
		marks := c20Markings(n)
		nouts := 1
		for k := 0; k < n; k++ {
			nouts *= 3
		}
		cells := nouts * len(marks) * 2
		if idx+cells <= from {
			idx += cells
			continue
		}
		for o := 0; o < nouts; o++ {
			outs := make([]int, n)
			v := o
			for k := 0; k < n; k++ {
				outs[k] = v % 3
				v /= 3
			}
			for mi, mark := range marks {
				for t := 0; t < 2; t++ {
					if idx >= from && idx < from+c20VerifyBlock {
						c20VerifyCell(c, n, outs, mark, t, (o+mi)%3)
						done++
					}
					idx++
					if idx >= from+c20VerifyBlock {
						return
					}
				}
			}
		}
	}
	_ = done
}

func c20VerifyCell(c *core.Ctx, n int, outs []int, mark string, t int, style int) {
	atype := []string{"single-choice", "multiple-choice"}[t]
	fm := "type: question\ndifficulty: easy\nanswer-type: " + atype + "\nanswer: \"" + mark + "\"\n"
	md := c20Question(n, outs, style)
	cell := fmt.Sprintf("%s|n=%d|outs=%v|marked=%q|style=%d", atype, n, outs, mark, style)
	c.Event("questions_verified", 1)
	c.Distinct(cell)
	c.Cover("answer-type", atype)
	c.Cover("choices", fmt.Sprint(n))
	// expected verdict
	matching := map[string]bool{}
	for k := 0; k < n; k++ {
		if outs[k] == 0 {
			matching[string(rune('a'+k))] = true
		}
	}
	wellFormed := true
	marked := map[string]bool{}
	parts := strings.Split(mark, ",")
	for _, p := range parts {
		p = strings.TrimSpace(p)
		if len(p) != 1 || p[0] < 'a' || p[0] > 'z' {
			wellFormed = false
		}
		marked[p] = true
	}
	if atype == "single-choice" {
		m := mark
		if len(m) != 1 || m[0] < 'a' || m[0] > 'z' {
			wellFormed = false
		}
		marked = map[string]bool{m: true}
	}
	want := wellFormed && len(marked) == len(matching)
	for l := range marked {
		if !matching[l] {
			want = false
		}
	}
	var got bool
	var verr error
	func() {
		defer func() {
			if p := recover(); p != nil {
				verr = fmt.Errorf("panic: %v", p)
				c.Violation("verify:crash", fmt.Sprintf("%s: %v", cell, p), fm+"---\n"+md, nil)
			}
		}()
		q, err := learn.NewQuestionModel("course/unit/exercise/q.md", learn.WithRawMD(fm, md))
		if err != nil {
			verr = err
			return
		}
		verr = q.Verify()
	}()
	got = verr == nil
	if got != want {
		ms := make([]string, 0, len(matching))
		for l := range matching {
			ms = append(ms, l)
		}
		sort.Strings(ms)
		kind := "accepts-wrong-marking"
		if want {
			kind = "rejects-right-marking"
		}
		beyond := false
		for l := range marked {
			if len(l) == 1 && l[0] >= 'a' && int(l[0]-'a') >= n {
				beyond = true
			}
		}
		if beyond && !want {
			kind += ":letter-beyond-choices"
		}
		c.Violation("verify:"+kind, fmt.Sprintf("%s: Verify accepted=%v (%v) but the matching choices are %v", cell, got, verr, ms), fm+"---\n"+md, nil)
	}
	if c.Res.Counters["questions_verified"]%4001 == 1 {
		c.Sample(map[string]any{"cell": cell, "accepted": got, "markdown": firstN(md, 300)})
	}
}
