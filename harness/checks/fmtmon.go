package checks

import (
	"bytes"
	"fmt"
	"os"
	"os/exec"
	"regexp"
	"strconv"
	"strings"
	"time"

	"evylang.dev/evy/pkg/lexer"
	"evylang.dev/evy/pkg/parser"

	"verif/core"
	"verif/plat"
)

// formatGuard parses and formats src, converting panics into violations.
func formatGuard(c *core.Ctx, src string) (prog *parser.Program, out string, ok bool) {
	c.Journal(src)
	defer func() {
		if p := recover(); p != nil {
			c.Violation("format-panic@"+plat.PanicSite(), "Parse/Format panicked: "+firstN(fmt.Sprint(p), 300), src, nil)
			ok = false
		}
	}()
	prog, err := parser.Parse(src, plat.Builtins())
	if err != nil {
		return nil, "", false
	}
	return prog, prog.Format(), true
}

type sigTok struct {
	typ lexer.TokenType
	val string
}

// sigTokens returns the non-whitespace tokens of src by (type, value): numbers by float value,
// strings by unquoted value, comments by trimmed text.
func sigTokens(src string) []sigTok {
	l := lexer.New(src)
	var out []sigTok
	for {
		t := l.Next()
		switch t.Type {
		case lexer.EOF:
			return out
		case lexer.WS, lexer.NL:
			continue
		case lexer.NUM_LIT:
			v, err := strconv.ParseFloat(t.Literal, 64)
			if err == nil {
				out = append(out, sigTok{t.Type, strconv.FormatFloat(v, 'g', -1, 64)})
			} else {
				out = append(out, sigTok{t.Type, t.Literal})
			}
		case lexer.COMMENT:
			out = append(out, sigTok{t.Type, strings.TrimSpace(t.Literal)})
		default:
			out = append(out, sigTok{t.Type, t.Literal})
		}
	}
}

func sigString(toks []sigTok, i int) string {
	lo, hi := i-4, i+4
	if lo < 0 {
		lo = 0
	}
	if hi > len(toks) {
		hi = len(toks)
	}
	var parts []string
	for _, t := range toks[lo:hi] {
		parts = append(parts, fmt.Sprintf("%v(%s)", t.typ, t.val))
	}
	return strings.Join(parts, " ")
}

var posRe = regexp.MustCompile(`line \d+ column \d+`)

func stripPos(s string) string { return posRe.ReplaceAllString(s, "line _ column _") }

// runSig runs src and returns a signature of its observable behaviour with source positions
// removed.
func runSig(src string, budget int) (string, *plat.Outcome) {
	o := plat.Run(src, plat.Opts{Inputs: []string{"3", "abc", "", "7", "y", "1 2", "q"}, RandSeed: 7, YieldBudget: budget, MaxEvents: 5000})
	sig := o.Class + "|" + stripPos(o.ErrText) + "|" + o.GoPanic + "|" + strings.Join(o.Events, "\n")
	return stripPos(sig), o
}

// evyCmd runs the real evy binary.
func evyCmd(c *core.Ctx, stdin string, args ...string) (stdout, stderr string, code int, err error) {
	return evyCmdIn(c, "", stdin, args...)
}

// evyCmdIn runs the evy binary with dir as working directory ("" = the harness's).
func evyCmdIn(c *core.Ctx, dir, stdin string, args ...string) (stdout, stderr string, code int, err error) {
	if c.EvyBin == "" {
		return "", "", -1, fmt.Errorf("no evy binary (VERIF_EVY unset)")
	}
	cmd := exec.Command(c.EvyBin, args...)
	cmd.Dir = dir
	cmd.Stdin = strings.NewReader(stdin)
	var ob, eb bytes.Buffer
	cmd.Stdout, cmd.Stderr = &ob, &eb
	cmd.Env = append(os.Environ(), "EVY_SKIP_SLEEP=1")
	if err := cmd.Start(); err != nil {
		return "", "", -1, err
	}
	done := make(chan error, 1)
	go func() { done <- cmd.Wait() }()
	select {
	case werr := <-done:
		code = 0
		if werr != nil {
			if ee, ok := werr.(*exec.ExitError); ok {
				code = ee.ExitCode()
			} else {
				return ob.String(), eb.String(), -1, werr
			}
		}
		return ob.String(), eb.String(), code, nil
	case <-time.After(60 * time.Second):
		_ = cmd.Process.Kill()
		<-done
		return ob.String(), eb.String(), -1, fmt.Errorf("evy %v: no exit within 60 s", args)
	}
}

// canonicalForm checks the closed-form layout rules of a formatted text and returns a list of
// (rule, detail) complaints.
func canonicalForm(f string) [][2]string {
	var bad [][2]string
	if f == "" {
		return append(bad, [2]string{"final-newline", "formatted text is empty"})
	}
	if !strings.HasSuffix(f, "\n") {
		bad = append(bad, [2]string{"final-newline", "no newline at end"})
	} else if strings.HasSuffix(f, "\n\n") && f != "\n" {
		bad = append(bad, [2]string{"final-newline", "more than one newline at end"})
	}
	lines := strings.Split(strings.TrimSuffix(f, "\n"), "\n")
	blank := 0
	// expected indentation
	depth, open := 0, 0
	pendingBlock, elseIf := false, false
	for ln, line := range lines {
		if strings.TrimRight(line, " \t\r") != line {
			bad = append(bad, [2]string{"trailing-whitespace", fmt.Sprintf("line %d: %q", ln+1, line)})
		}
		if strings.TrimSpace(line) == "" {
			blank++
			if blank == 2 && !(ln+1 == len(lines)) {
				bad = append(bad, [2]string{"blank-lines", fmt.Sprintf("line %d: second consecutive blank line", ln+1)})
			}
			continue
		}
		blank = 0
		ind := len(line) - len(strings.TrimLeft(line, " "))
		if strings.HasPrefix(strings.TrimLeft(line, " "), "\t") {
			bad = append(bad, [2]string{"indent", fmt.Sprintf("line %d: tab in indentation", ln+1)})
		}
		toks := lineTokens(line)
		lineDepth := depth
		if pendingBlock && elseIf {
			lineDepth-- // continuation lines of an `else if` header
		}
		closers := 0
		if open == 0 && len(toks) > 0 {
			switch toks[0] {
			case lexer.END, lexer.ELSE:
				lineDepth--
			}
		} else {
			for _, t := range toks {
				if t == lexer.RBRACKET || t == lexer.RCURLY {
					closers++
				} else {
					break
				}
			}
		}
		if closers > 1 {
			closers = 1 // `]]`: the line is indented for the innermost literal that it closes first
		}
		want := 4 * (lineDepth + open - closers)
		if open > 0 && closers == 0 {
			want = 4 * (lineDepth + open)
		}
		if ind != want {
			bad = append(bad, [2]string{"indent", fmt.Sprintf("line %d: indentation %d, expected %d (block depth %d, open literals %d): %q", ln+1, ind, want, lineDepth, open, line)})
		}
		// update state
		if open == 0 && len(toks) > 0 {
			switch toks[0] {
			case lexer.IF, lexer.WHILE, lexer.FOR, lexer.FUNC, lexer.ON:
				pendingBlock = true // the block starts after the header, which may span a multi-line literal
			case lexer.ELSE:
				if len(toks) > 1 && toks[1] == lexer.IF {
					pendingBlock, elseIf = true, true
				}
			case lexer.END:
				depth--
			}
		}
		for _, t := range toks {
			switch t {
			case lexer.LBRACKET, lexer.LCURLY:
				open++
			case lexer.RBRACKET, lexer.RCURLY:
				open--
			}
		}
		if open < 0 {
			open = 0
		}
		if pendingBlock && open == 0 {
			if !elseIf {
				depth++
			}
			pendingBlock, elseIf = false, false
		}
	}
	return bad
}

func lineTokens(line string) []lexer.TokenType {
	l := lexer.New(line)
	var out []lexer.TokenType
	for {
		t := l.Next()
		if t.Type == lexer.EOF {
			return out
		}
		if t.Type == lexer.WS {
			continue
		}
		out = append(out, t.Type)
	}
}

func tail(s string, n int) string {
	if len(s) > n {
		return s[len(s)-n:]
	}
	return s
}
