package checks

import (
	"fmt"
	"math/rand"
	"strings"

	"evylang.dev/evy/pkg/lexer"
	"evylang.dev/evy/pkg/parser"

	"verif/core"
	"verif/corpus"
	"verif/mut"
	"verif/plat"
)

// srcPool hands out accepted source texts of different origins.
type srcPool struct {
	files []corpus.File
	toks  [][]mut.Tok
}

func newPool(repo string) (*srcPool, error) {
	p := &srcPool{}
	p.files = corpus.Load(repo)
	for _, d := range corpus.DocExamples(repo) {
		p.files = append(p.files, corpus.File{Path: fmt.Sprintf("%s:%d", d.Doc, d.Line), Src: d.Src})
	}
	// keep only accepted programs
	var files []corpus.File
	for _, f := range p.files {
		if acceptedQuiet(f.Src) {
			files = append(files, f)
			p.toks = append(p.toks, mut.Tokenize(f.Src))
		}
	}
	p.files = files
	if len(files) == 0 {
		return nil, fmt.Errorf("no accepted corpus program under %s", repo)
	}
	return p, nil
}

func acceptedQuiet(src string) (ok bool) {
	defer func() {
		if recover() != nil {
			ok = false
		}
	}()
	_, err := parser.Parse(src, plat.Builtins())
	return err == nil
}

// decorate injects comments, blank lines, tabs and trailing spaces at token level.
func decorate(r *rand.Rand, toks []mut.Tok) []mut.Tok {
	var out []mut.Tok
	depth := 0
	for i, t := range toks {
		switch t.Type {
		case lexer.LBRACKET, lexer.LCURLY, lexer.LPAREN:
			depth++
		case lexer.RBRACKET, lexer.RCURLY, lexer.RPAREN:
			depth--
		}
		if t.Type == lexer.NL {
			prevComment := i > 0 && toks[i-1].Type == lexer.COMMENT
			switch r.Intn(12) {
			case 0:
				if !prevComment {
					out = append(out, mut.Tok{Type: lexer.COMMENT, Text: " // c" + fmt.Sprint(r.Intn(100))})
				}
			case 1:
				if !prevComment {
					out = append(out, mut.Tok{Type: lexer.WS, Text: strings.Repeat(" ", 1+r.Intn(3))})
				}
			case 2:
				if !prevComment {
					out = append(out, mut.Tok{Type: lexer.COMMENT, Text: "//tight"})
				}
			case 3, 4: // a comment followed by trailing blanks / tabs (on every kind of line, also while / else / end)
				if !prevComment {
					out = append(out, mut.Tok{Type: lexer.COMMENT, Text: " // t" + fmt.Sprint(r.Intn(100)) + []string{" ", "  ", "\t", " \t "}[r.Intn(4)]})
				}
			}
			out = append(out, t)
			switch r.Intn(14) {
			case 0:
				out = append(out, mut.Tok{Type: lexer.NL, Text: "\n"})
			case 1:
				out = append(out, mut.Tok{Type: lexer.NL, Text: "\n"}, mut.Tok{Type: lexer.NL, Text: "\n"}, mut.Tok{Type: lexer.NL, Text: "\n"})
			case 2:
				out = append(out, mut.Tok{Type: lexer.COMMENT, Text: strings.Repeat(" ", r.Intn(9)) + "// own line " + fmt.Sprint(r.Intn(100))}, mut.Tok{Type: lexer.NL, Text: "\n"})
			case 3:
				out = append(out, mut.Tok{Type: lexer.WS, Text: "\t"})
			case 4:
				out = append(out, mut.Tok{Type: lexer.WS, Text: "   "}, mut.Tok{Type: lexer.NL, Text: "\n"})
			}
			continue
		}
		if t.Type == lexer.WS && r.Intn(8) == 0 {
			// change the amount (not the presence) of horizontal whitespace
			out = append(out, mut.Tok{Type: lexer.WS, Text: []string{" ", "  ", "\t", " \t ", "    "}[r.Intn(5)]})
			continue
		}
		out = append(out, t)
	}
	_ = depth
	return out
}

// pick returns an accepted source for case i together with its origin.
func (p *srcPool) pick(c *core.Ctx, i int) (string, string) {
	r := c.Rng
	fi := i % len(p.files)
	round := i / len(p.files)
	base := p.files[fi]
	if round == 0 {
		return base.Src, "corpus"
	}
	for try := 0; try < 30; try++ {
		switch (round + try) % 3 {
		case 0:
			src := mut.Join(decorate(r, p.toks[fi]))
			if acceptedQuiet(src) {
				return src, "decorated"
			}
		case 1:
			m, _ := mut.Mutate(r, p.toks[fi], 1+r.Intn(2))
			src := mut.Join(m)
			if src != base.Src && acceptedQuiet(src) {
				return src, "mutant"
			}
		case 2:
			m, _ := mut.Mutate(r, decorate(r, p.toks[fi]), 1)
			src := mut.Join(m)
			if acceptedQuiet(src) {
				return src, "decorated-mutant"
			}
		}
	}
	return base.Src, "corpus"
}
