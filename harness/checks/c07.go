package checks

import (
	"fmt"
	"math/rand"
	"os"
	"path/filepath"
	"strings"

	"evylang.dev/evy/pkg/lexer"

	"verif/core"
	"verif/mut"
)

// C07 — formatting is canonical and idempotent.

func init() {
	core.Register(&core.Check{
		ID:    "C07",
		Level: "exploration",
		Rule: "accepted sources as in C06 plus enumerated runs of statements/comments/blank lines/func blocks and 160 enumerated multi-line literals (blank-line runs and comments in every position, five indentation contexts); for each: Format twice, 4-8 variants that differ only in the amount of optional horizontal whitespace and the length of blank-line runs, closed-form layout rules, and (sampled) evy fmt -c; " +
			"distinct = distinct source texts for which at least one variant differs from the source",
		Assumptions: []string{
			"variants change only the amount of whitespace where whitespace is already present, whitespace at line starts/ends and before end-of-line comments, and the length (>=1 blank line stays >=1) of blank-line runs",
			"indentation oracle: 4 x (block depth + open multi-line literals - leading closing brackets), block depth from leading keywords of the formatted lines",
		},
		NeedsEvy: true,
		NumCases: func(tier string) int {
			if tier == "thorough" {
				return 40000 + numRunPatterns(6)
			}
			return 2000 + numRunPatterns(4)
		},
		Setup: func(c *core.Ctx) error {
			p, err := newPool(c.Repo)
			c.State = p
			return err
		},
		Run: c07Run,
		Probe: func(c *core.Ctx, f core.Finding) (bool, string) {
			_, out, ok := formatGuard(c, f.Probe)
			if !ok {
				return false, "probe no longer accepted"
			}
			for _, b := range canonicalForm(out) {
				if b[0] == "final-newline" {
					return true, fmt.Sprintf("%q formats to %q", f.Probe, out)
				}
			}
			return false, ""
		},
		MinEvents: []string{"sources", "idempotence_checked", "variants_checked", "lines_checked"},
	})
}

// run patterns: sequences over {s: statement, c: comment, b: blank line, f: func block, o: on block}
var runAlphabet = []string{"s", "c", "b", "f"}

func numRunPatterns(maxLen int) int {
	n, p := 0, 1
	for l := 1; l <= maxLen; l++ {
		p *= len(runAlphabet)
		n += p
	}
	return n
}

func runPattern(idx, maxLen int) string {
	p := 1
	for l := 1; l <= maxLen; l++ {
		p *= len(runAlphabet)
		if idx < p {
			var b strings.Builder
			for k := 0; k < l; k++ {
				b.WriteString(runAlphabet[idx%len(runAlphabet)])
				idx /= len(runAlphabet)
			}
			return b.String()
		}
		idx -= p
	}
	return "s"
}

func patternSource(pat string) string {
	var b strings.Builder
	nf := 0
	for k, ch := range pat {
		switch ch {
		case 's':
			fmt.Fprintf(&b, "print %d\n", k)
		case 'c':
			fmt.Fprintf(&b, "// comment %d\n", k)
		case 'b':
			b.WriteString("\n")
		case 'f':
			nf++
			if nf%2 == 1 {
				fmt.Fprintf(&b, "func f%d\n    print \"f\"\nend\n", k)
			} else {
				fmt.Fprintf(&b, "func g%d:num n:num // sig\n    // inner\n\n    return n\nend // e\n", k)
			}
		}
	}
	return b.String()
}

// deepSource nests n blocks (if/while/for/func bodies and multi-line literals) to exercise the
// indentation rule at every depth.
func deepSource(r *rand.Rand, n int) string {
	var b strings.Builder
	b.WriteString("x := 0\n")
	kinds := make([]int, n)
	for d := 0; d < n; d++ {
		kinds[d] = r.Intn(3)
		switch kinds[d] {
		case 0:
			fmt.Fprintf(&b, "if x >= 0 // d%d\n", d)
		case 1:
			fmt.Fprintf(&b, "for i%d := range 1\n", d)
		case 2:
			fmt.Fprintf(&b, "while x < %d\n", d+1)
		}
		fmt.Fprintf(&b, "x = x + 1\n")
	}
	b.WriteString("arr := [\n1\n[\n2 // c\n3\n]\n]\nm := {\na:1\nb:{\nk:[\n4\n]\n}\n}\nprint arr m\n")
	for d := n - 1; d >= 0; d-- {
		if kinds[d] == 1 {
			fmt.Fprintf(&b, "x = x + i%d\n", d)
		}
		b.WriteString("end\n")
	}
	b.WriteString("print x\n")
	return b.String()
}

func c07Run(c *core.Ctx, i int) {
	p := c.State.(*srcPool)
	maxLen := 4
	if c.Tier == "thorough" {
		maxLen = 6
	}
	np := numRunPatterns(maxLen)
	var src, origin string
	if i < np {
		pat := runPattern(i, maxLen)
		src, origin = patternSource(pat), "run-pattern"
		c.Cover("pattern-length", fmt.Sprint(len(pat)))
	} else if (i-np)%40 == 17 {
		// blocks whose body is nothing but blank lines (the one way to write an empty block), in every block kind
		k := ((i - np) / 40) % len(c07BlankBlocks)
		src, origin = c07BlankBlocks[k], "deep-nesting"
		c.Cover("blank-only-block", fmt.Sprint(k))
	} else if m := (i - np) % 40; m == 13 || m == 23 || m == 27 || m == 37 {
		// multi-line array and map literals: empty ones, blank-line runs of every length, comments in
		// every position, at every indentation level
		k := (i-np)/40*4 + map[int]int{13: 0, 23: 1, 27: 2, 37: 3}[m]
		src, origin = c07MultilineLiteral(k), "deep-nesting"
		c.Cover("multiline-literal", fmt.Sprint(k%c07MultilineCount))
	} else if (i-np)%40 == 7 {
		depth := 1 + ((i-np)/40)%16
		src, origin = deepSource(c.Rng, depth), "deep-nesting"
		c.Cover("nesting-depth", fmt.Sprint(depth))
	} else {
		src, origin = pickSource(c, p, i-np)
	}
	c.Cover("origin", origin)
	c07One(c, src, origin, i)
}

var c07BlankBlocks = []string{
	"if true\n\nend\n", "if true\n\n\n\nend\nprint 1\n", "func nop\n\nend\nnop\n", "while false\n\nend\n", "for range 2\n\nend\n", "if true\n    print 1\nelse\n\nend\n",
	"if false\n\nelse if true\n\nelse\n\nend\n", "on key\n\nend\n", "for i := range 2\n    if i > 0\n\n    end\n    print i\nend\n", "func f:num\n    if true\n\n    end\n    return 1\nend\nprint (f)\n",
	"if true\n    // only a comment\nend\n", "while false\n    \n\t\nend\n", "if true\n\n    print 1\n\nend\n", "func g\n\n    print 2\n\n\nend\ng\n",
}

// c07MultilineLiteral enumerates (index k, wrapping) multi-line literals: bracket kind x inner
// layout (blank-line runs of 1..4 lines, comments after the opener / on their own line / after the
// last element / before the closer, zero to two elements) x context (top level, in a block, in a
// nested block, nested in another multi-line literal, as a call argument).
const c07MultilineCount = 2 * 16 * 5

func c07MultilineLiteral(k int) string {
	k %= c07MultilineCount
	kind, lay, ctx := k%2, (k/2)%16, k/32
	open, cl, e1, e2 := "[", "]", "1", "2"
	if kind == 1 {
		open, cl, e1, e2 = "{", "}", "a:1", "b:2"
	}
	nl := func(n int) string { return strings.Repeat("\n", n) }
	var in string // text between the brackets
	switch lay {
	case 0, 1, 2, 3: // only blank lines
		in = nl(lay + 1)
	case 4, 5, 6: // comment after the opener, then blank lines
		in = " // c" + nl(lay-3)
	case 7: // comment on its own line between blank-line runs
		in = nl(2) + "// c" + nl(3)
	case 8: // one element, comment after it, closer on the next line
		in = "\n" + e1 + " // last" + "\n"
	case 9: // elements, then a comment-only line right before the closer
		in = "\n" + e1 + "\n" + e2 + "\n// end" + "\n"
	case 10: // elements separated by blank-line runs
		in = nl(3) + e1 + nl(3) + e2 + nl(3)
	case 11: // element right after the opener, comment, blank lines
		in = e1 + " // c" + nl(3)
	case 12: // comment lines only
		in = "\n// a\n// b\n"
	case 13: // comment, two blank lines, comment
		in = "\n// a" + nl(3) + "// b\n"
	case 14: // element and closer on one line after blank lines
		in = nl(3) + e1 + " " + e2
	default: // trailing comment on the opener, element, blank lines, comment, closer
		in = " // o\n" + e1 + nl(2) + "// c\n"
	}
	lit := open + in + cl
	switch ctx {
	case 0:
		return "x := " + lit + "\nprint x\n"
	case 1:
		return "if true\n    x := " + lit + "\n    print x\nend\n"
	case 2:
		return "func f\n    for i := range 2\n        x := " + lit + "\n        print x i\n    end\nend\nf\n"
	case 3:
		if kind == 1 {
			return "x := {\n    outer:" + lit + "\n    o2:{}\n}\nprint x\n"
		}
		return "x := [\n    " + lit + "\n    []\n]\nprint x\n"
	default:
		return "while true\n    print " + lit + " (len " + lit + ")\n    break\nend\n"
	}
}

func c07One(c *core.Ctx, src, origin string, i int) {
	c.Event("sources", 1)
	_, f, ok := formatGuard(c, src)
	if !ok {
		if origin == "run-pattern" || origin == "deep-nesting" {
			c.Violation("pattern-rejected", "enumerated statement run was rejected", src, nil)
		}
		return
	}
	// 1. idempotence
	_, f2, ok2 := formatGuard(c, f)
	c.Event("idempotence_checked", 1)
	if !ok2 {
		c.Violation("formatted-rejected", "formatted text is rejected or crashes the formatter", src, map[string]any{"formatted": f})
		return
	}
	if f2 != f {
		c.Violation("not-idempotent", "Format(Format(s)) != Format(s): "+firstDiff(f, f2), src, map[string]any{"once": f, "twice": f2})
	}
	// 2. closed-form layout
	c.Event("lines_checked", strings.Count(f, "\n"))
	for _, b := range canonicalForm(f) {
		key := b[0]
		if key == "final-newline" {
			if endsWithBlankLine(src) {
				key = "final-newline:source-ends-with-blank-line"
			} else {
				key = "final-newline:other"
			}
		}
		c.Violation(key, b[1], src, map[string]any{"formatted": f})
	}
	// 3. whitespace variants
	toks := mut.Tokenize(src)
	nvar := 4
	if c.Tier == "thorough" {
		nvar = 8
	}
	changed := false
	for k := 0; k < nvar; k++ {
		v := wsVariant(c.Rng, toks)
		if v == src {
			continue
		}
		changed = true
		c.Event("variants_checked", 1)
		_, fv, okv := formatGuard(c, v)
		if !okv {
			// a variant that is not accepted is a harness problem or an acceptance that depends on the
			// amount of whitespace; record as inconclusive with the text, never as pass
			c.Inconclusive("whitespace variant not accepted: " + firstN(fmt.Sprintf("%q", v), 200))
			continue
		}
		if fv != f {
			c.Violation("variant-differs", "two sources differing only in optional whitespace format differently: "+firstDiff(f, fv), src, map[string]any{"variant": v, "formatted": f, "formatted_variant": fv})
			break
		}
	}
	if changed {
		c.Distinct(src)
	}
	// 4. evy fmt -c (sample)
	if c.EvyBin != "" && i%50 == 0 {
		c07CLI(c, src, f)
	}
	if i%997 == 0 {
		c.Sample(map[string]any{"origin": origin, "source": firstN(src, 240), "formatted": firstN(f, 240)})
	}
}

func endsWithBlankLine(src string) bool {
	t := strings.TrimRight(src, " \t\r")
	if !strings.HasSuffix(t, "\n") {
		return false
	}
	t = strings.TrimRight(t[:len(t)-1], " \t\r")
	return strings.HasSuffix(t, "\n") || t == ""
}

func c07CLI(c *core.Ctx, src, f string) {
	c.Event("cli_check_runs", 1)
	// formatted text must pass, through stdin and through a file, and the file must not change
	_, errOut, code, err := evyCmd(c, f, "fmt", "-c")
	if err != nil {
		c.Inconclusive("evy fmt -c: " + err.Error())
		return
	}
	if code != 0 {
		c.Violation("check-rejects-formatted", fmt.Sprintf("evy fmt -c exits %d (%s) on the formatter's own output", code, firstN(errOut, 200)), f, nil)
	}
	// stdin to stdout without flags: the formatted text, whether or not the input already is formatted
	for _, in := range []string{f, src} {
		out, errOut, code, err := evyCmd(c, in, "fmt")
		if err != nil {
			c.Inconclusive("evy fmt (stdin): " + err.Error())
			return
		}
		c.Event("cli_stdin_runs", 1)
		if code != 0 || out != f {
			c.Violation("stdin-mode-output", fmt.Sprintf("evy fmt reading stdin (already formatted: %v): exit %d (%s), wrote %d bytes, the formatted text has %d: %s", in == f, code, firstN(errOut, 100), len(out), len(f), firstDiff(f, out)), in, nil)
			break
		}
	}
	// lines longer than any reader buffer (4 KiB, 64 KiB) through stdin: same text as in-process, and the
	// formatter's own output passes -c
	nl := 700 + c.Rng.Intn(900)
	long := "nums := [" + strings.Repeat("123456 ", nl) + "]\nprint nums[0] // " + strings.Repeat("c", 66000+c.Rng.Intn(9000)) + "\nm := {" + c07ManyKeys(800) + "}\nprint m\n"
	if _, lf, ok := formatGuard(c, long); ok {
		out, errOut, code, err := evyCmd(c, long, "fmt")
		c.Event("cli_stdin_runs", 1)
		if err == nil && (code != 0 || out != lf) {
			c.Violation("stdin-mode-output", fmt.Sprintf("evy fmt reading a source with very long lines from stdin: exit %d (%s), wrote %d bytes, the formatted text has %d: %s", code, firstN(errOut, 100), len(out), len(lf), firstDiff(lf, out)), firstN(long, 300), nil)
		}
		if _, errOut, code, err := evyCmd(c, lf, "fmt", "-c"); err == nil && code != 0 {
			c.Violation("check-rejects-formatted", fmt.Sprintf("evy fmt -c (stdin) exits %d (%s) on the formatter's own output with very long lines", code, firstN(errOut, 200)), firstN(lf, 300), nil)
		}
		if _, _, code, err := evyCmd(c, long, "fmt", "-c"); err == nil && (code == 0) != (long == lf) {
			c.Violation("check-wrong-verdict", fmt.Sprintf("evy fmt -c (stdin) on an unformatted source with very long lines: exit %d", code), firstN(long, 300), nil)
		}
	} else {
		c.Violation("harness-program-rejected", "the long-line source is rejected", firstN(long, 200), nil)
	}
	path := filepath.Join(c.Tmp, "c07.evy")
	for _, tc := range []struct {
		text string
		want bool
	}{{f, true}, {src, src == f},
		// near misses of the formatter's output: only the text itself passes
		{strings.TrimSuffix(f, "\n"), f == ""}, {f + " ", false}, {" " + f, f == ""},
		{"// " + strings.Repeat("long comment ", 5500) + "\n" + f + "x   :=   1\nprint    x\n", false}} {
		if tc.text != f && tc.text != src {
			// expectation for a near miss: is it its own formatted text (in-process formatter)?
			_, ft, ok := formatGuard(c, tc.text)
			tc.want = ok && ft == tc.text
		}
		if err := os.WriteFile(path, []byte(tc.text), 0o644); err != nil {
			c.Inconclusive(err.Error())
			return
		}
		_, errOut, code, err := evyCmd(c, "", "fmt", "-c", path)
		if err != nil {
			c.Inconclusive("evy fmt -c file: " + err.Error())
			return
		}
		after, _ := os.ReadFile(path)
		if string(after) != tc.text {
			c.Violation("check-modifies-file", "evy fmt -c modified its input file", tc.text, nil)
		}
		if (code == 0) != tc.want {
			c.Violation("check-wrong-verdict", fmt.Sprintf("evy fmt -c exit %d (%s) but text is-formatted=%v", code, firstN(errOut, 200), tc.want), tc.text, nil)
		}
	}
	os.Remove(path)
	// several files: --check must fail if any of them is not formatted, whatever the order
	if src != f {
		good, bad := filepath.Join(c.Tmp, "c07good.evy"), filepath.Join(c.Tmp, "c07bad.evy")
		_ = os.WriteFile(good, []byte(f), 0o644)
		_ = os.WriteFile(bad, []byte(src), 0o644)
		for _, args := range [][]string{{good, bad}, {bad, good}, {good, bad, good}, {good, good}} {
			_, errOut, code, err := evyCmd(c, "", append([]string{"fmt", "-c"}, args...)...)
			if err != nil {
				c.Inconclusive("evy fmt -c multi: " + err.Error())
				break
			}
			c.Event("cli_multi_file_checks", 1)
			anyBad := false
			for _, a := range args {
				if a == bad {
					anyBad = true
				}
			}
			if (code == 0) == anyBad {
				names := make([]string, len(args))
				for k, a := range args {
					names[k] = filepath.Base(a)
				}
				c.Violation("check-wrong-verdict-multi", fmt.Sprintf("evy fmt -c %v exits %d (%s) although unformatted-file-present=%v", names, code, firstN(errOut, 120), anyBad), src, nil)
				break
			}
		}
		os.Remove(good)
		os.Remove(bad)
	}
}

// wsVariant changes only the amount of optional horizontal whitespace and the length of
// blank-line runs.
func wsVariant(r *rand.Rand, toks []mut.Tok) string {
	ws := func() string { return []string{" ", "  ", "\t", "   ", " \t"}[r.Intn(5)] }
	var b strings.Builder
	n := len(toks)
	for i := 0; i < n; i++ {
		t := toks[i]
		atLineStart := i == 0 || toks[i-1].Type == lexer.NL
		switch {
		case t.Type == lexer.WS:
			nextEnds := i+1 >= n || toks[i+1].Type == lexer.NL || toks[i+1].Type == lexer.COMMENT
			if atLineStart || (nextEnds && (i+1 >= n || toks[i+1].Type == lexer.NL)) {
				// indentation / trailing whitespace: any amount including none
				switch r.Intn(3) {
				case 0:
				case 1:
					b.WriteString(ws())
				default:
					b.WriteString(t.Text)
				}
			} else if r.Intn(3) == 0 {
				b.WriteString(ws())
			} else {
				b.WriteString(t.Text)
			}
		case t.Type == lexer.NL:
			// measure the run of blank lines following this NL: NL (WS? NL)*
			j := i + 1
			blanks := 0
			for j < n {
				k := j
				if toks[k].Type == lexer.WS {
					k++
				}
				if k < n && toks[k].Type == lexer.NL {
					blanks++
					j = k + 1
				} else {
					break
				}
			}
			b.WriteString("\n")
			if blanks > 0 {
				nb := blanks
				if r.Intn(2) == 0 {
					nb = 1 + r.Intn(4)
				}
				for k := 0; k < nb; k++ {
					if r.Intn(4) == 0 {
						b.WriteString(ws())
					}
					b.WriteString("\n")
				}
				i = j - 1
			} else if r.Intn(10) == 0 && i+1 < n && toks[i+1].Type != lexer.WS && toks[i+1].Type != lexer.NL {
				b.WriteString(ws()) // add indentation where there was none
			}
		default:
			if r.Intn(12) == 0 && i+1 < n && toks[i+1].Type == lexer.NL && t.Type != lexer.COMMENT {
				b.WriteString(t.Text)
				b.WriteString(ws()) // trailing whitespace
			} else {
				b.WriteString(t.Text)
			}
		}
	}
	return b.String()
}

func c07ManyKeys(n int) string {
	var b strings.Builder
	for k := 0; k < n; k++ {
		fmt.Fprintf(&b, "k%d:%d ", k, k)
	}
	return b.String()
}
