package checks

import (
	"bytes"
	"encoding/xml"
	"fmt"
	"math"
	"os"
	"path/filepath"
	"strconv"
	"strings"

	"evylang.dev/evy/pkg/cli"
	"evylang.dev/evy/pkg/evaluator"

	"verif/core"
)

// C19 — SVG output is well formed and shows exactly what was drawn.

func init() {
	core.Register(&core.Check{
		ID:    "C19",
		Level: "exploration",
		Rule:  "random sequences of 1-60 graphics calls (move/line/rect/circle/poly/ellipse/text/clear/grid/gridn and the style setters color/hsl/width/stroke/fill/dash/linecap/font) with style changes between every pair of shapes in some runs and never in others, degenerate arguments (0, negative, NaN, infinities, huge, empty and markup-like strings, dash with 0/odd/negative segments, poly with 0-2 vertices, ellipse with 3/4/5/7 arguments, gridn with fractional and large units); driven through the library (cli platform with SVG, in-process; every third drawing directly after an unrelated drawing with other fonts, pens and grids, every seventh rendered twice) and sampled through `evy run --svg-out -`/file with --svg-width/height/style; the output is parsed by a strict XML parser, flattened (group nesting and inherited presentation attributes resolved down to leaf shapes) and compared with a reference pen model. distinct = distinct call sequences",
		Assumptions: []string{
			"text colour: the effective fill of a text may be the pen's fill or stroke colour (documentation and golden files disagree); text outline not judged",
			"not judged: font baseline mapping, ellipse start/end angles (documented as not implemented), NaN/Inf geometry (only well-formedness)",
			"grid lines: colour, count and the 1:2 thin:thick widths are compared; their line cap and dash pattern are not judged",
		},
		NeedsEvy: true,
		NumCases: func(tier string) int {
			if tier == "thorough" {
				return 40000
			}
			return 1500
		},
		Run:       c19Run,
		Probe:     c19Probe,
		MinEvents: []string{"sequences", "shapes_compared", "documents_parsed"},
	})
}

type penStyle struct {
	stroke, fill string
	width        float64
	dash, cap    string
	family       string
	size, weight float64
	fstyle       string
	anchor       string
	spacing      string
}

type shape struct {
	kind    string
	geo     []float64
	pts     string
	text    string
	st      penStyle
	grid    bool   // grid line: only stroke and width judged
	nan     bool   // geometry contains NaN/Inf: not judged
	fillAlt string // alternative acceptable fill (text)
}

type penModel struct {
	x, y   float64
	st     penStyle
	shapes []shape
}

func newPen() *penModel {
	return &penModel{st: penStyle{stroke: "black", fill: "black", width: 1, cap: "round", family: `"Fira Code", monospace`, size: 60, weight: 400, fstyle: "normal", anchor: "start", spacing: "0"}}
}

func tx(x float64) float64 { return 10 * x }
func ty(y float64) float64 { return 1000 - 10*y }

func ftoa(f float64) string { return strconv.FormatFloat(f, 'f', -1, 64) }

func bad(vs ...float64) bool {
	for _, v := range vs {
		if math.IsNaN(v) || math.IsInf(v, 0) {
			return true
		}
	}
	return false
}

func (p *penModel) add(s shape) {
	s.st = p.st
	p.shapes = append(p.shapes, s)
}

type gcall struct {
	name string
	nums []float64
	strs []string
	pts  [][]float64
	font map[string]string // evy source of the value
}

func (c gcall) src() string {
	var b strings.Builder
	b.WriteString(c.name)
	numSrc := func(v float64) string {
		switch {
		case math.IsNaN(v):
			return "(0/zero)"
		case math.IsInf(v, 1):
			return "(1/zero)"
		case math.IsInf(v, -1):
			return "(-1/zero)"
		case v < 0:
			return "-" + ftoa(-v)
		}
		return ftoa(v)
	}
	for _, n := range c.nums {
		b.WriteString(" " + numSrc(n))
	}
	for _, s := range c.strs {
		b.WriteString(" " + strconv.Quote(s))
	}
	for _, p := range c.pts {
		b.WriteString(" [")
		for i, v := range p {
			if i > 0 {
				b.WriteString(" ")
			}
			b.WriteString(numSrc(v))
		}
		b.WriteString("]")
	}
	if c.font != nil {
		b.WriteString(" {")
		keys := []string{"family", "size", "weight", "style", "baseline", "align", "letterspacing"}
		for _, k := range keys {
			if v, ok := c.font[k]; ok {
				b.WriteString(k + ":" + v + " ")
			}
		}
		b.WriteString("}")
	}
	return b.String()
}

// apply updates the pen model; ok=false means the call is expected to panic (sequence ends).
func (p *penModel) apply(c gcall) (ok bool) {
	n := c.nums
	switch c.name {
	case "move":
		p.x, p.y = n[0], n[1]
	case "line":
		p.add(shape{kind: "line", geo: []float64{tx(p.x), ty(p.y), tx(n[0]), ty(n[1])}, nan: bad(p.x, p.y, n[0], n[1])})
		p.x, p.y = n[0], n[1]
	case "rect":
		x0, y0 := tx(p.x), ty(p.y)
		x1, y1 := tx(p.x+n[0]), ty(p.y+n[1])
		p.add(shape{kind: "rect", geo: []float64{math.Min(x0, x1), math.Min(y0, y1), math.Abs(10 * n[0]), math.Abs(10 * n[1])}, nan: bad(p.x, p.y, n[0], n[1])})
		p.x, p.y = p.x+n[0], p.y+n[1]
	case "circle":
		p.add(shape{kind: "circle", geo: []float64{tx(p.x), ty(p.y), 10 * n[0]}, nan: bad(p.x, p.y, n[0])})
	case "poly":
		var pts []string
		isBad := false
		for _, v := range c.pts {
			if len(v) != 2 {
				return false
			}
			pts = append(pts, ftoa(tx(v[0]))+","+ftoa(ty(v[1])))
			isBad = isBad || bad(v[0], v[1])
		}
		p.add(shape{kind: "polyline", pts: strings.Join(pts, " "), nan: isBad})
	case "ellipse":
		if len(n) < 3 || len(n) == 6 || len(n) > 7 {
			return false
		}
		rx, ry, rot := n[2], n[2], 0.0
		if len(n) > 3 {
			ry = n[3]
		}
		if len(n) > 4 {
			rot = n[4]
		}
		p.add(shape{kind: "ellipse", geo: []float64{tx(n[0]), ty(n[1]), 10 * rx, 10 * ry, rot}, nan: bad(n...)})
	case "text":
		s := shape{kind: "text", geo: []float64{tx(p.x), ty(p.y)}, text: c.strs[0], nan: bad(p.x, p.y)}
		p.add(s)
		p.shapes[len(p.shapes)-1].fillAlt = p.st.stroke
	case "clear":
		col := "white"
		if len(c.strs) > 0 && c.strs[0] != "" {
			col = c.strs[0]
		}
		s := shape{kind: "background"}
		p.shapes = append(p.shapes, s)
		p.shapes[len(p.shapes)-1].st = penStyle{fill: col, stroke: col}
	case "grid", "gridn":
		unit, col := 10.0, "hsl(0deg 100% 0% / 50%)"
		if c.name == "gridn" {
			unit, col = n[0], c.strs[0]
		}
		if !(unit > 0) {
			return false
		}
		cnt := 0
		for i := 0.0; i <= 1000; i += 10 * unit {
			w := 1.0
			if cnt%5 == 0 {
				w = 2
			}
			cnt++
			for k := 0; k < 2; k++ {
				g := []float64{i, 0, i, 1000}
				if k == 1 {
					g = []float64{0, i, 1000, i}
				}
				p.shapes = append(p.shapes, shape{kind: "line", geo: g, grid: true, st: penStyle{stroke: col, width: w}})
			}
		}
	case "color", "colour":
		p.st.stroke, p.st.fill = c.strs[0], c.strs[0]
	case "stroke":
		p.st.stroke = c.strs[0]
	case "fill":
		p.st.fill = c.strs[0]
	case "width":
		p.st.width = 10 * n[0]
	case "linecap":
		p.st.cap = c.strs[0]
	case "dash":
		var parts []string
		for _, v := range n {
			parts = append(parts, ftoa(10*v))
		}
		p.st.dash = strings.Join(parts, " ")
	case "font":
		for k, v := range c.font {
			u, _ := strconv.Unquote(v)
			f, _ := strconv.ParseFloat(v, 64)
			switch k {
			case "family":
				p.st.family = u
			case "size":
				if !(f > 0) {
					return false
				}
				p.st.size = 10 * f
			case "weight":
				if !(f > 0) {
					return false
				}
				p.st.weight = f
			case "style":
				p.st.fstyle = u
			case "align":
				switch u {
				case "left":
					p.st.anchor = "start"
				case "center":
					p.st.anchor = "middle"
				case "right":
					p.st.anchor = "end"
				default:
					return false
				}
			case "baseline":
				if u != "top" && u != "middle" && u != "bottom" && u != "alphabetic" {
					return false
				}
			case "letterspacing":
				p.st.spacing = ftoa(f)
			}
		}
	}
	return true
}

func c19Sequence(c *core.Ctx) []gcall {
	r := c.Rng
	nums := []float64{0, 1, 5, 10, 25.5, 50, 99, 100, -10, 0.5, 150, 1000000, math.NaN(), math.Inf(1), -0.25}
	safe := []float64{0, 1, 5, 10, 25.5, 50, 99, 100, -10, 0.5, 75, 33}
	num := func() float64 {
		if r.Intn(12) == 0 {
			return nums[r.Intn(len(nums))]
		}
		return safe[r.Intn(len(safe))]
	}
	colors := []string{"red", "blue", "green", "none", "#ff00aa", "hsl(210deg 100% 50% / 100%)", "transparent", "", "<&\">", "]]>", "rgb(1,2,3)", "a\tb", "é🌍", "black"}
	texts := []string{"hi", "", "<b>&amp;</b>", "é🌍", "a \"q\" b", "]]>", "line\nbreak", "  spaces  ", "\x01ctl"}
	styleEvery := r.Intn(3) // 0: never, 1: between every pair of shapes, 2: random
	n := 1 + r.Intn(60)
	var seq []gcall
	style := func() gcall {
		switch r.Intn(8) {
		case 0:
			return gcall{name: []string{"color", "colour"}[r.Intn(2)], strs: []string{colors[r.Intn(len(colors))]}}
		case 1:
			return gcall{name: "stroke", strs: []string{colors[r.Intn(len(colors))]}}
		case 2:
			return gcall{name: "fill", strs: []string{colors[r.Intn(len(colors))]}}
		case 3:
			return gcall{name: "width", nums: []float64{[]float64{0.1, 1, 2, 0, 0.5, 10, -1}[r.Intn(7)]}}
		case 4:
			k := r.Intn(5)
			var d []float64
			for i := 0; i < k; i++ {
				d = append(d, []float64{1, 2, 0, 0.5, -1, 5}[r.Intn(6)])
			}
			return gcall{name: "dash", nums: d}
		case 5:
			return gcall{name: "linecap", strs: []string{[]string{"round", "butt", "square", "bogus", ""}[r.Intn(5)]}}
		default:
			f := map[string]string{}
			opts := [][2]string{{"family", `"serif"`}, {"family", `"A<B>, \"q\""`}, {"size", "3"}, {"size", "6"}, {"size", "0.5"}, {"weight", "700"}, {"weight", "400"},
				{"style", `"italic"`}, {"style", `"normal"`}, {"baseline", `"top"`}, {"baseline", `"alphabetic"`}, {"align", `"center"`}, {"align", `"right"`}, {"align", `"left"`},
				{"letterspacing", "1"}, {"letterspacing", "-0.5"}, {"letterspacing", "0"}, {"size", "0"}, {"align", `"nowhere"`}, {"weight", "-1"}}
			for k := 0; k < 1+r.Intn(3); k++ {
				o := opts[r.Intn(len(opts))]
				if (o[1] == "0" && o[0] == "size" || o[1] == `"nowhere"` || o[1] == "-1") && r.Intn(6) > 0 {
					continue
				}
				f[o[0]] = o[1]
			}
			return gcall{name: "font", font: f}
		}
	}
	for k := 0; k < n; k++ {
		if styleEvery == 1 || (styleEvery == 2 && r.Intn(3) == 0) {
			seq = append(seq, style())
		}
		switch r.Intn(13) {
		case 0, 1:
			seq = append(seq, gcall{name: "move", nums: []float64{num(), num()}})
		case 2, 3:
			seq = append(seq, gcall{name: "line", nums: []float64{num(), num()}})
		case 4:
			seq = append(seq, gcall{name: "rect", nums: []float64{num(), num()}})
		case 5, 6:
			seq = append(seq, gcall{name: "circle", nums: []float64{num()}})
		case 7:
			var pts [][]float64
			for i := 0; i < r.Intn(5); i++ {
				pts = append(pts, []float64{num(), num()})
			}
			if r.Intn(25) == 0 {
				pts = append(pts, []float64{1})
			}
			seq = append(seq, gcall{name: "poly", pts: pts})
		case 8:
			k := []int{3, 4, 5, 7, 3, 4, 2, 6}[r.Intn(8)]
			var a []float64
			for i := 0; i < k; i++ {
				a = append(a, num())
			}
			seq = append(seq, gcall{name: "ellipse", nums: a})
		case 9:
			seq = append(seq, gcall{name: "text", strs: []string{texts[r.Intn(len(texts))]}})
		case 10:
			if r.Intn(2) == 0 {
				seq = append(seq, gcall{name: "clear"})
			} else {
				seq = append(seq, gcall{name: "clear", strs: []string{colors[r.Intn(len(colors))]}})
			}
		case 11:
			seq = append(seq, gcall{name: "grid"})
		case 12:
			u := []float64{10, 25, 50, 33.3, 2.5, 100, 200, 0, -5, 7}[r.Intn(10)]
			if (u <= 0) && r.Intn(5) > 0 {
				u = 20
			}
			seq = append(seq, gcall{name: "gridn", nums: []float64{u}, strs: []string{colors[r.Intn(len(colors))]}})
		}
	}
	return seq
}

// flattened leaf of the produced document
type leaf struct {
	kind  string
	attrs map[string]string // effective presentation attributes
	own   map[string]string
	text  string
}

var inherited = []string{"fill", "stroke", "stroke-width", "stroke-linecap", "stroke-dasharray", "font-size", "font-weight", "font-style", "font-family", "text-anchor", "letter-spacing", "dominant-baseline"}

func flattenSVG(doc string) ([]leaf, map[string]string, error) {
	dec := xml.NewDecoder(strings.NewReader(doc))
	dec.Strict = true
	var stack []map[string]string
	var leaves []leaf
	var root map[string]string
	var cur *leaf
	depth := 0
	for {
		tok, err := dec.Token()
		if err != nil {
			if err.Error() == "EOF" {
				break
			}
			return nil, nil, err
		}
		switch t := tok.(type) {
		case xml.StartElement:
			depth++
			own := map[string]string{}
			for _, a := range t.Attr {
				own[a.Name.Local] = a.Value
			}
			eff := map[string]string{}
			if len(stack) > 0 {
				for k, v := range stack[len(stack)-1] {
					eff[k] = v
				}
			}
			for _, k := range inherited {
				if v, ok := own[k]; ok {
					eff[k] = v
				}
			}
			switch t.Name.Local {
			case "svg":
				if depth != 1 {
					return nil, nil, fmt.Errorf("nested svg element")
				}
				root = own
				stack = append(stack, eff)
			case "g":
				stack = append(stack, eff)
			case "line", "rect", "circle", "polyline", "ellipse", "text":
				leaves = append(leaves, leaf{kind: t.Name.Local, attrs: eff, own: own})
				cur = &leaves[len(leaves)-1]
				stack = append(stack, eff)
			default:
				return nil, nil, fmt.Errorf("unexpected element <%s>", t.Name.Local)
			}
		case xml.EndElement:
			depth--
			stack = stack[:len(stack)-1]
			cur = nil
		case xml.CharData:
			if cur != nil && cur.kind == "text" {
				cur.text += string(t)
			}
		}
	}
	if root == nil {
		return nil, nil, fmt.Errorf("no svg root element")
	}
	return leaves, root, nil
}

func effAttr(l leaf, k, initial string) string {
	if v, ok := l.attrs[k]; ok {
		return v
	}
	return initial
}

func sameNum(a string, want float64) bool {
	v, err := strconv.ParseFloat(a, 64)
	if err != nil {
		return false
	}
	return math.Abs(v-want) <= 1e-9*math.Max(1, math.Abs(want))
}

// compareShapes returns "" or a description of the first difference.
type shapeDiff struct{ cls, why string }

func compareShapes(want []shape, got []leaf) (diffs []shapeDiff) {
	seen := map[string]bool{}
	report := func(cls, why string) {
		if !seen[cls] {
			seen[cls] = true
			diffs = append(diffs, shapeDiff{cls, why})
		}
	}
	_ = report
	if len(want) != len(got) {
		return []shapeDiff{{"shape-count", fmt.Sprintf("%d leaf shapes in the document, %d were drawn", len(got), len(want))}}
	}
	for i, w := range want {
		g := got[i]
		kind := w.kind
		if kind == "background" {
			kind = "rect"
		}
		if g.kind != kind {
			return append(diffs, shapeDiff{"shape-kind", fmt.Sprintf("shape %d is <%s>, drawn was %s", i, g.kind, w.kind)})
		}
		where := fmt.Sprintf("shape %d (%s)", i, w.kind)
		if w.kind == "background" {
			if g.own["width"] != "100%" || g.own["height"] != "100%" {
				report("geometry:background", where+": background does not cover the canvas")
			}
			if effAttr(g, "fill", "black") != w.st.fill && w.st.fill != "" {
				report("style:background-fill", fmt.Sprintf("%s: fill %q, cleared to %q", where, effAttr(g, "fill", "black"), w.st.fill))
			}
			continue
		}
		if !w.nan {
			var names []string
			switch w.kind {
			case "line":
				names = []string{"x1", "y1", "x2", "y2"}
			case "rect":
				names = []string{"x", "y", "width", "height"}
			case "circle":
				names = []string{"cx", "cy", "r"}
			case "ellipse":
				names = []string{"cx", "cy", "rx", "ry"}
			case "text":
				names = []string{"x", "y"}
			}
			for k, nme := range names {
				if !sameNum(g.own[nme], w.geo[k]) {
					report("geometry:"+w.kind+":"+nme, fmt.Sprintf("%s: %s=%q, expected %s", where, nme, g.own[nme], ftoa(w.geo[k])))
				}
			}
			if w.kind == "polyline" && g.own["points"] != w.pts {
				report("geometry:polyline", fmt.Sprintf("%s: points %q, expected %q", where, g.own["points"], w.pts))
			}
			if w.kind == "ellipse" && w.geo[4] != 0 && !strings.HasPrefix(g.own["transform"], "rotate(") {
				report("geometry:ellipse-rotation", where+": rotation missing")
			}
		}
		if got, wantS := effAttr(g, "stroke", "none"), w.st.stroke; got != wantS && w.kind != "text" && wantS != "" {
			report("style:stroke", fmt.Sprintf("%s: effective stroke %q, pen stroke was %q", where, got, wantS))
		}
		if got := effAttr(g, "stroke-width", "1"); !sameNum(got, w.st.width) && w.kind != "text" {
			cls := "style:stroke-width"
			if w.grid {
				cls = "style:grid-line-width"
			}
			report(cls, fmt.Sprintf("%s: effective stroke-width %q, expected %s", where, got, ftoa(w.st.width)))
		}
		if w.grid {
			continue
		}
		if w.kind == "text" {
			if g.text != xmlText(w.text) {
				report("text-content", fmt.Sprintf("%s: content %q, drawn %q", where, g.text, w.text))
			}
			if f := effAttr(g, "fill", "black"); f != w.st.fill && f != w.fillAlt && w.st.fill != "" && w.fillAlt != "" {
				report("style:text-fill", fmt.Sprintf("%s: effective fill %q, pen fill %q / stroke %q", where, f, w.st.fill, w.fillAlt))
			}
			for _, c := range []struct {
				name, initial, want string
			}{{"font-style", "normal", w.st.fstyle}, {"font-family", `"Fira Code", monospace`, w.st.family}, {"text-anchor", "start", w.st.anchor}, {"letter-spacing", "0", w.st.spacing}} {
				if got := effAttr(g, c.name, c.initial); got != c.want {
					report("style:"+c.name, fmt.Sprintf("%s: effective %s %q, expected %q", where, c.name, got, c.want))
				}
			}
			if got := effAttr(g, "font-size", "60"); !sameNum(got, w.st.size) {
				report("style:font-size", fmt.Sprintf("%s: effective font-size %q, expected %s", where, got, ftoa(w.st.size)))
			}
			if got := effAttr(g, "font-weight", "400"); !sameNum(got, w.st.weight) {
				report("style:font-weight", fmt.Sprintf("%s: effective font-weight %q, expected %s", where, got, ftoa(w.st.weight)))
			}
			continue
		}
		if got := effAttr(g, "fill", "black"); got != w.st.fill && w.st.fill != "" {
			report("style:fill", fmt.Sprintf("%s: effective fill %q, pen fill was %q", where, got, w.st.fill))
		}
		if got := effAttr(g, "stroke-linecap", "butt"); got != w.st.cap && w.st.cap != "" {
			report("style:stroke-linecap", fmt.Sprintf("%s: effective stroke-linecap %q, pen line cap was %q", where, got, w.st.cap))
		}
		if got := effAttr(g, "stroke-dasharray", ""); got != w.st.dash {
			report("style:stroke-dasharray", fmt.Sprintf("%s: effective stroke-dasharray %q, pen dash was %q", where, got, w.st.dash))
		}
	}
	return diffs
}

func c19Source(seq []gcall) string {
	var b strings.Builder
	b.WriteString("zero := 0\nzero = zero * 1\n")
	for _, g := range seq {
		b.WriteString(g.src() + "\n")
	}
	return b.String()
}

// c19Library runs src through the cli platform with SVG output in-process.
func c19Library(src string) (doc string, runErr error, goPanic string) {
	var out, svgBuf bytes.Buffer
	rt := cli.NewPlatform(cli.WithSVG("", "", ""), cli.WithOutputWriter(&out), cli.WithSkipSleep(true))
	func() {
		defer func() {
			if p := recover(); p != nil {
				goPanic = fmt.Sprint(p)
			}
		}()
		ev := evaluator.NewEvaluator(rt)
		runErr = ev.Run(src)
		if err := rt.WriteSVG(&svgBuf); err != nil {
			goPanic = "WriteSVG: " + err.Error()
		}
	}()
	return svgBuf.String(), runErr, goPanic
}

func c19Judge(c *core.Ctx, seq []gcall, src, doc, via string) bool {
	pen := newPen()
	pen.shapes = append(pen.shapes, shape{kind: "background", st: penStyle{fill: "white", stroke: "white"}}) // the initial clear
	for _, g := range seq {
		if !pen.apply(g) {
			break // the call panics: the document holds what was drawn before
		}
	}
	c.Event("documents_parsed", 1)
	leaves, _, err := flattenSVG(doc)
	if err != nil {
		c.Violation("malformed-xml", via+": the SVG document is rejected by a strict XML parser: "+err.Error(), src, map[string]any{"document": firstN(doc, 600)})
		return false
	}
	c.Event("shapes_compared", len(leaves))
	diffs := compareShapes(pen.shapes, leaves)
	for _, d := range diffs {
		c.Violation(d.cls, via+": "+d.why, src, map[string]any{"document": firstN(doc, 1500)})
	}
	return len(diffs) == 0
}

func c19Run(c *core.Ctx, i int) {
	seq := c19Sequence(c)
	src := c19Source(seq)
	c.Journal(src)
	c.Event("sequences", 1)
	c.Distinct(src)
	for _, g := range seq {
		c.Cover("call", g.name)
	}
	if i%3 == 1 {
		// another drawing rendered in this process just before: nothing of it may show in this one
		polluters := []string{
			"font {size:4 style:\"italic\"}\ngrid\n", "font {family:\"serif\" size:9 weight:700}\ngridn 10 \"red\"\n", "width 3\ncolor \"blue\"\ngrid\nfont {size:2}\ntext \"t\"\n",
			"dash 3 1\nlinecap \"round\"\ngridn 5 \"green\"\n", "fill \"none\"\nstroke \"red\"\ngrid\ncircle 3\n", "clear \"black\"\nfont {baseline:\"top\" align:\"right\" letterspacing:2}\ngrid\nmove 1 1\n",
		}
		_, _, _ = c19Library(polluters[c.Rng.Intn(len(polluters))])
		c.Event("renderings_after_another_drawing", 1)
	}
	doc, runErr, goPanic := c19Library(src)
	if goPanic != "" {
		c.Violation("crash", "Go panic while drawing: "+firstN(goPanic, 200), src, nil)
		return
	}
	if i%7 == 3 {
		// the same drawing rendered again in the same process gives the same bytes
		doc2, _, _ := c19Library(src)
		if doc2 != doc {
			c.Violation("rendering-depends-on-history", "rendering the same drawing twice in one process gave different documents: "+firstDiff(doc, doc2), src, nil)
			return
		}
	}
	// does the model expect a panic?
	pen := newPen()
	expectPanic := false
	for _, g := range seq {
		if !pen.apply(g) {
			expectPanic = true
			break
		}
	}
	if cls := plat_classify(runErr); expectPanic != strings.HasPrefix(cls, "panic:") {
		c.Violation("outcome", fmt.Sprintf("sequence ended with %s (%v), a panic was expected: %v", cls, runErr, expectPanic), src, nil)
		return
	}
	ok := c19Judge(c, seq, src, doc, "library")
	if !expectPanic && i%3 == 2 {
		c19Grouping(c, seq, src, doc)
	}
	if ok && c.EvyBin != "" && i%25 == 0 {
		path := filepath.Join(c.Tmp, "c19.evy")
		_ = os.WriteFile(path, []byte(src), 0o644)
		args := []string{"run", "--svg-out", "-", path}
		if i%50 == 0 {
			args = []string{"run", "--svg-out", filepath.Join(c.Tmp, "c19.svg"), "--svg-width", "400", "--svg-height", "300", "--svg-style", "border: 1px solid <red> & \"x\"", path}
		}
		stdout, stderr, code, err := evyCmd(c, "", args...)
		c.Event("cli_runs", 1)
		if err != nil {
			c.Violation("cli-no-exit", "evy run --svg-out did not terminate: "+err.Error(), src, nil)
			return
		}
		bdoc := stdout
		if i%50 == 0 {
			b, _ := os.ReadFile(filepath.Join(c.Tmp, "c19.svg"))
			bdoc = string(b)
		}
		if (code != 0) != expectPanic {
			c.Violation("cli-status", fmt.Sprintf("evy run --svg-out exit %d (stderr %q), panic expected: %v", code, firstN(stderr, 200), expectPanic), src, nil)
			return
		}
		c19Judge(c, seq, src, bdoc, "evy run --svg-out")
	}
	if i < 2 {
		c.Sample(map[string]any{"calls": len(seq), "source": firstN(src, 400), "document_head": firstN(doc, 300)})
	}
}

func plat_classify(err error) string {
	if err == nil {
		return "ok"
	}
	if errorsIsPanic(err) {
		return "panic:"
	}
	return "other:" + err.Error()
}

func errorsIsPanic(err error) bool {
	for e := err; e != nil; {
		if e == evaluator.ErrPanic {
			return true
		}
		u, ok := e.(interface{ Unwrap() error })
		if !ok {
			return false
		}
		e = u.Unwrap()
	}
	return false
}

func c19Probe(c *core.Ctx, f core.Finding) (bool, string) {
	doc, _, goPanic := c19Library(f.Probe)
	if goPanic != "" {
		return true, goPanic
	}
	want, _ := f.Extra["must_contain"].(string)
	if want != "" && strings.Contains(doc, want) {
		return true, "document contains " + want
	}
	return false, ""
}

// xmlText maps characters that XML 1.0 cannot represent to U+FFFD, as any XML writer must.
func xmlText(s string) string {
	var b strings.Builder
	for _, r := range s {
		ok := r == 0x9 || r == 0xA || r == 0xD || (r >= 0x20 && r <= 0xD7FF) || (r >= 0xE000 && r <= 0xFFFD) || (r >= 0x10000 && r <= 0x10FFFF)
		if !ok {
			r = 0xFFFD
		}
		b.WriteRune(r)
	}
	return b.String()
}

// initial values of the presentation attributes (SVG 1.1)
var c19Initial = map[string]string{"fill": "black", "stroke": "none", "stroke-width": "1", "stroke-linecap": "butt", "stroke-dasharray": "none", "font-size": "medium", "font-weight": "normal", "font-style": "normal", "font-family": "", "text-anchor": "start", "letter-spacing": "normal", "dominant-baseline": "auto"}

// c19Grouping: how the renderer groups elements that share a style is not part of the drawing. The same
// calls with a neutral pair of style changes (width w+1, width w) after every shape - which ends every
// group - must give leaf for leaf the same element, text, geometry and effective presentation attributes.
func c19Grouping(c *core.Ctx, seq []gcall, src, doc string) {
	pen := newPen()
	var seq2 []gcall
	for _, g := range seq {
		if !pen.apply(g) {
			return
		}
		seq2 = append(seq2, g)
		switch g.name {
		case "line", "rect", "circle", "poly", "ellipse", "text":
			w := pen.st.width / 10
			if !(w >= 0) || w > 1e6 {
				return
			}
			seq2 = append(seq2, gcall{name: "width", nums: []float64{w + 1}}, gcall{name: "width", nums: []float64{w}})
		}
	}
	src2 := c19Source(seq2)
	c.Journal(src2)
	doc2, _, goPanic := c19Library(src2)
	if goPanic != "" {
		c.Violation("crash", "Go panic while drawing: "+firstN(goPanic, 200), src2, nil)
		return
	}
	a, _, err1 := flattenSVG(doc)
	b, _, err2 := flattenSVG(doc2)
	if err1 != nil || err2 != nil {
		return // malformed documents are reported by c19Judge
	}
	c.Event("grouping_variants_compared", 1)
	if len(a) != len(b) {
		c.Violation("grouping-dependent:count", fmt.Sprintf("%d elements, %d when every shape is followed by a neutral width change", len(a), len(b)), src, map[string]any{"variant": src2})
		return
	}
	isInherited := map[string]bool{}
	for _, k := range inherited {
		isInherited[k] = true
	}
	for k := range a {
		c.Event("grouping_leaves_compared", 1)
		why := ""
		switch {
		case a[k].kind != b[k].kind || a[k].text != b[k].text:
			why = fmt.Sprintf("element %d is <%s> %q, in the variant <%s> %q", k, a[k].kind, a[k].text, b[k].kind, b[k].text)
		default:
			rel := []string{"fill", "stroke", "stroke-width", "stroke-linecap", "stroke-dasharray"}
			if a[k].kind == "text" {
				rel = []string{"fill", "font-size", "font-weight", "font-style", "font-family", "text-anchor", "letter-spacing", "dominant-baseline"}
			}
			for _, at := range rel {
				if x, y := effAttr(a[k], at, c19Initial[at]), effAttr(b[k], at, c19Initial[at]); x != y {
					why = fmt.Sprintf("element %d <%s>: effective %s is %q, in the variant %q", k, a[k].kind, at, x, y)
					break
				}
			}
			for at, v := range a[k].own {
				if !isInherited[at] && at != "style" && at != "class" && why == "" && b[k].own[at] != v {
					why = fmt.Sprintf("element %d <%s>: %s is %q, in the variant %q", k, a[k].kind, at, v, b[k].own[at])
				}
			}
		}
		if why != "" {
			c.Violation("grouping-dependent:"+a[k].kind, "the same drawing with a neutral style change after every shape renders differently: "+why, src, map[string]any{"variant": firstN(src2, 1500), "document": firstN(doc, 1200), "variant_document": firstN(doc2, 1200)})
			return
		}
	}
}
