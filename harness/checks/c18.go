package checks

import (
	"bytes"
	"fmt"
	"os"
	"os/exec"
	"path/filepath"
	"regexp"
	"strings"
	"time"

	"verif/core"
)

// C18 — evy fmt never damages a source file and --check tells the truth.

type c18File struct {
	name      string
	content   string
	mode      os.FileMode
	parses    bool
	symlink   bool
	txtar     bool
	roDir     bool
	unpriv    bool // formatted by an unprivileged user in a directory where that user cannot create files
	formatted string // filled in by the clean run
}

func c18Files() []c18File {
	big := strings.Builder{}
	for i := 0; i < 30000; i++ {
		fmt.Fprintf(&big, "x%d:=%d\nprint   x%d\n", i, i, i)
	}
	return []c18File{
		{name: "needs-format.evy", content: "x:=1\nif x>0\nprint   x // c\nend\n", mode: 0o644, parses: true},
		{name: "formatted.evy", content: "x := 1\nprint x\n", mode: 0o600, parses: true},
		{name: "exec-bit.evy", content: "print   \"hi\"\n\n\n\nfunc f\nprint 2\nend\n", mode: 0o755, parses: true},
		{name: "unparsable.evy", content: "x := \nprint (x\n", mode: 0o644, parses: false},
		{name: "empty.evy", content: "", mode: 0o644, parses: true},
		{name: "readonly.evy", content: "a:=[1 2\n3]\nprint a\n", mode: 0o444, parses: true},
		{name: "big.evy", content: big.String(), mode: 0o644, parses: true},
		{name: "link.evy", content: "y:=2\nprint   y\n", mode: 0o644, parses: true, symlink: true},
		{name: "members.txtar", content: "comment\n-- a.evy --\nx:=1\nprint   x\n-- notes.txt --\nkeep   this\n-- b.evy --\nprint   2\n", mode: 0o640, parses: true, txtar: true},
		{name: "growing-members.txtar", content: "three members, the first two grow when formatted\n-- a.evy --\nif true\nif true\nif true\nprint 1\nprint 11\nprint 111\nend\nend\nend\n-- b.evy --\nfor i:=range 3\nwhile i<2\nprint   2 i\nbreak\nend\nend\n-- c.evy --\nprint 3\n-- d.txt --\nlast   member\n", mode: 0o644, parses: true, txtar: true},
		{name: "bad-member.txtar", content: "-- a.evy --\nx:=1\nprint   x\n-- b.evy --\nprint (\n", mode: 0o644, parses: false, txtar: true},
		// permission bits that a umask would filter; CR is an illegal character: CRLF files do not parse
		{name: "group-write.evy", content: "g:=1\nprint   g\n", mode: 0o664, parses: true},
		{name: "world-write.evy", content: "w:=1\nprint   w\n", mode: 0o666, parses: true},
		{name: "group-exec.evy", content: "e:=1\nprint   e\n", mode: 0o775, parses: true},
		{name: "odd-mode.evy", content: "o:=1\nprint   o\n", mode: 0o606, parses: true},
		{name: "crlf.evy", content: "x := 1\r\nprint x\r\n", mode: 0o644, parses: false},
		{name: "crlf-unformatted.evy", content: "x:=1\r\nprint   x\r\n", mode: 0o644, parses: false},
		{name: "crlf.txtar", content: "-- a.evy --\nx := 1\r\nprint x\r\n", mode: 0o644, parses: false, txtar: true},
		{name: "no-final-newline.evy", content: "x := 1\nprint x", mode: 0o644, parses: true},
		{name: "trailing-blank.evy", content: "x := 1\nprint x \n", mode: 0o644, parses: true},
		// a writable file in a directory the user may not create files in (evy runs as `nobody` here): the
		// temporary file cannot be made, so nothing can be formatted - and nothing may be damaged trying
		{name: "no-create-dir.evy", content: "n:=1\nif n>0\nprint   n // c\nend\n" + strings.Repeat("print   n n n\n", 600), mode: 0o666, parses: true, unpriv: true},
	}
}

// kill points: for every syscall kind of the formatting process and every occurrence index on a
// thread (strace counts `when` per tracee and per syscall kind).
var c18KillKinds = []struct {
	name string
	max  int
}{
	{"openat", 12}, {"write", 4}, {"close", 10}, {"renameat", 2}, {"fchmod", 2}, {"read", 10}, {"newfstatat", 8}, {"fstat", 4},
	{"fcntl", 16}, {"epoll_ctl", 8}, {"mmap", 44}, {"rt_sigaction", 120}, {"rt_sigprocmask", 36}, {"futex", 24}, {"clone3", 6},
	{"nanosleep", 64}, {"mprotect", 14}, {"munmap", 8}, {"sigaltstack", 12}, {"getpid", 3}, {"madvise", 4}, {"pread64", 3},
	{"exit_group", 1}, {"unlinkat", 2}, {"getrandom", 2}, {"epoll_pwait", 4}, {"sched_yield", 3}, {"tgkill", 3},
}

var c18FaultKinds = []struct {
	name string
	max  int
}{
	{"openat", 12}, {"write", 4}, {"close", 10}, {"renameat", 2}, {"fchmod", 2}, {"read", 10}, {"newfstatat", 8}, {"fstat", 4}, {"fsync", 1}, {"unlinkat", 2}, {"fcntl", 16},
}
var c18Errnos = []string{"ENOSPC", "EIO", "EACCES", "EDQUOT", "EINTR", "EROFS", "ENOENT", "EMFILE"}

type c18Case struct {
	file  int
	kind  string // clean | kill | fault | shortwrite | check
	sys   string
	when  int
	errno string
}

func c18Cases(tier string) []c18Case {
	files := c18Files()
	var out []c18Case
	fileSet := []int{0, 5}
	if tier == "thorough" {
		fileSet = nil
		for i := range files {
			fileSet = append(fileSet, i)
		}
	}
	for _, fi := range fileSet {
		out = append(out, c18Case{file: fi, kind: "clean"})
		for _, k := range c18KillKinds {
			step := 1
			if tier != "thorough" && k.max > 12 {
				step = k.max / 8
			}
			for w := 1; w <= k.max; w += step {
				out = append(out, c18Case{file: fi, kind: "kill", sys: k.name, when: w})
			}
		}
		for _, k := range c18FaultKinds {
			for w := 1; w <= k.max; w++ {
				errs := c18Errnos
				if tier != "thorough" {
					errs = []string{c18Errnos[(w+len(k.name))%3]}
				}
				for _, e := range errs {
					if e == "EINTR" && k.name != "write" && k.name != "read" {
						continue
					}
					out = append(out, c18Case{file: fi, kind: "fault", sys: k.name, when: w, errno: e})
				}
			}
		}
		// short writes cannot be simulated faithfully: strace's retval injection skips the system
		// call, so the kernel would claim k bytes without having written any (a lying kernel, not a
		// short write); not enumerated.
	}
	// interrupted run followed by another run on the (edited) file
	for _, fi := range []int{0, 6} {
		if tier != "thorough" && fi == 6 {
			continue
		}
		for _, k := range []struct {
			sys, errno string
			n          int
		}{{"write", "", 2}, {"renameat", "", 1}, {"fchmod", "", 1}, {"close", "", 6}, {"write", "ENOSPC", 2}, {"renameat", "EIO", 1}, {"fchmod", "EIO", 1}} {
			for w := 1; w <= k.n; w++ {
				out = append(out, c18Case{file: fi, kind: "rerun", sys: k.sys, when: w, errno: k.errno})
			}
		}
	}
	// the unprivileged shape: a clean run and kills around every file-system call
	for fi, f := range files {
		if !f.unpriv {
			continue
		}
		out = append(out, c18Case{file: fi, kind: "clean"})
		for _, k := range []struct {
			sys string
			n   int
		}{{"openat", 12}, {"write", 6}, {"close", 10}, {"renameat", 2}, {"fchmod", 2}, {"read", 8}, {"ftruncate", 1}, {"unlinkat", 2}} {
			for w := 1; w <= k.n; w++ {
				out = append(out, c18Case{file: fi, kind: "kill", sys: k.sys, when: w})
			}
		}
		for w := 1; w <= 4; w++ {
			out = append(out, c18Case{file: fi, kind: "fault", sys: "write", when: w, errno: "ENOSPC"})
		}
	}
	inSet := map[int]bool{}
	for _, fi := range fileSet {
		inSet[fi] = true
	}
	for fi, f := range files {
		if tier != "thorough" && f.name == "big.evy" {
			continue
		}
		if f.unpriv {
			continue
		}
		if !inSet[fi] {
			out = append(out, c18Case{file: fi, kind: "clean"}) // one uninjected -w run per shape: bytes, mode, status
		}
		out = append(out, c18Case{file: fi, kind: "check"})
	}
	return out
}

func init() {
	core.Register(&core.Check{
		ID:    "C18",
		Level: "fault_enumeration",
		Rule:  "the real evy binary built from the current tree runs `fmt -w` on source files of several shapes (needing changes, already formatted, executable bit, unparsable, empty, read-only, 1 MiB, reached through a symlink, txtar with several members, txtar with an unparsable member, modes 0664/0666/0775/0606, CRLF and CR line endings, missing final newline, trailing blank) under strace -f: a clean traced run, then one run per kill point (every syscall kind of the process x occurrence index: SIGKILL on entering that call) and per injected fault (file-related syscalls x occurrence x errno, short writes); after every run the bytes and mode of the file, the directory listing, exit status and stderr are judged; `fmt -c` on every shape (file and stdin); interrupted runs (kill or fault in write/rename/chmod/close) followed by an edit of the file and a second, uninjected run. distinct = distinct (file shape, injection) pairs whose injection actually fired (strace log)",
		Assumptions: []string{
			"closed-form oracle: file bytes in {original, formatted}; mode unchanged; exit 0 implies the file holds the formatted text; unparsable input: file untouched and exit != 0",
			"durability across power loss (no fsync before rename) is outside the property's quantifier and not claimed; leftover temporary files after a failed write are reported in the evidence but are not violations",
			"an injection that never matched (strace log has no (INJECTED) marker / no kill) is counted separately and is no evidence",
		},
		NeedsEvy:   true,
		NumCases:   func(tier string) int { return len(c18Cases(tier)) },
		Exhaustive: func(tier string) bool { return tier == "thorough" },
		Run:        c18Run,
		MinEvents:  []string{"traced_runs", "injections_fired", "kill_points_fired", "faults_fired", "check_runs"},
	})
}

type c18Result struct {
	exit      int
	stderr    string
	content   string
	mode      os.FileMode
	listing   []string
	straceLog string
	killed    bool
	injected  bool
}

func c18Prepare(c *core.Ctx, f c18File, dir string) (path string, err error) {
	_ = os.RemoveAll(dir)
	if err := os.MkdirAll(dir, 0o755); err != nil {
		return "", err
	}
	path = filepath.Join(dir, f.name)
	target := path
	if f.symlink {
		target = filepath.Join(dir, "real-"+f.name)
		if err := os.Symlink(filepath.Base(target), path); err != nil {
			return "", err
		}
	}
	if err := os.WriteFile(target, []byte(f.content), 0o644); err != nil {
		return "", err
	}
	if err := os.Chmod(target, f.mode); err != nil {
		return "", err
	}
	if f.unpriv {
		if err := os.Chown(target, c18Nobody, c18Nobody); err != nil {
			return "", err
		}
		if err := os.Chmod(dir, 0o555); err != nil {
			return "", err
		}
		// every directory above must let the unprivileged user pass
		for p := filepath.Dir(dir); p != "/" && p != "."; p = filepath.Dir(p) {
			if st, err := os.Stat(p); err == nil && st.Mode().Perm()&0o011 != 0o011 {
				_ = os.Chmod(p, st.Mode().Perm()|0o011)
			}
		}
	}
	return path, nil
}

const c18Nobody = 65534

// c18UnprivBin copies the evy binary to a place the unprivileged user can execute it from.
func c18UnprivBin(c *core.Ctx) (string, error) {
	dst := filepath.Join(c.Tmp, "evy-unpriv")
	if st, err := os.Stat(dst); err == nil && st.Size() > 0 {
		return dst, nil
	}
	b, err := os.ReadFile(c.EvyBin)
	if err != nil {
		return "", err
	}
	if err := os.WriteFile(dst, b, 0o755); err != nil {
		return "", err
	}
	return dst, os.Chmod(dst, 0o755)
}

// c18AsNobody: the traced evy process runs as the unprivileged user `nobody` (strace -u).
var c18AsNobody bool

func c18Exec(c *core.Ctx, dir string, straceArgs []string, evyArgs ...string) (*c18Result, error) {
	logPath := filepath.Join(dir, "..", "strace.log")
	os.Remove(logPath)
	args := append([]string{"-f", "-o", logPath}, straceArgs...)
	bin := c.EvyBin
	if c18AsNobody {
		ub, err := c18UnprivBin(c)
		if err != nil {
			return nil, err
		}
		bin = ub
		args = append(args, "-u", "nobody")
	}
	args = append(args, bin)
	args = append(args, evyArgs...)
	cmd := exec.Command("strace", args...)
	cmd.Dir = dir
	var eb bytes.Buffer
	cmd.Stderr = &eb
	cmd.Stdout = &eb
	if err := cmd.Start(); err != nil {
		return nil, err
	}
	done := make(chan error, 1)
	go func() { done <- cmd.Wait() }()
	res := &c18Result{}
	select {
	case err := <-done:
		if err != nil {
			if ee, ok := err.(*exec.ExitError); ok {
				res.exit = ee.ExitCode()
			} else {
				return nil, err
			}
		}
	case <-time.After(120 * time.Second):
		_ = cmd.Process.Kill()
		<-done
		return nil, fmt.Errorf("no exit within 120 s")
	}
	res.stderr = eb.String()
	lb, _ := os.ReadFile(logPath)
	res.straceLog = string(lb)
	res.killed = strings.Contains(res.straceLog, "+++ killed by SIGKILL +++")
	res.injected = strings.Contains(res.straceLog, "(INJECTED)") || res.killed
	return res, nil
}

func c18Observe(res *c18Result, dir, path string) {
	b, err := os.ReadFile(path)
	if err != nil {
		res.content = "<unreadable: " + err.Error() + ">"
	} else {
		res.content = string(b)
	}
	if st, err := os.Stat(path); err == nil {
		res.mode = st.Mode().Perm()
	}
	ents, _ := os.ReadDir(dir)
	for _, e := range ents {
		res.listing = append(res.listing, e.Name())
	}
}

func c18Run(c *core.Ctx, i int) {
	cases := c18Cases(c.Tier)
	cs := cases[i]
	f := c18Files()[cs.file]
	if f.unpriv && os.Geteuid() != 0 {
		c.Event("unprivileged_cases_skipped_not_root", 1)
		return
	}
	c18AsNobody = f.unpriv
	defer func() { c18AsNobody = false }()
	dir := filepath.Join(c.Tmp, "c18work")
	path, err := c18Prepare(c, f, dir)
	if err != nil {
		c.Inconclusive("prepare: " + err.Error())
		return
	}
	defer func() {
		_ = os.Chmod(dir, 0o755)
		_ = os.RemoveAll(dir)
	}()
	c.Cover("file-shape", f.name)
	c.Cover("case-kind", cs.kind)
	// expected formatted text from a clean untraced run on a copy
	formatted, cleanExit := c18Formatted(c, f)
	desc := fmt.Sprintf("%s %s %s when=%d %s", f.name, cs.kind, cs.sys, cs.when, cs.errno)
	judge := func(res *c18Result, what string) {
		isOrig, isFmt := res.content == f.content, res.content == formatted
		switch {
		case !f.parses:
			if !isOrig {
				c.Violation("unparsable-file-changed", what+": a file that does not parse was modified", desc, map[string]any{"content": firstN(res.content, 300)})
			}
			if res.exit == 0 && !res.killed {
				c.Violation("unparsable-exit-zero", what+": exit status 0 for a file that does not parse", desc, nil)
			}
		case !isOrig && !isFmt:
			c.Violation("file-damaged:"+cs.kind+":"+cs.sys, fmt.Sprintf("%s: the file holds neither its original (%d bytes) nor the formatted text (%d bytes): %d bytes %q…", what, len(f.content), len(formatted), len(res.content), firstN(res.content, 120)), desc, map[string]any{"strace_tail": tail(res.straceLog, 1500)})
		case res.exit == 0 && !res.killed && !isFmt:
			c.Violation("failure-not-reported:"+cs.kind+":"+cs.sys, what+": exit status 0 although the file was not formatted", desc, map[string]any{"strace_tail": tail(res.straceLog, 1500), "stderr": res.stderr})
		}
		if res.mode != f.mode {
			c.Violation("mode-changed", fmt.Sprintf("%s: permission bits changed from %o to %o", what, f.mode, res.mode), desc, nil)
		}
		for _, n := range res.listing {
			if n != f.name && n != "real-"+f.name {
				c.Event("leftover_temp_files", 1)
			}
		}
	}
	switch cs.kind {
	case "clean":
		res, err := c18Exec(c, dir, nil, "fmt", "-w", f.name)
		if err != nil {
			c.Inconclusive(desc + ": " + err.Error())
			return
		}
		c.Event("traced_runs", 1)
		c18Observe(res, dir, path)
		c.Distinct(desc)
		c.Event("syscalls_in_clean_run", strings.Count(res.straceLog, "\n"))
		judge(res, "clean run")
		if f.unpriv {
			c.Event("unprivileged_runs", 1)
			if res.exit == 0 && res.content == f.content {
				c.Violation("failure-not-reported:clean:", "clean run as an unprivileged user in a directory without create permission: exit 0 but nothing was formatted", desc, nil)
			}
		} else if f.parses && (res.exit != 0 || res.content != formatted) {
			c.Violation("clean-run-failed", fmt.Sprintf("clean run: exit %d, formatted=%v, stderr %q", res.exit, res.content == formatted, res.stderr), desc, nil)
		}
		_ = cleanExit
		c.Sample(map[string]any{"file": f.name, "clean_exit": res.exit, "syscalls": strings.Count(res.straceLog, "\n"), "strace_file_lines": grepLines(res.straceLog, f.name, 8)})
	case "kill", "fault", "shortwrite":
		var inj string
		switch cs.kind {
		case "kill":
			inj = fmt.Sprintf("inject=%s:signal=KILL:when=%d", cs.sys, cs.when)
		case "fault":
			inj = fmt.Sprintf("inject=%s:error=%s:when=%d", cs.sys, cs.errno, cs.when)
		case "shortwrite":
			inj = fmt.Sprintf("inject=write:retval=%s:when=%d", cs.errno, cs.when)
		}
		res, err := c18Exec(c, dir, []string{"-e", inj}, "fmt", "-w", f.name)
		if err != nil {
			c.Inconclusive(desc + ": " + err.Error())
			return
		}
		c.Event("traced_runs", 1)
		c18Observe(res, dir, path)
		if !res.injected {
			c.Event("injections_not_matched", 1)
			return
		}
		c.Event("injections_fired", 1)
		c.Distinct(desc)
		if cs.kind == "kill" {
			c.Event("kill_points_fired", 1)
			c.Cover("kill-syscall", cs.sys)
		} else {
			c.Event("faults_fired", 1)
			c.Cover("fault", cs.sys+":"+cs.errno)
		}
		if f.unpriv {
			c.Event("unprivileged_runs", 1)
		}
		judge(res, cs.kind+" "+inj)
	case "rerun":
		// a run that died or failed half way may leave files behind; the next run on the same file
		// (meanwhile edited to something shorter) must not be influenced by them
		inj := fmt.Sprintf("inject=%s:%s:when=%d", cs.sys, map[bool]string{true: "signal=KILL", false: "error=" + cs.errno}[cs.errno == ""], cs.when)
		first, err := c18Exec(c, dir, []string{"-e", inj}, "fmt", "-w", f.name)
		if err != nil {
			c.Inconclusive(desc + ": " + err.Error())
			return
		}
		c.Event("traced_runs", 1)
		if !first.injected {
			c.Event("injections_not_matched", 1)
			return
		}
		target := path
		if f.symlink {
			target = filepath.Join(dir, "real-"+f.name)
		}
		short := "q:=1\nprint   q\n"
		wantShort, _, _, ferr := evyCmd(c, short, "fmt")
		if ferr != nil {
			c.Inconclusive(desc + ": " + ferr.Error())
			return
		}
		_ = os.Chmod(target, 0o644)
		_ = os.WriteFile(target, []byte(short), 0o644)
		_ = os.Chmod(target, f.mode|0o200)
		_, stderr, code, err := evyCmd(c, "", "fmt", "-w", path)
		if err != nil {
			c.Inconclusive(desc + ": " + err.Error())
			return
		}
		got, _ := os.ReadFile(target)
		c.Event("rerun_cases", 1)
		c.Distinct(desc)
		if code != 0 || string(got) != wantShort {
			c.Violation("rerun-after-interrupted-run", fmt.Sprintf("after a run interrupted by %s the file was edited (%d bytes) and formatted again: exit %d (%s), the file holds %d bytes %q, expected %q", inj, len(short), code, firstN(stderr, 100), len(got), firstN(string(got), 80), wantShort), desc, nil)
		}
	case "check":
		c18Check(c, f, dir, path, formatted, desc)
		if f.symlink {
			c18RelativeLink(c, f, dir, formatted, desc)
		}
	}
}

// c18RelativeLink: `evy fmt -w sub/link.evy` where the link's target is relative and the working
// directory holds an unrelated file with the target's name: only the file the link points to may change.
func c18RelativeLink(c *core.Ctx, f c18File, dir, formatted, desc string) {
	proj := filepath.Join(dir, "proj")
	sub := filepath.Join(proj, "samples")
	_ = os.MkdirAll(sub, 0o755)
	decoy := "decoy:=1\nprint   decoy\n"
	_ = os.WriteFile(filepath.Join(proj, "hello.evy"), []byte(decoy), 0o640)
	_ = os.WriteFile(filepath.Join(sub, "hello.evy"), []byte(f.content), 0o644)
	_ = os.Symlink("hello.evy", filepath.Join(sub, "latest.evy"))
	_, stderr, code, err := evyCmdIn(c, proj, "", "fmt", "-w", "samples/latest.evy")
	if err != nil {
		c.Inconclusive(desc + ": " + err.Error())
		return
	}
	c.Event("relative_link_runs", 1)
	got, _ := os.ReadFile(filepath.Join(sub, "latest.evy")) // the file named on the command line (the tool replaces a link by a regular file; its target then keeps the original text, which the property allows)
	dec, _ := os.ReadFile(filepath.Join(proj, "hello.evy"))
	st, _ := os.Stat(filepath.Join(proj, "hello.evy"))
	entries, _ := os.ReadDir(proj)
	switch {
	case string(dec) != decoy || (st != nil && st.Mode().Perm() != 0o640):
		c.Violation("unrelated-file-changed", fmt.Sprintf("evy fmt -w samples/latest.evy (link to hello.evy, run from the directory above): the unrelated ./hello.evy was changed (exit %d, %s)", code, firstN(stderr, 120)), desc, nil)
	case code != 0 || string(got) != formatted:
		c.Violation("linked-file-not-formatted", fmt.Sprintf("evy fmt -w samples/latest.evy: exit %d (%s), the named file holds the formatted text=%v", code, firstN(stderr, 120), string(got) == formatted), desc, nil)
	case len(entries) != 2:
		c.Violation("leftover-in-working-directory", fmt.Sprintf("evy fmt -w samples/latest.evy left %d entries in the working directory", len(entries)), desc, nil)
	}
	_ = os.RemoveAll(proj)
}

func grepLines(s, sub string, n int) []string {
	var out []string
	for _, l := range strings.Split(s, "\n") {
		if strings.Contains(l, sub) || strings.Contains(l, "renameat") || strings.Contains(l, "fchmod") {
			out = append(out, firstN(l, 160))
			if len(out) >= n {
				break
			}
		}
	}
	return out
}

// c18Formatted returns the formatted text of f (from evy fmt on stdin / a scratch copy).
func c18Formatted(c *core.Ctx, f c18File) (string, int) {
	if !f.parses {
		return f.content, 1
	}
	if f.txtar {
		// expected archive computed member by member through `evy fmt` on stdin, independently of the
		// archive code path of the binary
		if want, ok := c18TxtarExpected(c, f.content); ok {
			return want, 0
		}
		d := filepath.Join(c.Tmp, "c18fmt")
		_ = os.RemoveAll(d)
		_ = os.MkdirAll(d, 0o755)
		defer os.RemoveAll(d)
		p := filepath.Join(d, f.name)
		_ = os.WriteFile(p, []byte(f.content), 0o644)
		_, _, code, err := evyCmd(c, "", "fmt", "-w", p)
		if err != nil {
			return f.content, -1
		}
		b, _ := os.ReadFile(p)
		return string(b), code
	}
	out, _, code, err := evyCmd(c, f.content, "fmt")
	if err != nil {
		return f.content, -1
	}
	return out, code
}

func c18Check(c *core.Ctx, f c18File, dir, path, formatted, desc string) {
	c.Event("check_runs", 1)
	c.Distinct(desc)
	if f.parses && !f.txtar && !f.symlink && formatted != f.content && len(f.content) < 100000 {
		// several files in one invocation: the verdict must cover all of them, -w must format all
		good, bad := filepath.Join(dir, "good.evy"), filepath.Join(dir, "bad.evy")
		_ = os.WriteFile(good, []byte(formatted), 0o644)
		_ = os.WriteFile(bad, []byte(f.content), 0o644)
		for _, args := range [][]string{{"good.evy", "bad.evy"}, {"bad.evy", "good.evy"}, {"good.evy", "bad.evy", "good.evy"}, {"good.evy", "good.evy"}} {
			full := []string{"fmt", "-c"}
			anyBad := false
			for _, a := range args {
				full = append(full, filepath.Join(dir, a))
				anyBad = anyBad || a == "bad.evy"
			}
			_, stderr, code, err := evyCmd(c, "", full...)
			if err != nil {
				c.Inconclusive(desc + ": " + err.Error())
				break
			}
			c.Event("multi_file_check_runs", 1)
			if (code == 0) == anyBad {
				c.Violation("check-wrong-verdict-multi", fmt.Sprintf("evy fmt -c %v: exit %d (%s), unformatted-file-present=%v", args, code, firstN(stderr, 120), anyBad), desc, nil)
			}
		}
		_, _, code, err := evyCmd(c, "", "fmt", "-w", bad, good)
		gb, _ := os.ReadFile(bad)
		if err == nil && (code != 0 || string(gb) != formatted) {
			c.Violation("write-multi", fmt.Sprintf("evy fmt -w bad.evy good.evy: exit %d, first file formatted=%v", code, string(gb) == formatted), desc, nil)
		}
		os.Remove(good)
		os.Remove(bad)
		// -w with a file that does not parse among the arguments, in every position: non-zero exit, the
		// unparsable file untouched, every other file either its original or its formatted text
		broken := "x := (1\nprint x x\n"
		for pos := 0; pos < 3; pos++ {
			names := []string{"w0.evy", "w1.evy", "w2.evy"}
			var args []string
			for k, n := range names {
				text := f.content
				if k == pos {
					text = broken
				}
				_ = os.WriteFile(filepath.Join(dir, n), []byte(text), 0o644)
				args = append(args, filepath.Join(dir, n))
			}
			_, stderr, code, err := evyCmd(c, "", append([]string{"fmt", "-w"}, args...)...)
			if err != nil {
				c.Inconclusive(desc + ": " + err.Error())
				break
			}
			c.Event("multi_file_write_runs", 1)
			if code == 0 {
				c.Violation("write-multi-unparsable-status", fmt.Sprintf("evy fmt -w with an unparsable file as argument %d of 3: exit 0 (stderr %q)", pos+1, firstN(stderr, 120)), desc, nil)
			}
			for k, n := range names {
				got, _ := os.ReadFile(filepath.Join(dir, n))
				switch {
				case k == pos && string(got) != broken:
					c.Violation("write-multi-unparsable-touched", fmt.Sprintf("evy fmt -w changed the unparsable file (argument %d of 3)", pos+1), desc, nil)
				case k != pos && string(got) != f.content && string(got) != formatted:
					c.Violation("write-multi-damaged", fmt.Sprintf("evy fmt -w with an unparsable file as argument %d: file %d holds neither its original nor its formatted text", pos+1, k+1), desc, nil)
				}
				os.Remove(filepath.Join(dir, n))
			}
		}
	}
	// file form: original text
	for _, v := range []struct {
		text string
		what string
	}{{f.content, "original"}, {formatted, "formatted"}} {
		if !f.parses && v.what == "formatted" {
			continue
		}
		target := path
		if f.symlink {
			target = filepath.Join(dir, "real-"+f.name)
		}
		_ = os.Chmod(target, 0o644)
		_ = os.WriteFile(target, []byte(v.text), 0o644)
		_ = os.Chmod(target, f.mode)
		_, stderr, code, err := evyCmd(c, "", "fmt", "-c", path)
		if err != nil {
			c.Inconclusive(desc + ": " + err.Error())
			return
		}
		after, _ := os.ReadFile(path)
		if string(after) != v.text {
			c.Violation("check-modified-file", "evy fmt -c modified the file ("+v.what+")", desc, nil)
		}
		wantZero := f.parses && v.text == formatted
		if (code == 0) != wantZero {
			c.Violation("check-wrong-verdict", fmt.Sprintf("evy fmt -c on the %s text of %s: exit %d (%s), is-formatted=%v", v.what, f.name, code, firstN(stderr, 200), wantZero), desc, nil)
		}
		if !f.txtar {
			_, stderr, code, err := evyCmd(c, v.text, "fmt", "-c")
			if err == nil && (code == 0) != wantZero {
				c.Violation("check-wrong-verdict-stdin", fmt.Sprintf("evy fmt -c on stdin (%s text of %s): exit %d (%s), is-formatted=%v", v.what, f.name, code, firstN(stderr, 200), wantZero), desc, nil)
			}
			// a file argument that is not a regular file (here the pipe behind /dev/stdin): same verdict
			if len(v.text) < 60000 {
				_, stderr, code, err = evyCmd(c, v.text, "fmt", "-c", "/dev/stdin")
				c.Event("non_regular_file_checks", 1)
				if err == nil && (code == 0) != wantZero {
					c.Violation("check-wrong-verdict-pipe", fmt.Sprintf("evy fmt -c /dev/stdin (a pipe holding the %s text of %s): exit %d (%s), is-formatted=%v", v.what, f.name, code, firstN(stderr, 200), wantZero), desc, nil)
				}
			}
		}
	}
}

var txtarMarkerRe = regexp.MustCompile(`^-- (.+) --$`)

// c18TxtarExpected splits a txtar archive at its marker lines, formats every .evy member through
// `evy fmt` on stdin and puts the archive together again (a member that is not empty ends with a newline).
func c18TxtarExpected(c *core.Ctx, content string) (string, bool) {
	type member struct{ name, data string }
	var comment strings.Builder
	var ms []member
	for _, line := range strings.SplitAfter(content, "\n") {
		if line == "" {
			continue
		}
		if m := txtarMarkerRe.FindStringSubmatch(strings.TrimSuffix(line, "\n")); m != nil && strings.TrimSpace(m[1]) != "" {
			ms = append(ms, member{name: strings.TrimSpace(m[1])})
			continue
		}
		if len(ms) == 0 {
			comment.WriteString(line)
		} else {
			ms[len(ms)-1].data += line
		}
	}
	fixNL := func(t string) string {
		if t != "" && !strings.HasSuffix(t, "\n") {
			return t + "\n"
		}
		return t
	}
	var out strings.Builder
	out.WriteString(fixNL(comment.String()))
	for _, m := range ms {
		data := m.data
		if strings.HasSuffix(m.name, ".evy") {
			formatted, _, code, err := evyCmd(c, data, "fmt")
			if err != nil || code != 0 {
				return "", false
			}
			data = formatted
		}
		out.WriteString("-- " + m.name + " --\n" + fixNL(data))
	}
	return out.String(), true
}
