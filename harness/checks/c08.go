package checks

import (
	"bytes"
	"fmt"
	"os"
	"os/exec"
	"path/filepath"
	"strings"
	"time"

	"evylang.dev/evy/pkg/parser"

	"verif/core"
	"verif/gen"
	"verif/mut"
	"verif/plat"
)

// C08 — parsing, formatting and running are deterministic.

func init() {
	core.Register(&core.Check{
		ID:    "C08",
		Level: "exploration",
		Rule:  "programs chosen to have something to permute (>= 9 unused variables per scope, several type errors, map literals with >= 9 effectful or mixed-type entries, font with several valid/invalid properties, maps built in different orders printed/ranged/compared, rand with a seed (in fresh processes also negative, 64-bit and > 2^53 seeds; bounds at and beyond 2^31-1), several handlers, accepted and rejected corpus mutants, generated programs); every case is observed R = 24 (quick) / 104 (thorough) times in one process (fresh parser and evaluator each time; Go randomises every map iteration) and, sampled, in fresh `evy run --rand-seed n --svg-out -` processes; observables: parse error text, formatted text, platform trace, result. distinct = distinct case texts whose observation was repeated",
		Assumptions: []string{
			"measured with the image's toolchain: the most frequent iteration order of a 9-entry Go map has share 0.005, of a 2-entry map 0.877: with R repetitions an order dependence on a 2-entry map is missed with probability 0.877^R per case (4% / 1e-6)",
			"not judged: Program.CalledBuiltinFuncs and Evaluator.EventHandlerNames order (not among the observables of the property)",
		},
		NeedsEvy: true,
		NumCases: func(tier string) int {
			if tier == "thorough" {
				return 4000
			}
			return 400
		},
		Setup: func(c *core.Ctx) error {
			p, err := newPool(c.Repo)
			c.State = p
			return err
		},
		Run:       c08Run,
		MinEvents: []string{"cases", "repetitions", "bytes_compared"},
	})
}

// rarely used output options: the bytes written must not depend on the run either
var c08SVGFlags = [][]string{nil, {"--svg-style", "border: 1px solid red; background: white; margin: 2px; padding: 1px"}, {"--svg-width", "300", "--svg-height", "200"},
	{"--svg-style", "border: 1px solid red; background: white; margin: 2px; width: 10px; height: 5px", "--svg-width", "300", "--svg-height", "200"}, {"--svg-style", "a: 1; b: 2; c: 3; d: 4; e: 5; f: 6; g: 7", "--svg-width", "64"}}

// observe returns every observable of one execution as one string.
func c08Observe(src string, seed int64) string {
	var b strings.Builder
	func() {
		defer func() {
			if p := recover(); p != nil {
				fmt.Fprintf(&b, "GOPANIC %v", p)
			}
		}()
		prog, err := parser.Parse(src, plat.Builtins())
		if err != nil {
			b.WriteString("PARSE-ERROR\n" + err.Error())
			return
		}
		b.WriteString("FORMAT\n" + prog.Format())
	}()
	o := plat.Run(src, plat.Opts{Inputs: []string{"5", "x", "", "7"}, RandSeed: seed, YieldBudget: 20000, MaxEvents: 4000,
		Events: c02Events})
	b.WriteString("\nRUN " + o.Class + " | " + o.ErrText + " | " + o.GoPanic + "\n" + strings.Join(o.Events, "\n"))
	return b.String()
}

func c08Case(c *core.Ctx, i int) (string, string) {
	r := c.Rng
	p := c.State.(*srcPool)
	var b strings.Builder
	switch i % 11 {
	case 0: // many unused variables in several scopes
		for k := 0; k < 9+r.Intn(4); k++ {
			fmt.Fprintf(&b, "unused%c%d := %d\n", 'a'+rune(r.Intn(26)), k, k)
		}
		b.WriteString("func f\n")
		for k := 0; k < 9+r.Intn(3); k++ {
			fmt.Fprintf(&b, "    loc%c%d := \"s\"\n", 'a'+rune(r.Intn(26)), k)
		}
		b.WriteString("end\nif true\n")
		for k := 0; k < 10; k++ {
			fmt.Fprintf(&b, "    blk%d:num\n", k)
		}
		b.WriteString("end\nf\n")
		// many unused names declared on ONE line (parameters): order within a line matters too
		b.WriteString("func g")
		for k := 0; k < 9+r.Intn(3); k++ {
			fmt.Fprintf(&b, " p%c%d:num", 'a'+rune(r.Intn(26)), k)
		}
		b.WriteString("\n    print 1\nend\non down dx:num dy:num\n    print 2\nend\non input iid:string ival:string\n    print 3\nend\n")
		return b.String(), "unused-variables"
	case 1: // several type errors and unknown names
		for k := 0; k < 10; k++ {
			switch r.Intn(4) {
			case 0:
				fmt.Fprintf(&b, "x%d := 1 + \"a%d\"\n", k, k)
			case 1:
				fmt.Fprintf(&b, "print unknown%d\n", k)
			case 2:
				fmt.Fprintf(&b, "y%d:num\ny%d = \"s\"\n", k, k)
			case 3:
				fmt.Fprintf(&b, "nofunc%d %d\n", k, k)
			}
			if r.Intn(3) == 0 { // characters the lexer does not know, several different ones
				fmt.Fprintf(&b, "z%d := %d %s %d\n", k, k, []string{"#", "$", ";", "~", "?", "`", "\u201c", "@", "\\", "&"}[r.Intn(10)], k)
			}
		}
		return b.String(), "several-errors"
	case 2: // map literal with many effectful values
		b.WriteString("func p:num n:num\n    print \"p\" n\n    return n\nend\nm := {")
		keys := r.Perm(12)
		for _, k := range keys {
			fmt.Fprintf(&b, "k%d:(p %d) ", k, k)
		}
		b.WriteString("}\nprint m\nfor k := range m\n    print k m[k]\nend\n")
		return b.String(), "map-literal-effects"
	case 3: // map literal with many values of mixed types: inferred type
		b.WriteString("x := [1]\ns := \"v\"\nm := {")
		vals := []string{"x", "[1]", "[]", "[2 3]", "x", "[]", "[4]", "x", "[5]", "[]", "[6 7]"}
		if r.Intn(2) == 0 {
			vals = []string{"1", "s", "true", "[1]", "{}", "2", "\"t\"", "x", "[]", "3.5", "false"}
		}
		r.Shuffle(len(vals), func(a, b int) { vals[a], vals[b] = vals[b], vals[a] })
		for k, v := range vals {
			fmt.Fprintf(&b, "k%d:%s ", k, v)
		}
		b.WriteString("}\nprint (typeof m) m s\n")
		return b.String(), "map-literal-types"
	case 4: // font with several properties, some invalid
		props := []string{"family:\"serif\"", "size:3", "weight:700", "style:\"italic\"", "baseline:\"top\"", "align:\"center\"", "letterspacing:1",
			"size:-1", "align:\"nowhere\"", "unknown:1", "weight:\"bold\"", "family:5", "baseline:\"low\""}
		r.Shuffle(len(props), func(a, b int) { props[a], props[b] = props[b], props[a] })
		seen := map[string]bool{}
		b.WriteString("font {")
		n := 0
		for _, p := range props {
			k := strings.SplitN(p, ":", 2)[0]
			if seen[k] || n >= 7 {
				continue
			}
			seen[k] = true
			n++
			b.WriteString(p + " ")
		}
		b.WriteString("}\ntext \"t\"\nprint \"done\"\n")
		return b.String(), "font-properties"
	case 5: // maps built in different orders: print, range, compare, has, del
		keys := r.Perm(10)
		b.WriteString("a:{}num\nb:{}num\n")
		for _, k := range keys {
			fmt.Fprintf(&b, "a[\"k%d\"] = %d\n", k, k)
		}
		for j := len(keys) - 1; j >= 0; j-- {
			fmt.Fprintf(&b, "b.k%d = %d\n", keys[j], keys[j])
		}
		b.WriteString("print a b (a == b) (len a)\ndel a \"k3\"\nfor k := range a\n    print k a[k]\n    del a \"k5\"\nend\nprint (repr a) (a != b)\n")
		// copies made by the runtime (repetition deep-copies maps, also inside any and nested arrays)
		b.WriteString("rep := [b] * 2\nprint rep\nfor k := range rep[1]\n    print k\nend\nanys:[]any\nanys = [b [b]]\nrep2 := anys * 2\nprint rep2 (repr rep2)\n")
		return b.String(), "map-orders"
	case 6: // random numbers with a seed
		b.WriteString("for range 12\n    print (rand 10) (rand1) (rand 1000000)\nend\n")
		// bounds at and beyond the documented range: a value or a panic, but the same on every run
		b.WriteString("print (rand 2147483647)\n")
		b.WriteString("print (rand " + []string{"2147483648", "3000000000", "9007199254740992", "4294967296"}[r.Intn(4)] + ")\n")
		return b.String(), "rand-seeded"
	case 9: // formatted output of composites under every verb: text must not depend on the run (no addresses)
		b.WriteString("arr := [1 2 3]\nm := {a:1 b:2}\nx:any\nx = [[1] [2]]\nn := [\"s\"]\nif (len arr) == 0\n    print arr m x n\nend\n")
		verbs := []string{"%v", "%s", "%q", "%d", "%o", "%b", "%g", "%x", "%X", "%e", "%f", "%t", "%c", "%U", "%5v", "%-8s|", "%+d", "%08.3f"}
		r.Shuffle(len(verbs), func(a, b int) { verbs[a], verbs[b] = verbs[b], verbs[a] })
		// a verb that does not fit its argument may be a documented panic: every line is its own
		// program end, so each program holds one verb pair; several arguments per pair
		v := verbs[0]
		args := []string{"arr", "m", "x", "n", "[arr]", "{k:m}"}
		r.Shuffle(len(args), func(a, b int) { args[a], args[b] = args[b], args[a] })
		if r.Intn(2) == 0 {
			b.WriteString("printf \"" + v + "|" + v + "|" + v + "\\n\" " + args[0] + " " + args[1] + " " + args[2] + "\n")
		} else {
			b.WriteString("print (sprintf \"" + v + " " + verbs[1] + "\" " + args[0] + " arr)\n")
		}
		b.WriteString("test 1 2 \"" + v + "\" " + args[3] + "\n")
		return b.String(), "format-composites"
	case 7: // several handlers and test summary
		b.WriteString("n := 0\non key k:string\n    n = n + 1\n    print \"key\" k n\nend\non down x:num y:num\n    print \"down\" x y\nend\non animate t:num\n    print \"anim\" t\nend\non input id:string val:string\n    print id val\nend\ntest 1 n\ntest 0 n\ntest true\n")
		return b.String(), "handlers-tests"
	case 10: // generated program
		prog := hostileProgram(r)
		return gen.Print(prog, nil), "generated"
	default: // corpus mutant (accepted or rejected)
		fi := r.Intn(len(p.files))
		m, _ := mut.Mutate(r, p.toks[fi], 1+r.Intn(3))
		return mut.Join(m), "corpus-mutant"
	}
}

func c08Run(c *core.Ctx, i int) {
	src, kind := c08Case(c, i)
	c.Event("cases", 1)
	c.Cover("kind", kind)
	c.Journal(src)
	reps := 24
	if c.Tier == "thorough" {
		reps = 104
	}
	seed := int64(1 + i%7)
	cliSeed := []string{fmt.Sprint(seed), "-1", "-42", "9007199254740993", "-9223372036854775808", "2147483648"}[(i/11)%6]
	if kind != "rand-seeded" {
		cliSeed = fmt.Sprint(seed)
	}
	first := c08Observe(src, seed)
	c.Distinct(src)
	for k := 1; k < reps; k++ {
		got := c08Observe(src, seed)
		c.Event("repetitions", 1)
		c.Event("bytes_compared", len(got))
		if got != first {
			c.Violation("nondeterministic:"+kind+":"+c08Section(first, got), fmt.Sprintf("repetition %d differs from the first execution: %s", k, firstDiff(first, got)), src, nil)
			break
		}
	}
	if strings.HasPrefix(first, "PARSE-ERROR") {
		switch kind {
		case "unused-variables", "several-errors", "corpus-mutant":
		default:
			c.Violation("harness-program-rejected", "a "+kind+" program meant to run is rejected: "+firstN(first, 200), src, nil)
		}
		c.Cover("observable", "parse-errors")
	} else {
		c.Cover("observable", "format+run")
	}
	// fresh processes through the real binary
	// (a program that only ends by the harness's yield budget would not end in a real process)
	if c.EvyBin != "" && (i%8 == 3 || kind == "format-composites" || kind == "rand-seeded") && !strings.Contains(first, "\nRUN stopped") {
		path := filepath.Join(c.Tmp, "c08.evy")
		_ = os.WriteFile(path, []byte(src), 0o644)
		var ref string
		for k := 0; k < 4; k++ {
			stdout, stderr, code, err := evyCmd(c, "5\nx\n\n7\n", append([]string{"run", "--rand-seed=" + cliSeed, "--svg-out", "-"}, append(append([]string{}, c08SVGFlags[i%len(c08SVGFlags)]...), path)...)...)
			if err != nil {
				c.Inconclusive("evy run: " + err.Error())
				break
			}
			c.Event("process_runs", 1)
			got := fmt.Sprintf("exit %d\nSTDOUT\n%s\nSTDERR\n%s", code, stdout, stderr)
			if strings.Contains(stderr, "goroutine ") {
				// a host crash is C02's business; its dump contains addresses
				break
			}
			if k == 0 {
				ref = got
			} else if got != ref {
				c.Violation("nondeterministic-process:"+kind, "two fresh evy run processes differ: "+firstDiff(ref, got), src, nil)
				break
			}
		}
	}
	if c.EvyBin != "" && i%8 == 5 {
		c08CLIEdges(c, i)
	}
	if i < 10 && i%10 == 2 {
		c.Sample(map[string]any{"kind": kind, "source": firstN(src, 400), "observation": firstN(first, 300)})
	}
}

func c08Section(a, b string) string {
	k := 0
	for k < len(a) && k < len(b) && a[k] == b[k] {
		k++
	}
	switch {
	case strings.HasPrefix(a, "PARSE-ERROR"):
		return "parse-errors"
	case k < strings.Index(a, "\nRUN "):
		return "formatted-text"
	}
	return "run"
}

// c08CLIEdges: process-level observables outside the happy path. (a) `--svg-out` to a place that cannot
// be written (missing directory, an existing directory, a read-only directory): exit status, stdout and
// stderr of repeated runs are identical - no temporary name, address or time leaks into the message.
// (b) `cls` on the real CLI platform runs an external `clear`; with a stand-in `clear` that is slow to
// start, the text printed before and after every cls must still come out in program order.
func c08CLIEdges(c *core.Ctx, i int) {
	dir := filepath.Join(c.Tmp, fmt.Sprintf("c08edge%d", i))
	_ = os.RemoveAll(dir)
	if err := os.MkdirAll(filepath.Join(dir, "isdir"), 0o755); err != nil {
		c.Inconclusive("mkdir: " + err.Error())
		return
	}
	defer os.RemoveAll(dir)
	prog := filepath.Join(dir, "p.evy")
	_ = os.WriteFile(prog, []byte("print \"start\"\nmove 10 10\ncircle 5\nprint \"end\"\n"), 0o644)
	run := func(env []string, args ...string) (string, bool) {
		cmd := exec.Command(c.EvyBin, args...)
		cmd.Dir = dir
		cmd.Env = append(append(os.Environ(), "EVY_SKIP_SLEEP=1"), env...)
		cmd.Stdin = strings.NewReader("")
		var ob, eb bytes.Buffer
		cmd.Stdout, cmd.Stderr = &ob, &eb
		done := make(chan error, 1)
		if err := cmd.Start(); err != nil {
			c.Inconclusive("start evy: " + err.Error())
			return "", false
		}
		go func() { done <- cmd.Wait() }()
		select {
		case <-done:
		case <-time.After(60 * time.Second):
			_ = cmd.Process.Kill()
			<-done
			c.Inconclusive("evy did not exit within 60 s")
			return "", false
		}
		c.Event("process_runs", 1)
		return fmt.Sprintf("exit %d\nSTDOUT\n%s\nSTDERR\n%s", cmd.ProcessState.ExitCode(), ob.String(), eb.String()), true
	}
	targets := []string{filepath.Join("missing", "out.svg"), "isdir", filepath.Join("isdir", "sub", "deep", "out.svg"), filepath.Join(dir, "missing2", "abs.svg")}
	t := targets[(i/8)%len(targets)]
	c.Cover("cli-edge", "svg-out-unwritable:"+strings.SplitN(filepath.ToSlash(t), "/", 2)[0])
	var first string
	for k := 0; k < 3; k++ {
		got, ok := run(nil, "run", "--svg-out", t, prog)
		if !ok {
			return
		}
		if strings.Contains(got, "goroutine ") {
			break
		}
		if k == 0 {
			first = got
			if !strings.HasPrefix(got, "exit 1\n") && !strings.HasPrefix(got, "exit 0\n") {
				c.Violation("cli-edge:svg-out-status", "evy run --svg-out "+t+": unexpected status: "+firstN(got, 300), t, nil)
				return
			}
		} else if got != first {
			c.Violation("nondeterministic-process:svg-out-unwritable", "two evy run processes with the same unwritable --svg-out target differ: "+firstDiff(first, got), "--svg-out "+t, nil)
			return
		}
	}
	// (b) cls through an external program
	bin := filepath.Join(dir, "bin")
	_ = os.MkdirAll(bin, 0o755)
	if err := os.WriteFile(filepath.Join(bin, "clear"), []byte("#!/bin/sh\nsleep 0.03\nprintf '<cls>'\n"), 0o755); err != nil {
		c.Inconclusive("write clear: " + err.Error())
		return
	}
	n := 2 + (i/8)%3
	var src, want strings.Builder
	for k := 0; k < n; k++ {
		fmt.Fprintf(&src, "print \"before %d\"\ncls\nprint \"after %d\"\n", k, k)
		fmt.Fprintf(&want, "before %d\n<cls>after %d\n", k, k)
	}
	clsProg := filepath.Join(dir, "cls.evy")
	_ = os.WriteFile(clsProg, []byte(src.String()), 0o644)
	c.Cover("cli-edge", "cls-external-program")
	got, ok := run([]string{"PATH=" + bin + string(os.PathListSeparator) + os.Getenv("PATH")}, "run", clsProg)
	if !ok {
		return
	}
	wantAll := "exit 0\nSTDOUT\n" + want.String() + "\nSTDERR\n"
	if got != wantAll {
		c.Violation("cli-edge:cls-order", "output around cls does not come out in program order: "+firstDiff(wantAll, got), src.String(), nil)
	}
}
