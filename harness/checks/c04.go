package checks

import (
	"fmt"
	"strings"

	"verif/core"
	"verif/gen"
	"verif/plat"
)

// C04 — static typing rules are exactly those of the specification.
//
// The oracle below is a transcription of the Assignability, Types ("strictest possible type"),
// Zero values, Typeof, Type assertion and Operators sections of docs/spec.md over value
// descriptors; it never looks at the parser.

// value descriptor --------------------------------------------------------------------------

type c04Val struct {
	kind  string    // var | const | empty | litvar | expr-concat | expr-slice | expr-group | expr-index
	t     *gen.Type // static type of the value (for empty: the structure with None leaves)
	src   string    // Evy expression
	decl  string    // declarations needed before the expression
	name  string
	guard string // var-elem: statement that opens the block in which src is used (default "if false")
}

func c04Types(depth int) []*gen.Type {
	level := []*gen.Type{tNum, tStr, tBool, tAny}
	all := append([]*gen.Type(nil), level...)
	for d := 0; d < depth; d++ {
		var next []*gen.Type
		for _, t := range level {
			next = append(next, gen.ArrOf(t), gen.MapOf(t))
		}
		all = append(all, next...)
		level = next
	}
	return all
}

// constLit returns a constant literal whose inferred type is t ("" if none exists).
func constLit(t *gen.Type, alt int) string {
	switch t.K {
	case gen.Num:
		return []string{"1", "2.5"}[alt%2]
	case gen.Str:
		return []string{"\"s\"", "\"é\""}[alt%2]
	case gen.Bool:
		return []string{"true", "false"}[alt%2]
	case gen.Any:
		return ""
	case gen.Arr:
		if t.Sub.K == gen.Any {
			return []string{"[1 \"a\"]", "[true 2 []]"}[alt%2]
		}
		in := constLit(t.Sub, alt)
		if in == "" {
			return ""
		}
		if alt%2 == 1 {
			return "[" + in + " " + constLit(t.Sub, alt+1) + "]"
		}
		return "[" + in + "]"
	case gen.Map:
		if t.Sub.K == gen.Any {
			return []string{"{a:1 b:\"a\"}", "{k:true j:{}}"}[alt%2]
		}
		in := constLit(t.Sub, alt)
		if in == "" {
			return ""
		}
		return "{a:" + in + "}"
	}
	return ""
}

// convertibleConst: can the constant literal of inferred type t2 be assigned to target t?
// (docs/spec.md, Assignability of constant values)
func convertibleConst(t, t2 *gen.Type) bool {
	if t.Eq(t2) || t.K == gen.Any {
		return true
	}
	// same structure, final subtype of t is any
	if t.IsComposite() && t2.IsComposite() && t.K == t2.K {
		return convertibleConst(t.Sub, t2.Sub)
	}
	return false
}

// emptyFits: can the (nested) empty literal of structure e be assigned to target t?
func emptyFits(t, e *gen.Type) bool {
	if t.K == gen.Any {
		return true
	}
	if e.K == gen.None {
		return true // innermost untyped part adapts to anything required of a composite's sub type
	}
	if t.K != e.K || !t.IsComposite() {
		return false
	}
	return emptyFits(t.Sub, e.Sub)
}

// inferEmpty is the type an empty literal gets in an inferred declaration.
func inferEmpty(e *gen.Type) *gen.Type {
	if e.K == gen.None {
		return tAny
	}
	if !e.IsComposite() {
		return e
	}
	return &gen.Type{K: e.K, Sub: inferEmpty(e.Sub)}
}

type c04Expect struct {
	accept  bool
	typeofS string // expected typeof of the target after the assignment ("" = not checked)
	open    bool   // the documents leave this cell open
}

// expectAssign: target type t receives value v.
func expectAssign(t *gen.Type, v c04Val) c04Expect {
	switch v.kind {
	case "var", "expr-call", "var-elem":
		ok := t.Eq(v.t) || t.K == gen.Any
		return c04Expect{accept: ok, typeofS: dynTypeof(t, v.t)}
	case "const", "expr-concat", "expr-slice", "expr-group", "expr-index", "expr-repeat":
		// an expression that only contains constants is treated like a constant
		ok := convertibleConst(t, v.t)
		return c04Expect{accept: ok, typeofS: dynTypeof(t, v.t)}
	case "empty":
		ok := emptyFits(t, v.t)
		dyn := t
		if t.K == gen.Any {
			dyn = inferEmpty(v.t)
		}
		return c04Expect{accept: ok, typeofS: dyn.String()}
	case "litvar":
		// a literal containing a variable is not a constant: treated like a variable of its type
		ok := t.Eq(v.t) || t.K == gen.Any
		// open only where the implementation is known to deviate from the text: it converts a literal of
		// basic-typed variables element-wise (`[n]` to []any). A literal holding a composite variable
		// (`[arr]`, `{k:m}`) has a fixed type in both documents and implementation: judged.
		basicElem := v.t.Sub != nil && !v.t.Sub.IsComposite() && v.t.Sub.K != gen.Any
		return c04Expect{accept: ok, typeofS: dynTypeof(t, v.t), open: !ok && convertibleConst(t, v.t) && basicElem}
	}
	panic(v.kind)
}

// dynTypeof is what typeof reports for the target after the assignment.
func dynTypeof(t, vt *gen.Type) string {
	if t.K == gen.Any {
		if vt.K == gen.Any {
			return "bool" // the zero value of an any variable is false
		}
		return vt.String()
	}
	return t.String()
}

func c04Values(types []*gen.Type) []c04Val {
	var out []c04Val
	for i, t := range types {
		name := fmt.Sprintf("v%d", i)
		out = append(out, c04Val{kind: "var", t: t, src: name, decl: name + ":" + t.String() + "\n", name: name})
		if lit := constLit(t, 0); lit != "" {
			out = append(out, c04Val{kind: "const", t: t, src: lit})
			if lit2 := constLit(t, 1); lit2 != lit {
				out = append(out, c04Val{kind: "const", t: t, src: lit2})
			}
			out = append(out, c04Val{kind: "expr-group", t: t, src: "(" + lit + ")"})
			if t.K == gen.Arr {
				out = append(out, c04Val{kind: "expr-concat", t: t, src: lit + "+" + constLit(t, 1)})
				out = append(out, c04Val{kind: "expr-concat", t: t, src: lit + "+[]"})
				out = append(out, c04Val{kind: "expr-concat", t: t, src: "[]+" + lit})
				if t.Sub.IsComposite() {
					// a nested untyped empty literal on either side is filled in by the other operand
					in := "[[]]"
					if t.Sub.K == gen.Map {
						in = "[{}]"
					}
					out = append(out, c04Val{kind: "expr-concat", t: t, src: in + "+" + lit})
					out = append(out, c04Val{kind: "expr-concat", t: t, src: lit + "+" + in})
					out = append(out, c04Val{kind: "expr-concat", t: t, src: in + "+" + lit + "+" + in})
				}
				out = append(out, c04Val{kind: "expr-slice", t: t, src: lit + "[:]"})
				out = append(out, c04Val{kind: "expr-repeat", t: t, src: lit + "*2"})
			}
			out = append(out, c04Val{kind: "expr-index", t: t, src: "[" + lit + "][0]"})
			out = append(out, c04Val{kind: "expr-index", t: t, src: "{k:" + lit + "}[\"k\"]"})
			out = append(out, c04Val{kind: "expr-index", t: t, src: "{k:" + lit + "}.k"})
			out = append(out, c04Val{kind: "expr-index", t: t, src: "[[" + lit + "]][0][0]"})
		}
		// element, field and loop element of a nested composite variable: like a variable of type t
		out = append(out, c04Val{kind: "var-elem", t: t, src: "na" + name + "[0]", decl: "na" + name + ":[]" + t.String() + "\n"})
		out = append(out, c04Val{kind: "var-elem", t: t, src: "nm" + name + ".k", decl: "nm" + name + ":{}" + t.String() + "\n"})
		out = append(out, c04Val{kind: "var-elem", t: gen.ArrOf(t), src: "nn" + name + "[:]", decl: "nn" + name + ":[]" + t.String() + "\n"})
		// loop variable over a nested composite variable and over an array literal: a variable of type t
		out = append(out, c04Val{kind: "var-elem", t: t, src: "lq" + name, decl: "nl" + name + ":[]" + t.String() + "\n", guard: "for lq" + name + " := range nl" + name})
		if lit := constLit(t, 0); lit != "" {
			out = append(out, c04Val{kind: "var-elem", t: t, src: "lc" + name, guard: "for lc" + name + " := range [" + lit + " " + constLit(t, 1) + "]"})
			out = append(out, c04Val{kind: "var-elem", t: t, src: "lc" + name, guard: "for lc" + name + " := range [" + lit + "]*2"})
		}
		// function result of type t: like a variable
		out = append(out, c04Val{kind: "expr-call", t: t, src: "(f" + name + ")", decl: "func f" + name + ":" + t.String() + "\n    r:" + t.String() + "\n    return r\nend\n"})
		// literal containing a variable of type t
		out = append(out, c04Val{kind: "litvar", t: gen.ArrOf(t), src: "[" + name + "]", decl: name + ":" + t.String() + "\n"})
		out = append(out, c04Val{kind: "litvar", t: gen.MapOf(t), src: "{k:" + name + "}", decl: name + ":" + t.String() + "\n"})
	}
	// variables inferred from bare empty literals are ordinary variables of type []any / {}any;
	// loop variables over literals of empty literals are variables of the inferred element type
	tAA, tMA := gen.ArrOf(tAny), gen.MapOf(tAny)
	out = append(out,
		c04Val{kind: "var", t: tAA, src: "ie1", decl: "ie1 := []\n", name: "ie1"},
		c04Val{kind: "var", t: tMA, src: "ie2", decl: "ie2 := {}\n", name: "ie2"},
		c04Val{kind: "var", t: tAA, src: "ie3", decl: "ie3 := ([])\n", name: "ie3"},
		c04Val{kind: "var", t: tAA, src: "ie4", decl: "ie4 := []+[]\n", name: "ie4"},
		c04Val{kind: "litvar", t: gen.ArrOf(tAA), src: "[ie5]", decl: "ie5 := []\n"},
		c04Val{kind: "litvar", t: gen.MapOf(tMA), src: "{k:ie6}", decl: "ie6 := {}\n"},
		c04Val{kind: "var-elem", t: tAA, src: "le1", guard: "for le1 := range [[]]"},
		c04Val{kind: "var-elem", t: tAA, src: "le2", guard: "for le2 := range [[] []]"},
		c04Val{kind: "var-elem", t: tMA, src: "le3", guard: "for le3 := range [{}]"},
		c04Val{kind: "var-elem", t: gen.ArrOf(tAA), src: "le4", guard: "for le4 := range [[[]]]"},
		c04Val{kind: "var-elem", t: tAA, src: "le5", guard: "for le5 := range [[]]+[[]]"},
		c04Val{kind: "var-elem", t: tAny, src: "le6", guard: "for le6 := range []"},
	)
	none := &gen.Type{K: gen.None}
	for _, e := range []struct {
		src string
		t   *gen.Type
	}{
		{"[]", gen.ArrOf(none)}, {"{}", gen.MapOf(none)}, {"[[]]", gen.ArrOf(gen.ArrOf(none))}, {"[{}]", gen.ArrOf(gen.MapOf(none))},
		{"{a:[]}", gen.MapOf(gen.ArrOf(none))}, {"{a:{}}", gen.MapOf(gen.MapOf(none))}, {"[[] []]", gen.ArrOf(gen.ArrOf(none))}, {"([])", gen.ArrOf(none)}, {"({})", gen.MapOf(none)},
		{"[]+[]", gen.ArrOf(none)}, {"[[[]]]", gen.ArrOf(gen.ArrOf(gen.ArrOf(none)))},
	} {
		out = append(out, c04Val{kind: "empty", t: e.t, src: e.src})
	}
	return out
}

var c04Contexts = []string{"assign", "param", "variadic", "return", "element", "field", "inferred"}

func c04Program(ctx string, t *gen.Type, v c04Val) string {
	ts := t.String()
	switch ctx {
	case "assign":
		return v.decl + "x:" + ts + "\nx = " + v.src + "\nprint (typeof x)\n"
	case "param":
		return v.decl + "func fn p:" + ts + "\n    print (typeof p)\nend\nfn " + v.src + "\n"
	case "variadic":
		return v.decl + "func fn p:" + ts + "...\n    print (typeof p[0])\nend\nfn " + v.src + " " + v.src + "\n"
	case "return":
		return v.decl + "func fn:" + ts + "\n    return " + v.src + "\nend\nx := (fn)\nprint (typeof x)\n"
	case "element":
		return v.decl + "arr:[]" + ts + "\nif (len arr) > 0\n    arr[0] = " + v.src + "\nend\nprint (typeof arr)\n"
	case "field":
		return v.decl + "m:{}" + ts + "\nm.k = " + v.src + "\nprint (typeof m.k)\n"
	case "inferred":
		return v.decl + "x := " + v.src + "\nprint (typeof x)\n"
	}
	panic(ctx)
}

// operator table --------------------------------------------------------------------------

var c04Ops = []string{"+", "-", "*", "/", "%", "and", "or", "<", "<=", ">", ">=", "==", "!="}

func expectOp(op string, l, r *gen.Type) (bool, string) {
	same := l.Eq(r)
	switch op {
	case "+":
		if same && (l.K == gen.Num || l.K == gen.Str || l.K == gen.Arr) {
			return true, l.String()
		}
	case "-", "/", "%":
		if same && l.K == gen.Num {
			return true, "num"
		}
	case "*":
		if same && l.K == gen.Num {
			return true, "num"
		}
		if l.K == gen.Arr && r.K == gen.Num {
			return true, l.String()
		}
	case "and", "or":
		if same && l.K == gen.Bool {
			return true, "bool"
		}
	case "<", "<=", ">", ">=":
		if same && (l.K == gen.Num || l.K == gen.Str) {
			return true, "bool"
		}
	case "==", "!=":
		if same {
			return true, "bool"
		}
	}
	return false, ""
}

type c04State struct {
	types []*gen.Type
	vals  []c04Val
}

func c04Setup(tier string) *c04State {
	depth := 1
	if tier == "thorough" {
		depth = 2
	}
	st := &c04State{types: c04Types(depth)}
	st.vals = c04Values(st.types)
	if depth < 2 {
		// a few targets and constants of depth 2 also in the quick tier: nested untyped empty literals
		// inside concatenations are filled in by the other operand
		tAA, tAM := gen.ArrOf(gen.ArrOf(tNum)), gen.ArrOf(gen.MapOf(tNum))
		for _, e := range []struct {
			t   *gen.Type
			src string
		}{
			{tAA, "[[]]+[[1]]"}, {tAA, "[[1]]+[[]]"}, {tAA, "[[]]+[[1]]+[[]]"}, {tAA, "[[] []]+[[1] [2]]"}, {tAA, "[[]]*2+[[1]]"}, {tAA, "([[]]+[[1]])"}, {tAA, "[[]]+[[1]][:1]"},
			{tAM, "[{}]+[{a:1}]"}, {tAM, "[{a:1}]+[{}]"}, {tAM, "[{}]+[{a:1}]+[{}]"},
		} {
			st.vals = append(st.vals, c04Val{kind: "expr-concat", t: e.t, src: e.src})
		}
		st.types = append(st.types, gen.ArrOf(gen.ArrOf(tAny)), gen.ArrOf(gen.MapOf(tAny)), tAA, tAM)
	}
	return st
}

func init() {
	core.Register(&core.Check{
		ID:    "C04",
		Level: "exploration",
		Rule:  "exhaustive matrix: every target type x every value descriptor (variable, constant literal in two spellings, empty and nested empty literals, literal containing a variable, function result, and expressions made of constants: group, concatenation, slice, repetition, index) x 7 contexts (assignment, parameter, variadic parameter, return, array element, map field, inferred declaration) over all types of nesting depth <= 1 (quick) / <= 2 (thorough), plus the operator table (13 operators x all ordered type pairs, variables and constants) and unary, index, slice (every bound position x bound type), field, assertion, condition and range contexts, and the relation `x := []` = `x:[]any` (7 spellings x 20 uses); one tiny program per cell; acceptance and printed typeof compared with the transcribed rules. distinct = distinct cells",
		Assumptions: []string{
			"cells the specification leaves open are listed and not judged: a literal that contains variables assigned to an any-based composite type (the text says it is treated like a variable; the implementation converts element-wise) - only for literals of num/string/bool variables; a literal holding an array or map variable is judged",
		},
		NumCases: func(tier string) int {
			st := c04Setup(tier)
			return len(st.types)*len(c04Contexts) + len(c04Ops) + 6 + len(c04InferCases())
		},
		Exhaustive: func(tier string) bool { return true },
		Setup: func(c *core.Ctx) error {
			c.State = c04Setup(c.Tier)
			return nil
		},
		Run:       c04Run,
		MinEvents: []string{"cells", "accepted_cells", "rejected_cells", "typeof_checked"},
	})
}

func c04Judge(c *core.Ctx, cell, src string, exp c04Expect) {
	c.Event("cells", 1)
	c.Distinct(cell)
	if exp.open {
		c.Event("open_cells_not_judged", 1)
		c.Cover("open", strings.SplitN(cell, "|", 2)[0])
		return
	}
	c.Journal(src)
	o := plat.Run(src, plat.Opts{YieldBudget: 20000})
	if o.Class == "gopanic" {
		c.Violation("crash:"+o.Site, cell+": Go panic "+firstN(o.GoPanic, 200), src, nil)
		return
	}
	accepted := o.Class != "parse-error"
	if accepted != exp.accept {
		verdict := "rejected"
		if accepted {
			verdict = "accepted"
		}
		c.Violation("acceptance:"+cellClass(cell), fmt.Sprintf("%s: %s by the parser, the specification says accept=%v; %s", cell, verdict, exp.accept, firstN(o.ErrText, 200)), src, nil)
		return
	}
	if !accepted {
		c.Event("rejected_cells", 1)
		return
	}
	c.Event("accepted_cells", 1)
	if exp.typeofS == "" {
		return
	}
	c.Event("typeof_checked", 1)
	want := "print \"" + exp.typeofS + "\\n\""
	if o.Class != "ok" || len(o.Events) == 0 || o.Events[len(o.Events)-1] != want {
		c.Violation("typeof:"+cellClass(cell), fmt.Sprintf("%s: expected typeof %s, program printed %v (%s %s)", cell, exp.typeofS, o.Events, o.Class, o.ErrText), src, nil)
	}
}

// cellClass drops the concrete types from a cell name: context|valuekind.
func cellClass(cell string) string {
	parts := strings.Split(cell, "|")
	if len(parts) >= 2 {
		return parts[0] + "|" + parts[1]
	}
	return cell
}

func zeroLit(t *gen.Type) string {
	switch t.K {
	case gen.Num:
		return "0"
	case gen.Str:
		return "\"\""
	case gen.Bool, gen.Any:
		return "false"
	case gen.Arr:
		return "[]"
	case gen.Map:
		return "{}"
	}
	return "0"
}

func c04Run(c *core.Ctx, i int) {
	st := c.State.(*c04State)
	nAssign := len(st.types) * len(c04Contexts)
	switch {
	case i < nAssign:
		t := st.types[i/len(c04Contexts)]
		ctx := c04Contexts[i%len(c04Contexts)]
		c.Cover("context", ctx)
		for _, v := range st.vals {
			cell := fmt.Sprintf("%s|%s|%s<-%s|%s", ctx, v.kind, t, v.t, v.src)
			c.Cover("value-kind", v.kind)
			src := c04Program(ctx, t, v)
			src = strings.ReplaceAll(src, "(zerov)", zeroLit(t))
			if v.kind == "var-elem" {
				// the containers are empty at run time: only acceptance is judged, the use is guarded
				ts := t.String()
				g := v.guard
				if g == "" {
					g = "if false"
				}
				switch ctx {
				case "assign":
					src = v.decl + "x:" + ts + "\n" + g + "\n    x = " + v.src + "\nend\nprint (typeof x)\n"
				case "param":
					src = v.decl + "func fn p:" + ts + "\n    print (typeof p)\nend\n" + g + "\n    fn " + v.src + "\nend\n"
				case "variadic":
					src = v.decl + "func fn p:" + ts + "...\n    print (len p)\nend\n" + g + "\n    fn " + v.src + " " + v.src + "\nend\n"
				case "return":
					src = v.decl + "func fn:" + ts + "\n    return " + v.src + "\nend\nif false\n    x := (fn)\n    print (typeof x)\nend\n"
					if v.guard != "" {
						src = v.decl + "func fn:" + ts + "\n    " + g + "\n        return " + v.src + "\n    end\n    r:" + ts + "\n    return r\nend\nif false\n    x := (fn)\n    print (typeof x)\nend\n"
					}
				case "element":
					src = v.decl + "arr:[]" + ts + "\n" + g + "\n    arr[0] = " + v.src + "\nend\nprint (typeof arr)\n"
				case "field":
					src = v.decl + "m:{}" + ts + "\n" + g + "\n    m.k = " + v.src + "\nend\nprint (typeof m)\n"
				case "inferred":
					continue
				}
			}
			var exp c04Expect
			if ctx == "inferred" {
				// independent of t: run once per value (for the first target type only)
				if i/len(c04Contexts) != 0 {
					continue
				}
				exp = expectInferred(v)
				cell = fmt.Sprintf("inferred|%s|%s|%s", v.kind, v.t, v.src)
			} else {
				exp = expectAssign(t, v)
				if ctx == "element" {
					exp.typeofS = "[]" + t.String()
				}
				if v.kind == "var-elem" {
					exp.typeofS = ""
				}
			}
			c04Judge(c, cell, src, exp)
		}
		if i == 1 {
			c.Sample(map[string]any{"cell": "assign|const|[]any<-[]num|[1]", "program": c04Program("assign", gen.ArrOf(tAny), c04Val{kind: "const", t: tArrN, src: "[1]"})})
		}
	case i < nAssign+len(c04Ops):
		op := c04Ops[i-nAssign]
		c.Cover("context", "operator")
		for _, l := range st.types {
			for _, r := range st.types {
				ok, res := expectOp(op, l, r)
				wsop := op
				src := fmt.Sprintf("a:%s\nb:%s\nx := a %s b\nprint (typeof x)\n", l, r, wsop)
				c04Judge(c, fmt.Sprintf("operator|var|%s %s %s", l, op, r), src, c04Expect{accept: ok, typeofS: res})
				// constants as operands
				cl, cr := constLit(l, 0), constLit(r, 1)
				if op == "*" {
					cr = constLit(r, 0) // a repetition count must be an integer at run time
				}
				if cl != "" && cr != "" {
					src := fmt.Sprintf("x := %s %s %s\nprint (typeof x)\n", cl, wsop, cr)
					c04Judge(c, fmt.Sprintf("operator|const|%s %s %s", l, op, r), src, c04Expect{accept: ok, typeofS: res})
				}
			}
		}
	case i < nAssign+len(c04Ops)+6:
		c04Other(c, st, i-nAssign-len(c04Ops))
	default:
		c.Cover("context", "literal-inference")
		c04InferRun(c, i-nAssign-len(c04Ops)-6)
	}
}

// expectInferred: x := v ; typeof x
func expectInferred(v c04Val) c04Expect {
	switch v.kind {
	case "empty":
		return c04Expect{accept: true, typeofS: inferEmpty(v.t).String()}
	}
	if v.t.K == gen.Any {
		return c04Expect{accept: true, typeofS: "bool"} // x := v for an any variable holding its zero value
	}
	return c04Expect{accept: true, typeofS: v.t.String()}
}

// c04Other: unary operators, index, slice, field access, type assertion, condition, range.
// c04InferredVsTyped: a variable declared by inference from an untyped empty literal is the same
// thing as a variable declared with the inferred type (`x := []` is `x:[]any`): every use must be
// accepted / rejected / typed alike.
func c04InferredVsTyped(c *core.Ctx) {
	pairs := [][2]string{{"v := []\n", "v:[]any\n"}, {"v := {}\n", "v:{}any\n"}, {"v := ([])\n", "v:[]any\n"}, {"v := []+[]\n", "v:[]any\n"}, {"v := [[]]\n", "v:[][]any\n"}, {"v := {a:[]}\n", "v:{}[]any\n"}, {"v := [[]][0]\n", "v:[]any\n"}}
	uses := []string{
		"b:[]any\nb = [v]\nprint (typeof b)\n", "b:[]any\nb = v\nprint (typeof b)\n", "b:any\nb = [v]\nprint (typeof b)\n", "b:[][]any\nb = [v]\nprint (typeof b)\n", "b:{}any\nb = {k:v}\nprint (typeof b)\n",
		"y := [v [1]]\nprint (typeof y)\n", "y := [[1] v]\nprint (typeof y)\n", "y := [v []]\nprint (typeof y)\n", "y := [v v]\nprint (typeof y)\n", "y := {a:v b:[1]}\nprint (typeof y)\n", "y := [v {}]\nprint (typeof y)\n",
		"y := v + [1]\nprint (typeof y)\n", "y := [v] + [[1]]\nprint (typeof y)\n", "func f p:[]any\n    print (typeof p)\nend\nf [v]\n", "func f p:[][]num\n    print (typeof p)\nend\nf [v]\n", "func f:[]any\n    return [v]\nend\nprint (typeof (f))\n",
		"for e := range [v]\n    w:[]num\n    w = e\n    print (typeof e)\nend\n", "print (typeof v) (typeof [v])\n", "y := v == []\nprint y\n", "y := [v] == [[]]\nprint y\n",
	}
	for pi, pr := range pairs {
		for ui, use := range uses {
			if (pi == 4 || pi == 5) && ui >= 18 {
				continue // these declarations differ in their initial value, which == observes
			}
			cell := fmt.Sprintf("inferred-vs-typed|%d|%d", pi, ui)
			c.Event("cells", 1)
			c.Distinct(cell)
			c.Cover("context", "inferred-vs-typed")
			var res [2]string
			for k := 0; k < 2; k++ {
				src := pr[k] + use
				c.Journal(src)
				o := plat.Run(src, plat.Opts{YieldBudget: 20000})
				if o.Class == "gopanic" {
					c.Violation("crash:"+o.Site, cell+": Go panic "+firstN(o.GoPanic, 200), src, nil)
					return
				}
				res[k] = o.Class + "|" + strings.Join(o.Events, ";")
				if o.Class == "parse-error" {
					res[k] = "rejected" // messages may name the declaration differently
				}
			}
			if res[0] != res[1] {
				c.Violation("acceptance:inferred-vs-typed", fmt.Sprintf("%s: with `%s` the program gives %s, with `%s` it gives %s", cell, strings.TrimSpace(pr[0]), firstN(res[0], 120), strings.TrimSpace(pr[1]), firstN(res[1], 120)), pr[0]+use, nil)
			}
		}
	}
}

// c04ReturnNone: `return` without a value has type none; it fits a function without result type and an
// event handler, never a function with a result type - wherever in the body it stands.
func c04ReturnNone(c *core.Ctx, st *c04State) {
	for _, t := range st.types {
		ts, z := t.String(), zeroLit(t)
		for si, shape := range []string{
			"func fn:%s\n    return\nend\nprint (typeof (fn))\n",
			"func fn:%s n:num\n    if n > 0\n        return\n    end\n    return (zerov)\nend\nprint (typeof (fn 0))\n",
			"func fn:%s n:num\n    while n > 0\n        return\n    end\n    return (zerov)\nend\nprint (typeof (fn 0))\n",
			"func fn:%s n:num\n    for i := range n\n        if i > 1\n            return\n        end\n    end\n    return (zerov)\nend\nprint (typeof (fn 0))\n",
			"func fn:%s n:num\n    if n > 0\n        return (zerov)\n    else\n        return\n    end\nend\nprint (typeof (fn 1))\n",
		} {
			src := strings.ReplaceAll(fmt.Sprintf(shape, ts), "(zerov)", z)
			c.Cover("context", "return-none")
			c04Judge(c, fmt.Sprintf("return-none|%d|%s", si, ts), src, c04Expect{accept: false})
		}
		// control: the same shapes with a value everywhere are accepted
		src := strings.ReplaceAll(fmt.Sprintf("func fn:%s n:num\n    if n > 0\n        return (zerov)\n    end\n    return (zerov)\nend\nprint (typeof (fn 0))\n", ts), "(zerov)", z)
		dyn := ts
		if t.K == gen.Any {
			dyn = "bool" // typeof reports the dynamic type of the value held
		}
		c04Judge(c, "return-value|"+ts, src, c04Expect{accept: true, typeofS: dyn})
	}
	for si, src := range []string{
		"func fn\n    return\nend\nfn\nprint \"ok\"\n", "func fn n:num\n    if n > 0\n        return\n    end\n    print n\nend\nfn 1\n",
		"on key k:string\n    if k == \"a\"\n        return\n    end\n    print k\nend\n",
	} {
		c04Judge(c, fmt.Sprintf("return-none-procedure|%d", si), src, c04Expect{accept: true})
	}
}

func c04Other(c *core.Ctx, st *c04State, k int) {
	if k == 0 {
		c04InferredVsTyped(c)
	}
	if k == 1 {
		c04ReturnNone(c, st)
	}
	for _, t := range st.types {
		ts := t.String()
		decl := "a:" + ts + "\n"
		switch k {
		case 0: // unary
			c.Cover("context", "unary")
			c04Judge(c, "unary|-|"+ts, decl+"x := -a\nprint (typeof x)\n", c04Expect{accept: t.K == gen.Num, typeofS: "num"})
			c04Judge(c, "unary|!|"+ts, decl+"x := !a\nprint (typeof x)\n", c04Expect{accept: t.K == gen.Bool, typeofS: "bool"})
		case 1: // index with num / string index
			c.Cover("context", "index")
			for _, it := range []*gen.Type{tNum, tStr, tBool, tAny} {
				ok := ((t.K == gen.Arr || t.K == gen.Str) && it.K == gen.Num) || (t.K == gen.Map && it.K == gen.Str)
				res := "string"
				if t.IsComposite() {
					res = t.Sub.String()
				}
				// the program is only parsed: the index may be out of range at run time
				c04Judge(c, "index|"+it.String()+"|"+ts, decl+"i:"+it.String()+"\nif false\n    x := a[i]\n    print (typeof x)\nend\nprint \""+res+"\"\n", c04Expect{accept: ok, typeofS: res})
			}
		case 2: // slice
			c.Cover("context", "slice")
			ok := t.K == gen.Arr || t.K == gen.Str
			c04Judge(c, "slice|"+ts, decl+"x := a[:]\nprint (typeof x)\n", c04Expect{accept: ok, typeofS: ts})
			for _, it := range []*gen.Type{tStr, tBool, tAny} {
				c04Judge(c, "slice-bound|"+it.String()+"|"+ts, decl+"i:"+it.String()+"\nx := a[i:]\nprint (typeof x)\n", c04Expect{accept: false})
			}
			// every bound position: start only, end only, both (each bound is judged on its own;
			// a num variable is 0, so a[0:0], a[0:] and a[:0] also run)
			for _, it := range []*gen.Type{tNum, tStr, tBool, tAny} {
				for _, jt := range []*gen.Type{tNum, tStr, tBool, tAny} {
					both := ok && it.K == gen.Num && jt.K == gen.Num
					c04Judge(c, "slice-bounds|"+it.String()+":"+jt.String()+"|"+ts, decl+"i:"+it.String()+"\nj:"+jt.String()+"\nx := a[i:j]\nprint (typeof x)\n", c04Expect{accept: both, typeofS: ts})
				}
				c04Judge(c, "slice-end|"+it.String()+"|"+ts, decl+"j:"+it.String()+"\nx := a[:j]\nprint (typeof x)\n", c04Expect{accept: ok && it.K == gen.Num, typeofS: ts})
			}
		case 3: // field access
			c.Cover("context", "field")
			res := ""
			if t.K == gen.Map {
				res = t.Sub.String()
			}
			c04Judge(c, "field|"+ts, decl+"if false\n    x := a.k\n    print (typeof x)\nend\nprint \""+res+"\"\n", c04Expect{accept: t.K == gen.Map, typeofS: res})
		case 4: // type assertion: only any can be asserted, never to any
			c.Cover("context", "assertion")
			for _, to := range st.types {
				ok := t.K == gen.Any && to.K != gen.Any
				c04Judge(c, "assertion|"+ts+"->"+to.String(), decl+"if false\n    x := a.("+to.String()+")\n    print (typeof x)\nend\nprint \""+to.String()+"\"\n", c04Expect{accept: ok, typeofS: to.String()})
			}
		case 5: // condition and range operand
			c.Cover("context", "condition-range")
			c04Judge(c, "condition|if|"+ts, decl+"if a\n    print 1\nend\n", c04Expect{accept: t.K == gen.Bool})
			c04Judge(c, "condition|while|"+ts, decl+"while a\n    print 1\n    break\nend\n", c04Expect{accept: t.K == gen.Bool})
			okRange := t.K == gen.Num || t.K == gen.Str || t.K == gen.Arr || t.K == gen.Map
			lv := "string"
			switch t.K {
			case gen.Num:
				lv = "num"
			case gen.Arr:
				lv = t.Sub.String()
			}
			c04Judge(c, "range|"+ts, decl+"for e := range a\n    print (typeof e)\nend\nprint \""+lv+"\"\n", c04Expect{accept: okRange, typeofS: lv})
			c04Judge(c, "range2|"+ts, decl+"for e := range a a\n    print e\nend\n", c04Expect{accept: t.K == gen.Num})
		}
	}
}
