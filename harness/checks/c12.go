package checks

import (
	"fmt"
	"math/rand"

	"verif/core"
	"verif/gen"
)

// C12 — maps are insertion-ordered dictionaries.

var c12Keys = []string{"a", "b", "c"}
var c12AllKeys = []string{"a", "b", "c", "d", "x y", "1a", "end"}

func isIdentKey(k string) bool { return k != "x y" && k != "1a" }

type mapHist struct {
	r           *rand.Rand
	stmts       []gen.Stmt
	n           int
	val         float64
	c           *core.Ctx
	walkDefined bool
}

func (h *mapHist) nextVal() gen.Expr { h.val++; return nl(h.val) }

func (h *mapHist) m(name string) gen.VarRef { return vr(name, tMapN) }

// observe prints the map, its length and membership of every key (the observations).
func (h *mapHist) observe(name string) {
	args := []gen.Expr{sl("obs"), h.m(name), call("len", tNum, toAny(h.m(name)))}
	for _, k := range c12Keys {
		args = append(args, call("has", tBool, h.m(name), sl(k)))
	}
	h.stmts = append(h.stmts, printCall(args...))
}

func (h *mapHist) set(name, k string) gen.Stmt {
	if isIdentKey(k) && h.r.Intn(2) == 0 {
		return gen.Assign{Target: gen.Dot{X: h.m(name), Key: k, T: tNum}, Val: h.nextVal()}
	}
	return gen.Assign{Target: gen.Index{X: h.m(name), I: sl(k), T: tNum}, Val: h.nextVal()}
}

func (h *mapHist) del(name, k string) gen.Stmt {
	return gen.CallStmt{C: call("del", gen.TNone, h.m(name), sl(k))}
}

func (h *mapHist) get(name, k string, guarded bool) gen.Stmt {
	var read gen.Expr = gen.Index{X: h.m(name), I: sl(k), T: tNum}
	if isIdentKey(k) && h.r.Intn(2) == 0 {
		read = gen.Dot{X: h.m(name), Key: k, T: tNum}
	}
	p := printCall(sl("get "+k), read)
	if guarded {
		return gen.If{Conds: []gen.Expr{call("has", tBool, h.m(name), sl(k))}, Blocks: [][]gen.Stmt{{p}}, Else: []gen.Stmt{printCall(sl("no " + k))}}
	}
	return p
}

// rangeOp iterates over the map and performs an operation on the same map inside the loop.
func (h *mapHist) rangeOp(name string, inner int) gen.Stmt {
	h.n++
	kv := fmt.Sprintf("k%d", h.n)
	body := []gen.Stmt{printCall(sl("visit"), vr(kv, tStr))}
	if inner >= 7 && inner <= 9 { // no loop variable: one round per key that is still present when its turn comes
		kv = ""
		body = []gen.Stmt{printCall(sl("round"))}
	}
	switch inner {
	case 10: // a second map loop inside: the outer iteration is not disturbed by it
		h.n++
		k2 := fmt.Sprintf("k%d", h.n)
		keys := []string{"p", "q", "r", "s", "t"}[:2+h.r.Intn(4)]
		vals := make([]gen.Expr, len(keys))
		for i := range keys {
			vals[i] = nl(float64(i))
		}
		body = append(body, gen.For{Var: k2, VarT: tStr, Over: gen.MapLit{T: tMapN, Keys: keys, Vals: vals}, Body: []gen.Stmt{printCall(sl("inner"), vr(kv, tStr), vr(k2, tStr))}})
	case 11: // the same map ranged inside its own loop, after a deletion
		h.n++
		k2 := fmt.Sprintf("k%d", h.n)
		body = append(body, h.del(name, []string{"c", "a", "b"}[h.r.Intn(3)]),
			gen.For{Var: k2, VarT: tStr, Over: h.m(name), Body: []gen.Stmt{printCall(sl("inner"), vr(kv, tStr), vr(k2, tStr))}})
	case 12: // a map loop inside a function called from the loop body (another map and the same one)
		if !h.walkDefined {
			h.walkDefined = true
			h.stmts = append(h.stmts, gen.FuncDef{Name: "walk", Ret: gen.TNone, Params: []gen.Param{{Name: "mm", T: tMapN}, {Name: "depth", T: tNum}}, Body: []gen.Stmt{
				gen.For{Var: "wk", VarT: tStr, Over: vr("mm", tMapN), Body: []gen.Stmt{
					printCall(sl("walk"), vr("depth", tNum), vr("wk", tStr)),
					gen.If{Conds: []gen.Expr{gen.Binary{Op: ">", L: vr("depth", tNum), R: nl(0), T: tBool}}, Blocks: [][]gen.Stmt{{
						gen.CallStmt{C: call("walk", gen.TNone, gen.MapLit{T: tMapN, Keys: []string{"u", "v", "w"}, Vals: []gen.Expr{nl(1), nl(2), nl(3)}}, gen.Binary{Op: "-", L: vr("depth", tNum), R: nl(1), T: tNum})},
					}}},
				}},
			}})
		}
		body = append(body, gen.CallStmt{C: call("walk", gen.TNone, h.m(name), nl(float64(h.r.Intn(2))))})
	case 13: // delete not-yet-visited keys (whichever is last in insertion order among them), then insert
		body = append(body, h.del(name, "c"), h.del(name, "b"), h.del(name, "end"),
			gen.Assign{Target: gen.Index{X: h.m(name), I: gen.Binary{Op: "+", L: vr(kv, tStr), R: sl("z"), T: tStr}, T: tNum}, Val: h.nextVal()})
	case 14: // insert, delete the inserted key again, insert another one
		body = append(body, h.set(name, "end"), h.del(name, "end"), h.set(name, "x y"))
	case 7: // delete a later key
		body = append(body, h.del(name, "c"))
	case 8: // drain the map in the first round
		body = append(body, h.del(name, "a"), h.del(name, "b"), h.del(name, "c"), h.del(name, "x y"))
	case 9: // insert: not visited
		body = append(body, h.set(name, "end"))
	case 0: // delete the current key
		body = append(body, gen.CallStmt{C: call("del", gen.TNone, h.m(name), vr(kv, tStr))})
	case 1: // insert a new key: must not be visited
		body = append(body, gen.Assign{Target: gen.Index{X: h.m(name), I: gen.Binary{Op: "+", L: vr(kv, tStr), R: sl("n"), T: tStr}, T: tNum}, Val: h.nextVal()})
	case 2: // delete a later key
		body = append(body, h.del(name, "c"))
	case 3: // delete an earlier key
		body = append(body, h.del(name, "a"))
	case 4: // overwrite the current key: position unchanged
		body = append(body, gen.Assign{Target: gen.Index{X: h.m(name), I: vr(kv, tStr), T: tNum}, Val: h.nextVal()})
	case 5: // delete and re-insert a key: moves to the end, not visited again
		body = append(body, h.del(name, "b"), h.set(name, "b"))
	case 6: // nothing
	}
	body = append(body, printCall(sl("in"), h.m(name)))
	return gen.For{Var: kv, VarT: tStr, Over: h.m(name), Body: body}
}

const c12NOps = 13

// op returns the statements of exhaustive-alphabet operation number o on map name.
func (h *mapHist) op(name string, o int) []gen.Stmt {
	switch {
	case o < 3:
		h.c.Cover("op", "set")
		return []gen.Stmt{h.set(name, c12Keys[o])}
	case o < 6:
		h.c.Cover("op", "del")
		return []gen.Stmt{h.del(name, c12Keys[o-3])}
	case o == 6:
		h.c.Cover("op", "range-del-current")
		return []gen.Stmt{h.rangeOp(name, 0)}
	case o == 7:
		h.c.Cover("op", "range-insert")
		return []gen.Stmt{h.rangeOp(name, 1)}
	case o == 8:
		h.c.Cover("op", "range-del-later")
		return []gen.Stmt{h.rangeOp(name, 2)}
	case o == 9:
		h.c.Cover("op", "range-reinsert")
		return []gen.Stmt{h.rangeOp(name, 5)}
	case o == 11:
		h.c.Cover("op", "range-nested")
		return []gen.Stmt{h.rangeOp(name, 10+h.r.Intn(5))}
	case o == 10:
		h.c.Cover("op", "range-novar-del-later")
		return []gen.Stmt{h.rangeOp(name, 7+h.r.Intn(2))}
	default:
		h.c.Cover("op", "get-guarded")
		return []gen.Stmt{h.get(name, c12Keys[h.r.Intn(3)], true)}
	}
}

func c12Count(maxLen int) int {
	n, p := 0, 1
	for l := 1; l <= maxLen; l++ {
		p *= c12NOps
		n += p
	}
	return n
}

func init() {
	core.Register(&core.Check{
		ID:          "C12",
		Level:       "exploration",
		Rule:        "map histories as Evy programs whose printed observations (map, len, has of every key, visited keys, lookups) are compared with an insertion-ordered dictionary model: all histories up to length 3 (quick) / 4 (thorough) over a 13-operation alphabet on 3 keys (set, delete, five kinds of mutation while ranging over the same map with and without loop variable, nested map loops — another map, the same map, through a recursive function —, guarded lookup), plus random histories up to length 14 with non-identifier keys, aliases (second name, map inside an array, map inside any), missing-key lookups and ==/!= between maps built in different orders with deep values; distinct = distinct canonical program texts",
		Assumptions: []string{"sequential model: ref.Map (ordered keys + dictionary) in harness/ref; the history is a single program so the order of operations is total"},
		NumCases: func(tier string) int {
			if tier == "thorough" {
				return c12Count(4) + 60000
			}
			return c12Count(3) + 2500
		},
		Run:       c12Run,
		MinEvents: []string{"programs", "layouts_run", "effects_compared"},
	})
}

func c12Run(c *core.Ctx, i int) {
	h := &mapHist{r: c.Rng, c: c}
	maxLen := 3
	if c.Tier == "thorough" {
		maxLen = 4
	}
	total := c12Count(maxLen)
	lit := gen.MapLit{T: tMapN, Keys: []string{"a", "b"}, Vals: []gen.Expr{nl(1), nl(2)}}
	if i < total {
		// decode history
		idx, l, p := i, 1, c12NOps
		for idx >= p {
			idx -= p
			l++
			p *= c12NOps
		}
		h.stmts = append(h.stmts, gen.Decl{Name: "m", T: tMapN, Init: lit})
		h.val = 10
		h.observe("m")
		for k := 0; k < l; k++ {
			h.stmts = append(h.stmts, h.op("m", idx%c12NOps)...)
			idx /= c12NOps
			h.observe("m")
		}
		c.Cover("history-length", fmt.Sprint(l))
		runGenProgram(c, &gen.Program{Stmts: h.stmts}, nil, true, i == 500)
		return
	}
	// random histories with aliases
	r := c.Rng
	switch i % 10 {
	case 1: // a map grown to many keys and shrunk again
		runTextFamily(c, "bulk-map", bulkMapSource(r), nil)
		return
	case 6: // maps copied by the repetition operator
		runTextFamily(c, "repeated-maps", repeatedMapSource(r), nil)
		return
	}
	switch r.Intn(3) {
	case 0:
		h.stmts = append(h.stmts, gen.Decl{Name: "m", T: tMapN, Init: lit})
	case 1:
		h.stmts = append(h.stmts, gen.Decl{Name: "m", T: tMapN, Typed: true})
	case 2:
		h.stmts = append(h.stmts, gen.Decl{Name: "m", T: tMapN, Init: gen.MapLit{T: tMapN, Keys: []string{"c", "a", "d", "b"}, Vals: []gen.Expr{nl(3), nl(1), nl(4), nl(2)}}})
	}
	h.val = 10
	names := []string{"m"}
	// aliases
	if r.Intn(2) == 0 {
		h.stmts = append(h.stmts, gen.Decl{Name: "m2", T: tMapN, Init: h.m("m")})
		names = append(names, "m2")
		c.Cover("alias", "second-name")
	}
	if r.Intn(3) == 0 {
		tArrM := gen.ArrOf(tMapN)
		h.stmts = append(h.stmts, gen.Decl{Name: "holder", T: tArrM, Init: arrLit(tArrM, h.m("m"))},
			gen.Decl{Name: "m3", T: tMapN, Init: gen.Index{X: vr("holder", tArrM), I: nl(0), T: tMapN}})
		names = append(names, "m3")
		c.Cover("alias", "inside-array")
	}
	if r.Intn(3) == 0 {
		h.stmts = append(h.stmts, gen.Decl{Name: "x", T: tAny, Typed: true}, gen.Assign{Target: vr("x", tAny), Val: toAny(h.m("m"))},
			gen.Decl{Name: "m4", T: tMapN, Init: gen.Assert{X: vr("x", tAny), T: tMapN}}, printCall(sl("typeof"), call("typeof", tStr, vr("x", tAny))))
		names = append(names, "m4")
		c.Cover("alias", "inside-any")
	}
	n := 3 + r.Intn(12)
	for k := 0; k < n; k++ {
		name := names[r.Intn(len(names))]
		key := c12AllKeys[r.Intn(len(c12AllKeys))]
		switch r.Intn(9) {
		case 0, 1, 2:
			h.stmts = append(h.stmts, h.set(name, key))
			c.Cover("op", "set")
		case 3, 4:
			h.stmts = append(h.stmts, h.del(name, key))
			c.Cover("op", "del")
		case 5:
			h.stmts = append(h.stmts, h.get(name, key, true))
			c.Cover("op", "get-guarded")
		case 6, 7:
			inner := r.Intn(15)
			h.stmts = append(h.stmts, h.rangeOp(name, inner))
			c.Cover("op", fmt.Sprintf("range-inner-%d", inner))
		case 8:
			// equality with a map built in another order
			other := fmt.Sprintf("o%d", k)
			h.stmts = append(h.stmts, gen.Decl{Name: other, T: tMapN, Typed: true},
				gen.For{Var: "kk" + fmt.Sprint(k), VarT: tStr, Over: arrLit(tArrS, sl("d"), sl("c"), sl("b"), sl("a"), sl("x y"), sl("end"), sl("1a")), Body: []gen.Stmt{
					gen.If{Conds: []gen.Expr{call("has", tBool, h.m(name), vr("kk"+fmt.Sprint(k), tStr))}, Blocks: [][]gen.Stmt{{
						gen.Assign{Target: gen.Index{X: h.m(other), I: vr("kk"+fmt.Sprint(k), tStr), T: tNum}, Val: gen.Index{X: h.m(name), I: vr("kk"+fmt.Sprint(k), tStr), T: tNum}}}}}}},
				printCall(sl("eq"), gen.Binary{Op: "==", L: h.m(name), R: h.m(other), T: tBool}, gen.Binary{Op: "!=", L: h.m(other), R: h.m(name), T: tBool}, h.m(other)))
			c.Cover("op", "equality-other-order")
			// same size, another key set; equal up to one value; -0 written over 0
			o2 := other + "b"
			h.stmts = append(h.stmts, gen.Decl{Name: o2, T: tMapN, Typed: true},
				gen.For{Var: "kq" + fmt.Sprint(k), VarT: tStr, Over: h.m(other), Body: []gen.Stmt{
					gen.Assign{Target: gen.Index{X: h.m(o2), I: gen.Binary{Op: "+", L: vr("kq"+fmt.Sprint(k), tStr), R: sl([]string{"", "", "2"}[r.Intn(3)]), T: tStr}, T: tNum}, Val: gen.Index{X: h.m(other), I: vr("kq"+fmt.Sprint(k), tStr), T: tNum}}}},
				gen.Assign{Target: gen.Dot{X: h.m(o2), Key: "a", T: tNum}, Val: nl(0)}, gen.Assign{Target: gen.Dot{X: h.m(other), Key: "a", T: tNum}, Val: nl(0)},
				gen.If{Conds: []gen.Expr{gen.BoolLit{V: r.Intn(2) == 0}}, Blocks: [][]gen.Stmt{{gen.Assign{Target: gen.Dot{X: h.m(other), Key: "zz", T: tNum}, Val: nl(1)}, gen.Assign{Target: gen.Dot{X: h.m(o2), Key: "yy", T: tNum}, Val: nl(1)}}}},
				printCall(sl("eq2"), gen.Binary{Op: "==", L: h.m(other), R: h.m(o2), T: tBool}, gen.Binary{Op: "!=", L: h.m(o2), R: h.m(other), T: tBool}, call("len", tNum, toAny(h.m(other))), call("len", tNum, toAny(h.m(o2)))),
				gen.Assign{Target: gen.Dot{X: h.m(o2), Key: "a", T: tNum}, Val: gen.Binary{Op: "*", L: nl(0), R: nl(-1), T: tNum}},
				printCall(sl("negzero"), h.m(o2), gen.Binary{Op: "/", L: nl(1), R: gen.Dot{X: h.m(o2), Key: "a", T: tNum}, T: tNum}))
			c.Cover("op", "equality-same-size-other-keys")
		}
		h.observe(names[r.Intn(len(names))])
	}
	// map literals made of literals only, evaluated several times (function called twice, loop body):
	// every evaluation is a fresh map with fresh inner maps
	if r.Intn(3) == 0 {
		tMM := gen.MapOf(tMapN)
		lit := gen.MapLit{T: tMM, Keys: []string{"pos", "size"}, Vals: []gen.Expr{gen.MapLit{T: tMapN, Keys: []string{"x", "y"}, Vals: []gen.Expr{nl(0), nl(0)}}, gen.MapLit{T: tMapN, Keys: []string{"w"}, Vals: []gen.Expr{nl(1)}}}}
		pos := func(v string) gen.Expr { return gen.Dot{X: vr(v, tMM), Key: "pos", T: tMapN} }
		h.stmts = append(h.stmts,
			gen.FuncDef{Name: "mkconf", Ret: tMM, Body: []gen.Stmt{gen.Return{Val: lit}}},
			gen.Decl{Name: "k1", T: tMM, Init: call("mkconf", tMM)},
			gen.Assign{Target: gen.Dot{X: pos("k1"), Key: "x", T: tNum}, Val: nl(5)}, gen.Assign{Target: gen.Dot{X: pos("k1"), Key: "z", T: tNum}, Val: nl(6)},
			gen.CallStmt{C: call("del", gen.TNone, pos("k1"), sl("y"))},
			gen.Decl{Name: "k2", T: tMM, Init: call("mkconf", tMM)},
			printCall(sl("fresh"), vr("k1", tMM), vr("k2", tMM), gen.Binary{Op: "==", L: vr("k1", tMM), R: vr("k2", tMM), T: tBool}, call("len", tNum, toAny(pos("k2"))), call("has", tBool, pos("k2"), sl("y"))),
			gen.For{Var: "rnd", VarT: tNum, Args: []gen.Expr{nl(3)}, Body: []gen.Stmt{
				gen.Decl{Name: "lm", T: tMM, Init: gen.MapLit{T: tMM, Keys: []string{"a", "b"}, Vals: []gen.Expr{gen.MapLit{T: tMapN, Keys: []string{"p"}, Vals: []gen.Expr{nl(1)}}, gen.MapLit{T: tMapN, Keys: []string{"q"}, Vals: []gen.Expr{nl(2)}}}}},
				printCall(sl("loop-literal"), vr("lm", tMM)),
				gen.Assign{Target: gen.Dot{X: gen.Dot{X: vr("lm", tMM), Key: "a", T: tMapN}, Key: "p", T: tNum}, Val: gen.Binary{Op: "+", L: vr("rnd", tNum), R: nl(10), T: tNum}},
				gen.Assign{Target: gen.Dot{X: gen.Dot{X: vr("lm", tMM), Key: "b", T: tMapN}, Key: "r", T: tNum}, Val: vr("rnd", tNum)},
				gen.CallStmt{C: call("del", gen.TNone, gen.Dot{X: vr("lm", tMM), Key: "b", T: tMapN}, sl("q"))},
			}})
		c.Cover("op", "constant-literal-evaluated-twice")
	}
	// deep equality
	if r.Intn(3) == 0 {
		tMM := gen.MapOf(tArrN)
		h.stmts = append(h.stmts,
			gen.Decl{Name: "d1", T: tMM, Init: gen.MapLit{T: tMM, Keys: []string{"p", "q"}, Vals: []gen.Expr{arrLit(tArrN, nl(1), nl(2)), arrLit(tArrN, nl(3))}}},
			gen.Decl{Name: "d2", T: tMM, Init: gen.MapLit{T: tMM, Keys: []string{"q", "p"}, Vals: []gen.Expr{arrLit(tArrN, nl(3)), arrLit(tArrN, nl(1), nl(float64(2+r.Intn(2))))}}},
			printCall(sl("deep"), gen.Binary{Op: "==", L: vr("d1", tMM), R: vr("d2", tMM), T: tBool}, vr("d1", tMM), vr("d2", tMM)))
		c.Cover("op", "deep-equality")
	}
	// a final unguarded lookup: panics exactly when the key is missing
	if r.Intn(2) == 0 {
		h.stmts = append(h.stmts, h.get(names[r.Intn(len(names))], c12AllKeys[r.Intn(len(c12AllKeys))], false))
		c.Cover("op", "get-unguarded")
	}
	// every alias is observed at least once before the final (possibly panicking) lookup
	final := h.stmts[len(h.stmts)-1]
	unguarded := false
	if _, ok := final.(gen.CallStmt); ok && len(h.stmts) > 0 {
		if cs := final.(gen.CallStmt); cs.C.Name == "print" && len(cs.C.Args) == 2 {
			unguarded = true
			h.stmts = h.stmts[:len(h.stmts)-1]
		}
	}
	for _, nm := range names {
		h.observe(nm)
	}
	if unguarded {
		h.stmts = append(h.stmts, final)
	}
	h.stmts = append(h.stmts, printCall(sl("end")))
	runGenProgram(c, &gen.Program{Stmts: h.stmts}, nil, true, i == total+1)
}
