package checks

import (
	"fmt"
	"math"
	"strconv"
	"strings"

	"verif/core"
	"verif/plat"
)

// C11 — index and slice laws for arrays and strings (closed-form oracle, exhaustive grid).

type c11Container struct {
	kind  string   // "array" or "string"
	lit   string   // Evy literal
	elems []string // printed form of each element
	decl  string   // optional declaration prefix
	via   string   // expression by which the container is reached (default "s")
}

type c11Index struct {
	expr string  // Evy expression
	v    float64 // its value
}

// float64 variables (not constants: Go evaluates constant expressions exactly)
var f01, f02, f03, f1e10, f1e12 = 0.1, 0.2, 0.3, 0.0000000001, 0.000000000001

func c11Indices(n int) []c11Index {
	var out []c11Index
	for i := -n - 2; i <= n+2; i++ {
		e := strconv.Itoa(i)
		out = append(out, c11Index{e, float64(i)})
	}
	out = append(out,
		c11Index{"0.5", 0.5}, c11Index{"-0.5", -0.5}, c11Index{fmt.Sprintf("%d.5", max(n-1, 0)), float64(max(n-1, 0)) + 0.5},
		c11Index{"0.000000001", 1e-9}, c11Index{"2147483648", 2147483648}, c11Index{"-2147483649", -2147483649},
		c11Index{"9007199254740992", 9007199254740992}, c11Index{"9223372036854775808", 9223372036854775808},
		c11Index{"-9223372036854775808", -9223372036854775808}, c11Index{"(pow 10 300)", 1e300}, c11Index{"(-(pow 10 300))", -1e300},
		c11Index{"(0/zero)", math.NaN()}, c11Index{"(1/zero)", math.Inf(1)}, c11Index{"(-1/zero)", math.Inf(-1)}, c11Index{"(zero*-1)", math.Copysign(0, -1)},
		c11Index{"1.0", 1}, c11Index{"(n-1)", float64(n - 1)}, c11Index{"(-n)", float64(-n)},
		// computed values that are close to, but not, integers
		c11Index{"(0.1*3*10-3)", f01*3*10 - 3}, c11Index{"(1-0.0000000001)", 1 - f1e10}, c11Index{"(-1+0.000000000001)", -1 + f1e12},
		c11Index{"0.00000000000001", 1e-14}, c11Index{"(n-0.000000000001)", float64(n) - f1e12}, c11Index{"(0.1+0.2-0.3)", f01 + f02 - f03},
	)
	return out
}

func c11Containers(tier string) []c11Container {
	maxLen := 3
	if tier == "thorough" {
		maxLen = 7
	}
	var out []c11Container
	chars := [][]string{
		{"a", "b", "c", "d", "e", "f", "g"},
		{"é", "b", "ü", "d", "ö", "ß", "ñ"},
		{"🌍", "a", "👋", "é", "x", "🎉", "か"},
		{"é", "a", "́", "z", "か", "̈", "y"},                    // combining marks are code points of their own
		{"\ufffd", "a", "\ufffd", "\ufffd", "b", "é", "\ufffd"}, // U+FFFD is an ordinary character of a string
		{"\\xff", "a", "\\xfe", "b", "\\xc3", "c", "\\x80"},     // bytes that are not valid UTF-8 count as one character (U+FFFD) each
		{"€", "\\t", "\\\"", " ", "\\\\", "\\n", "'"},
	}
	for n := 0; n <= maxLen; n++ {
		// arrays of num, string, nested arrays, []any
		nums, strs, nest, anys := []string{}, []string{}, []string{}, []string{}
		numsP, strsP, nestP, anysP := []string{}, []string{}, []string{}, []string{}
		for k := 0; k < n; k++ {
			nums = append(nums, strconv.Itoa(10+k))
			numsP = append(numsP, strconv.Itoa(10+k))
			strs = append(strs, strconv.Quote(string(rune('p'+k))))
			strsP = append(strsP, string(rune('p'+k)))
			nest = append(nest, fmt.Sprintf("[%d %d]", k, k+1))
			nestP = append(nestP, fmt.Sprintf("[%d %d]", k, k+1))
			if k%2 == 0 {
				anys = append(anys, strconv.Itoa(k))
				anysP = append(anysP, strconv.Itoa(k))
			} else {
				anys = append(anys, "\"s\"")
				anysP = append(anysP, "s")
			}
		}
		out = append(out,
			c11Container{kind: "array", decl: "s:[]num\n", lit: "[" + strings.Join(nums, " ") + "]", elems: numsP},
			c11Container{kind: "array", decl: "s:[]string\n", lit: "[" + strings.Join(strs, " ") + "]", elems: strsP},
			c11Container{kind: "array", decl: "s:[][]num\n", lit: "[" + strings.Join(nest, " ") + "]", elems: nestP},
			c11Container{kind: "array", decl: "s:[]any\n", lit: "[" + strings.Join(anys, " ") + "]", elems: anysP},
		)
		for _, cs := range chars {
			var lit strings.Builder
			var el []string
			for k := 0; k < n; k++ {
				lit.WriteString(cs[k])
				u, _ := strconv.Unquote("\"" + cs[k] + "\"")
				el = append(el, u)
			}
			// a string literal may hold several code points per "char" entry (e + combining mark)
			full, _ := strconv.Unquote("\"" + lit.String() + "\"")
			el = el[:0]
			for _, r := range full {
				el = append(el, string(r))
			}
			out = append(out, c11Container{kind: "string", decl: "s:string\n", lit: "\"" + lit.String() + "\"", elems: el})
		}
	}
	return out
}

var c11Forms = []string{"read", "read-group", "read-call", "read-any", "read-sliced", "store", "store-nested", "slice", "slice-copy", "read-reassigned", "runtime-string", "range", "concat-after-index"}

func init() {
	core.Register(&core.Check{
		ID:    "C11",
		Level: "exploration",
		Rule: "(beside the grid: slices of arrays of composites - fresh outer array, shared elements - judged by the reference interpreter) exhaustive grid: containers (arrays of num/string/nested/any and strings over ASCII, 2-, 3-, 4-byte characters, combining marks) of length 0..3 (quick) / 0..7 (thorough) x access forms (reads through variable, group, call, any, slice, after reassignment; stores; slices; loops over the container and over indexed loop variables; reads on strings concatenated from an indexed string; errmsg before and after the runtime rewrites it) x every index in [-n-2, n+2] plus fractional, huge, NaN, +-Inf, -0 x (for slices) all ordered pairs and missing bounds; one tiny program per access; " +
			"distinct = distinct (container, form, index/bounds) triples; non-trivial = all of them (each is its own execution)",
		Assumptions: []string{
			"an index of magnitude >= 2^63 may panic as 'out of bounds' or as 'not an integer' (the law does not say which; Go's float-to-int conversion is unspecified there)",
			"when several bounds of a slice are bad, any of the applicable documented panic kinds is accepted",
		},
		NumCases:   func(tier string) int { return len(c11Containers(tier)) * len(c11Forms) },
		Exhaustive: func(tier string) bool { return true },
		Run:        c11Run,
		MinEvents:  []string{"accesses", "reads_ok", "panics_checked", "slices_ok"},
	})
}

func isInt(v float64) bool { return v == math.Trunc(v) && !math.IsInf(v, 0) && !math.IsNaN(v) }

// indexLaw returns (ok, position, acceptable panic kinds).
func indexLaw(v float64, n int) (bool, int, []string) {
	if math.IsNaN(v) || math.IsInf(v, 0) || !isInt(v) {
		return false, 0, []string{"index-value"}
	}
	if math.Abs(v) >= 9223372036854775808 {
		return false, 0, []string{"bounds", "index-value"}
	}
	if v < float64(-n) || v >= float64(n) {
		return false, 0, []string{"bounds"}
	}
	i := int(v)
	if i < 0 {
		i += n
	}
	return true, i, nil
}

// sliceLaw: bounds may equal n.
func sliceBound(v float64, n int) (bool, int, []string) {
	if math.IsNaN(v) || math.IsInf(v, 0) || !isInt(v) {
		return false, 0, []string{"index-value"}
	}
	if math.Abs(v) >= 9223372036854775808 {
		return false, 0, []string{"bounds", "index-value"}
	}
	if v < float64(-n) || v > float64(n) {
		return false, 0, []string{"bounds"}
	}
	i := int(v)
	if i < 0 {
		i += n
	}
	return true, i, nil
}

func c11Prog(ct c11Container, body string) string {
	return "zero := 0\nn := " + strconv.Itoa(len(ct.elems)) + "\nzero = zero + n * 0\n" + ct.decl + "s = " + ct.lit + "\n" + body
}

func fmtElems(ct c11Container, elems []string) string {
	if ct.kind == "string" {
		return strings.Join(elems, "")
	}
	return "[" + strings.Join(elems, " ") + "]"
}

func c11Run(c *core.Ctx, i int) {
	cts := c11Containers(c.Tier)
	ct := cts[i/len(c11Forms)]
	form := c11Forms[i%len(c11Forms)]
	n := len(ct.elems)
	c.Cover("form", form)
	c.Cover("container", ct.kind+"/"+strconv.Itoa(n))
	idx := c11Indices(n)
	if i < 2 {
		c.Sample(map[string]any{"container": ct.lit, "form": form, "indices": len(idx)})
	}
	run := func(body string) *plat.Outcome {
		src := c11Prog(ct, body)
		c.Journal(src)
		c.Event("accesses", 1)
		o := plat.Run(src, plat.Opts{YieldBudget: 5000})
		if o.Class == "parse-error" {
			c.Violation("harness-program-rejected", "grid program rejected: "+firstN(o.ErrText, 200), src, nil)
		}
		return o
	}
	expectPanic := func(o *plat.Outcome, kinds []string, what, src string) {
		c.Event("panics_checked", 1)
		for _, k := range kinds {
			if o.Class == "panic:"+k {
				c.Cover("panic-kind", k)
				return
			}
		}
		c.Violation("wrong-outcome:"+form, fmt.Sprintf("%s: expected an Evy panic of kind %v, got %s %q %s with output %v", what, kinds, o.Class, o.ErrText, o.GoPanic, o.Events), src, nil)
	}
	if i < 24 {
		// beside the grid: slices of arrays of composites (fresh outer array, shared elements), judged
		// against the reference interpreter
		runTextFamily(c, "slice-sharing", sliceSharingSource(c.Rng), nil)
	}
	switch form {
	case "read-reassigned", "runtime-string", "concat-after-index":
		if ct.kind != "string" {
			return
		}
	}
	switch form {
	case "range":
		// a loop over the container visits exactly its n elements in order; for strings the loop
		// variable is a one-character string that can itself be indexed, sliced and measured
		body := "for el := range s\n    print el\nend\nprint \"end\"\n"
		want := []string{}
		for _, e := range ct.elems {
			want = append(want, "print "+strconv.Quote(e+"\n"))
		}
		if ct.kind == "string" {
			body = "for el := range s\n    print el el[0] el[-1] el[:1] el[1:] (len el)\nend\nprint \"end\"\n"
			want = want[:0]
			for _, e := range ct.elems {
				want = append(want, "print "+strconv.Quote(e+" "+e+" "+e+" "+e+"  1\n"))
			}
		}
		want = append(want, "print "+strconv.Quote("end\n"))
		c.Distinct(ct.lit + form)
		o := run(body)
		if o.Class != "ok" || strings.Join(o.Events, "|") != strings.Join(want, "|") {
			c.Violation("wrong-range", fmt.Sprintf("for el := range s with n=%d: expected %v, got %s %q %v", n, want, o.Class, o.ErrText, o.Events), c11Prog(ct, body), nil)
		} else {
			c.Event("reads_ok", 1)
		}
		return
	case "concat-after-index":
		// strings built from an already indexed string are independent values
		pre := ""
		if n > 0 {
			pre = "t0 := s[0] + s[-1] + s[:1]\nprint ((len t0) > 0)\n"
		}
		body := pre + "ca := s + \"X\"\ncb := s + \"Yé\"\ncc := ca + \"Z\"\ncd := ca + \"W🌍\"\nprint ca[n] cb[n] ca[-1] cb[-1] ca[n:] cb[n:] cc[n+1] cd[n+1] cc[-1] cd[-1] (len ca) (len cb) (len cc) (len cd)\nprint ca cb cc cd\n"
		full, _ := strconv.Unquote(ct.lit) // the whole string is printed as it is (also bytes that are no characters)
		want := []string{}
		if n > 0 {
			want = append(want, "print "+strconv.Quote("true\n"))
		}
		want = append(want, "print "+strconv.Quote(fmt.Sprintf("X Y X é X Yé Z W Z 🌍 %d %d %d %d\n", n+1, n+2, n+2, n+3)),
			"print "+strconv.Quote(full+"X "+full+"Yé "+full+"XZ "+full+"XW🌍\n"))
		c.Distinct(ct.lit + form)
		o := run(body)
		if o.Class != "ok" || strings.Join(o.Events, "|") != strings.Join(want, "|") {
			c.Violation("wrong-concat-read", fmt.Sprintf("reads on strings concatenated from an indexed string, n=%d: expected %v, got %s %q %v", n, want, o.Class, o.ErrText, o.Events), c11Prog(ct, body), nil)
		} else {
			c.Event("reads_ok", 1)
		}
		return
	}
	switch form {
	case "runtime-string":
		// errmsg is the one string the runtime rewrites in place: every access form must see its current
		// content, also after earlier accesses to an older content
		body := `q1 := str2num "Ünïcode-first 🌍 input, longer than the second"
c0 := errmsg[0] + errmsg[-1] + errmsg[2:5]
n0 := len errmsg
for ch := range errmsg
    c0 = ch
end
q2 := str2bool s
m := errmsg + ""
ok := (len errmsg) == (len m)
for i := range (len m)
    if errmsg[i] != m[i] or errmsg[i - (len m)] != m[i]
        ok = false
    end
    if errmsg[i:] != m[i:] or errmsg[:i] != m[:i]
        ok = false
    end
end
r := ""
for ch := range errmsg
    r = r + ch
end
print ok (r == m) (m == errmsg) (q1 == 0) (n0 > 0) (c0 != "") (q2 == false) (m == "str2bool: cannot parse " + (sprintf "%q" s))
q3 := str2num "1"
print (len errmsg) q3
print errmsg[0]
`
		c.Distinct(ct.lit + form)
		o := run(body)
		want := []string{"print " + strconv.Quote("true true true true true true true true\n"), "print " + strconv.Quote("0 1\n")}
		if o.Class != "panic:bounds" || len(o.Events) != 2 || o.Events[0] != want[0] || o.Events[1] != want[1] {
			c.Violation("stale-runtime-string", fmt.Sprintf("errmsg accesses after the runtime rewrote it: expected %v then a bounds panic, got %s %q %v", want, o.Class, o.ErrText, o.Events), c11Prog(ct, body), nil)
		} else {
			c.Event("reads_ok", 1)
		}
		return
	}
	switch form {
	case "read", "read-group", "read-call", "read-any", "read-sliced", "read-reassigned":
		for _, ix := range idx {
			var body string
			switch form {
			case "read":
				body = "print s[" + ix.expr + "]\n"
			case "read-group":
				body = "print (s)[ " + ix.expr + " ]\n"
			case "read-call":
				t := strings.TrimSuffix(strings.TrimPrefix(ct.decl, "s:"), "\n")
				body = "func get:" + t + "\n    return s\nend\nprint (get)[" + ix.expr + "]\n"
			case "read-any":
				t := strings.TrimSuffix(strings.TrimPrefix(ct.decl, "s:"), "\n")
				body = "x:any\nx = s\nprint x.(" + t + ")[" + ix.expr + "]\n"
			case "read-sliced":
				body = "print s[:][" + ix.expr + "]\n"
			case "read-reassigned": // the variable held another, longer string that was already indexed
				body = "keep := s\ns = \"0123456789 ÄÖ\"\nt := s[0] + s[-1] + s[1:3]\ns = keep\nprint s[" + ix.expr + "]\nt = \"\"\n"
			}
			c.Distinct(ct.lit + form + ix.expr)
			o := run(body)
			ok, pos, kinds := indexLaw(ix.v, n)
			if ok {
				want := "print " + strconv.Quote(ct.elems[pos]+"\n")
				if o.Class != "ok" || len(o.Events) != 1 || o.Events[0] != want {
					c.Violation("wrong-element:"+form, fmt.Sprintf("s[%s] with n=%d: expected %s, got %s %q %v", ix.expr, n, want, o.Class, o.ErrText, o.Events), c11Prog(ct, body), nil)
				} else {
					c.Event("reads_ok", 1)
				}
			} else {
				if len(o.Events) != 0 {
					c.Violation("effect-before-panic:"+form, fmt.Sprintf("s[%s]: output before the panic: %v", ix.expr, o.Events), c11Prog(ct, body), nil)
				}
				expectPanic(o, kinds, "s["+ix.expr+"]", c11Prog(ct, body))
			}
		}
	case "store", "store-nested":
		if ct.kind == "string" {
			return
		}
		if form == "store" && strings.Contains(ct.decl, "[]string") && n > 0 {
			// strings cannot be changed through an index, wherever the string sits
			for _, body := range []string{"s[0][0] = \"x\"\n", "s[-1][-1] = \"x\"\n", "ms := {name:s[0]}\nms.name[0] = \"x\"\n", "ms := {name:s[0]}\nms[\"name\"][0] = \"x\"\n", "g := [s s]\ng[1][0][0] = \"x\"\n", "am := [{k:s[0]}]\nam[0].k[0] = \"x\"\n"} {
				src := c11Prog(ct, body+"print s\n")
				c.Journal(src)
				c.Event("accesses", 1)
				o := plat.Run(src, plat.Opts{YieldBudget: 5000})
				if o.Class != "parse-error" {
					c.Violation("string-element-store-accepted", fmt.Sprintf("assignment to a character of a string element was not rejected by the parser: %s %q %v", o.Class, o.ErrText, o.Events), src, nil)
				}
			}
		}
		for _, ix := range idx {
			var body string
			val, valP := "", ""
			switch {
			case strings.Contains(ct.decl, "[]num"):
				val, valP = "77", "77"
			case strings.Contains(ct.decl, "[]string"):
				val, valP = "\"W\"", "W"
			case strings.Contains(ct.decl, "[]any"):
				val, valP = "true", "true"
			}
			nested := strings.Contains(ct.decl, "[][]num")
			if form == "store" {
				if nested {
					val, valP = "[7]", "[7]"
				}
				body = "s[" + ix.expr + "] = " + val + "\nprint s\n"
			} else {
				if !nested {
					continue
				}
				body = "s[" + ix.expr + "][1] = 99\nprint s\n"
			}
			c.Distinct(ct.lit + form + ix.expr)
			o := run(body)
			ok, pos, kinds := indexLaw(ix.v, n)
			if ok {
				el := append([]string(nil), ct.elems...)
				if form == "store" {
					el[pos] = valP
				} else {
					el[pos] = fmt.Sprintf("[%d 99]", pos)
				}
				want := "print " + strconv.Quote(fmtElems(ct, el)+"\n")
				if o.Class != "ok" || len(o.Events) != 1 || o.Events[0] != want {
					c.Violation("wrong-store:"+form, fmt.Sprintf("store at %s with n=%d: expected %s, got %s %q %v", ix.expr, n, want, o.Class, o.ErrText, o.Events), c11Prog(ct, body), nil)
				} else {
					c.Event("stores_ok", 1)
				}
			} else {
				if len(o.Events) != 0 {
					c.Violation("silent-noop:"+form, fmt.Sprintf("store through bad index %s did not panic: %v", ix.expr, o.Events), c11Prog(ct, body), nil)
				} else {
					expectPanic(o, kinds, "store at "+ix.expr, c11Prog(ct, body))
				}
			}
		}
	case "slice", "slice-copy":
		bounds := append([]c11Index{{"", math.NaN()}}, idx...)
		for ai, a := range bounds {
			for bi, b := range bounds {
				if form == "slice-copy" && (ct.kind == "string" || strings.Contains(ct.decl, "[][]num")) {
					continue
				}
				aMissing, bMissing := ai == 0, bi == 0
				expr := "s[" + a.expr + ":" + b.expr + "]"
				var body string
				if form == "slice" {
					body = "print " + expr + "\n"
				} else {
					// modify the slice, the original must not change
					wv := "77"
					if strings.Contains(ct.decl, "[]string") {
						wv = "\"W\""
					} else if strings.Contains(ct.decl, "[]any") {
						wv = "true"
					}
					body = "t := " + expr + "\nif (len t) > 0\n    t[0] = " + wv + "\nend\nprint s\n"
					if (ai+bi)%2 == 1 {
						// the sliced operand is the result of a call that returns the array itself
						tdecl := strings.TrimSuffix(strings.TrimPrefix(ct.decl, "s:"), "\n")
						body = "func same:" + tdecl + " p:" + tdecl + "\n    return p\nend\nt := (same s)[" + a.expr + ":" + b.expr + "]\nif (len t) > 0\n    t[0] = " + wv + "\nend\nprint s\n"
					}
				}
				c.Distinct(ct.lit + form + expr)
				o := run(body)
				okA, pa, kA := true, 0, []string(nil)
				okB, pb, kB := true, n, []string(nil)
				if !aMissing {
					okA, pa, kA = sliceBound(a.v, n)
				}
				if !bMissing {
					okB, pb, kB = sliceBound(b.v, n)
				}
				var kinds []string
				kinds = append(kinds, kA...)
				kinds = append(kinds, kB...)
				if okA && okB && pa > pb {
					kinds = append(kinds, "slice")
				}
				if len(kinds) == 0 {
					var want string
					if form == "slice" {
						want = "print " + strconv.Quote(fmtElems(ct, ct.elems[pa:pb])+"\n")
					} else {
						want = "print " + strconv.Quote(fmtElems(ct, ct.elems)+"\n")
					}
					if o.Class != "ok" || len(o.Events) != 1 || o.Events[0] != want {
						c.Violation("wrong-slice:"+form, fmt.Sprintf("%s with n=%d: expected %s, got %s %q %v", expr, n, want, o.Class, o.ErrText, o.Events), c11Prog(ct, body), nil)
					} else {
						c.Event("slices_ok", 1)
					}
				} else {
					if len(o.Events) != 0 {
						c.Violation("slice-no-panic:"+form, fmt.Sprintf("%s with n=%d should panic (%v) but produced %v", expr, n, kinds, o.Events), c11Prog(ct, body), nil)
					} else {
						expectPanic(o, kinds, expr, c11Prog(ct, body))
					}
				}
			}
		}
	}
}
