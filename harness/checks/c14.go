package checks

import (
	"errors"
	"fmt"
	"regexp"
	"strconv"
	"strings"
	"time"

	"evylang.dev/evy/pkg/evaluator"
	"evylang.dev/evy/pkg/parser"

	"verif/core"
	"verif/mon"
	"verif/plat"
)

// C14 — running programs stay interruptible and stop cleanly.

func init() {
	core.Register(&core.Check{
		ID:    "C14",
		Level: "fault_enumeration",
		Rule:  "generated programs made of segments 'marker print - loop nest or call chain without any built-in call - marker print' with known iteration and call counts, terminating and endless (while true, unbounded recursion, looping handlers, idle loops whose body is a comment or blank line, at top level and in functions), with read, sleep, passing and failing tests and graphics between segments; the uninterrupted run T is recorded with yield marks, then the program is re-run once per stop point k (every yield up to 300 per program in quick, up to 3000 in thorough, plus the last 50) with the stop flag raised inside yield #k, and once per effect with the flag raised from inside the platform call; oracles: density (yields between markers >= iterations + calls; never more than 64 evaluation steps without a yield on the hook; a case that burns 15 s of CPU time without reaching a yield or an evaluation step at all is ended by the worker and, confirmed alone, reported as `uninterruptible`) and stop (no yield after the stop, effects are T's prefix plus at most the step in flight, result 'stopped', only the test summary may follow). distinct = distinct (program, stop point) pairs",
		Assumptions: []string{
			"a loop inside a built-in that neither yields nor passes through eval (D14's native repetition loop) is not reachable by this monitor",
			"the stop flag is raised only from inside Yield or inside a platform call, as the browser does (single thread)",
		},
		NumCases: func(tier string) int {
			if tier == "thorough" {
				return 2400
			}
			return 128
		},
		StallCPU:  15 * time.Second,
		Run:       c14Run,
		MinEvents: []string{"programs", "stop_points", "yields_observed", "segments_density_checked"},
	})
}

type c14Seg struct {
	code  string
	count int // loop iterations + user function calls performed by the segment
}

func c14Segment(c *core.Ctx, id int, funcs *strings.Builder) c14Seg {
	r := c.Rng
	n := 1 + r.Intn(6)
	v := fmt.Sprintf("i%d", id)
	switch r.Intn(10) {
	case 9:
		c.Cover("segment", "call-in-argument")
		fmt.Fprintf(funcs, "func cnt%d:num m:num\n    t := 0\n    for j := range m\n        t = t + j\n    end\n    return t\nend\nfunc fib%d:num m:num\n    if m < 2\n        return m\n    end\n    return (fib%d m-1) + (fib%d m-2)\nend\n", id, id, id, id)
		fibCalls := []int{1, 1, 3, 5, 9, 15, 25, 41}[n] // calls made by fib n
		return c14Seg{fmt.Sprintf("acc = acc + (len [(cnt%d %d) (fib%d %d)])\ns = s + (sprint (cnt%d %d))\nacc = (max (fib%d %d) acc)\n", id, n, id, n, id, n, id, n), 2*n + 2 + 2*fibCalls}
	case 7:
		c.Cover("segment", "for-empty-body")
		body := []string{"    // idle\n", "\n", "    // a\n\n    // b\n"}[r.Intn(3)]
		if r.Intn(2) == 0 {
			return c14Seg{fmt.Sprintf("for range %d\n%send\n", n, body), n}
		}
		return c14Seg{fmt.Sprintf("for range %d\n    for range 2\n    %s    end\nend\nacc = acc + 1\n", n, body), n + 2*n}
	case 8:
		c.Cover("segment", "literal-conditions")
		return c14Seg{fmt.Sprintf("for range %d\n    while true\n        // once\n        break\n    end\n    if true\n        // nothing\n    end\nend\n", n), 2 * n}
	case 0:
		c.Cover("segment", "while")
		return c14Seg{fmt.Sprintf("%s := 0\nwhile %s < %d\n    %s = %s + 1\n    acc = acc + %s\nend\n", v, v, n, v, v, v), n}
	case 1:
		c.Cover("segment", "for-num")
		return c14Seg{fmt.Sprintf("for %s := range %d\n    acc = acc + %s\nend\n", v, n, v), n}
	case 2:
		m := 1 + r.Intn(4)
		c.Cover("segment", "nested-for")
		return c14Seg{fmt.Sprintf("for %s := range %d\n    for j%d := range %d\n        acc = acc + %s * j%d\n    end\nend\n", v, n, id, m, v, id), n + n*m}
	case 3:
		c.Cover("segment", "call-chain")
		d := 1 + r.Intn(5)
		for k := 0; k < d; k++ {
			if k == d-1 {
				fmt.Fprintf(funcs, "func f%d_%d:num x:num\n    return x + 1\nend\n", id, k)
			} else {
				fmt.Fprintf(funcs, "func f%d_%d:num x:num\n    return (f%d_%d x) + 1\nend\n", id, k, id, k+1)
			}
		}
		return c14Seg{fmt.Sprintf("acc = acc + (f%d_0 %d)\n", id, n), d}
	case 4:
		c.Cover("segment", "recursion")
		fmt.Fprintf(funcs, "func rec%d:num x:num\n    if x <= 0\n        return 0\n    end\n    return (rec%d x-1) + 1\nend\n", id, id)
		return c14Seg{fmt.Sprintf("acc = acc + (rec%d %d)\n", id, n), n + 1}
	case 5:
		c.Cover("segment", "for-array-string-map")
		return c14Seg{fmt.Sprintf("for e%d := range [1 2 3]\n    acc = acc + e%d\nend\nfor ch%d := range \"aé🌍\"\n    s = s + ch%d\nend\nfor k%d := range {a:1 b:2}\n    s = s + k%d\nend\n", id, id, id, id, id, id), 3 + 3 + 2}
	default:
		c.Cover("segment", "loop-calling-function")
		fmt.Fprintf(funcs, "func g%d:num x:num\n    return x * 2\nend\n", id)
		return c14Seg{fmt.Sprintf("for %s := range %d\n    acc = acc + (g%d %s)\nend\n", v, n, id, v), 2 * n}
	}
}

type c14Prog struct {
	src    string
	segs   []c14Seg
	events []evaluator.Event
	kind   string
}

func c14Program(c *core.Ctx) c14Prog {
	r := c.Rng
	var funcs, body strings.Builder
	p := c14Prog{kind: "terminating"}
	body.WriteString("acc := 0\ns := \"\"\n")
	nseg := 1 + r.Intn(4)
	for k := 0; k < nseg; k++ {
		seg := c14Segment(c, k, &funcs)
		p.segs = append(p.segs, seg)
		fmt.Fprintf(&body, "print \"M%d\"\n%sprint \"M%d\"\n", 2*k, seg.code, 2*k+1)
		switch r.Intn(8) {
		case 5:
			body.WriteString("test 1 2\ntest false\n")
		case 6:
			funcs.WriteString(fmt.Sprintf("func tsum%d:num n:num\n    t := 0\n    for i := range n\n        t = t + i\n    end\n    return t\nend\n", k))
			body.WriteString(fmt.Sprintf("test (tsum%d 4) 6\ntest 3 (tsum%d 3)\ntest (tsum%d 2) (tsum%d 2) \"msg\"\n", k, k, k, k))
		case 0:
			body.WriteString("s = s + (read)\n")
		case 1:
			body.WriteString("sleep 0.001\n")
		case 2:
			body.WriteString("test true\ntest 1 1\n")
		case 3:
			body.WriteString("move 10 20\ncircle 3\n")
		case 4:
			body.WriteString("cls\n")
		}
	}
	body.WriteString("print \"end\" acc s\n")
	switch r.Intn(9) {
	case 4:
		p.kind = "idle-while"
		body.WriteString("while true\n" + []string{"    // wait for events\n", "\n", "    // a\n\n"}[r.Intn(3)] + "end\n")
	case 5:
		p.kind = "idle-for"
		body.WriteString("for range 300000\n    // busy wait\nend\n")
	case 6:
		p.kind = "idle-in-function"
		funcs.WriteString("func idle\n    while true\n        // wait\n    end\nend\n")
		body.WriteString("if acc >= 0\n    idle\nend\n")
	case 0:
		p.kind = "endless-while"
		body.WriteString("while true\n    acc = acc + 1\nend\n")
	case 1:
		p.kind = "endless-recursion"
		funcs.WriteString("func forever n:num\n    forever n+1\nend\n")
		body.WriteString("forever 0\n")
	case 2:
		p.kind = "endless-while-with-calls"
		funcs.WriteString("func twice:num n:num\n    return n * 2\nend\n")
		body.WriteString("while true\n    acc = (twice acc) % 1000\n    print \"tick\" acc\nend\n")
	case 3:
		p.kind = "looping-handler"
		body.WriteString("on key k:string\n    print \"key\" k\n    for i := range 5\n        acc = acc + i\n    end\n    print \"key done\" acc\nend\non animate t:num\n    print \"anim\" t\n    while true\n        acc = acc + 1\n    end\nend\n")
		p.events = []evaluator.Event{{Name: "key", Params: []any{"a"}}, {Name: "key", Params: []any{"b"}}, {Name: "animate", Params: []any{1.0}}}
	case 7:
		// handlers that finish: the program ends by itself, so it can also run on a platform without yielder
		p.kind = "finite-handlers"
		funcs.WriteString("func bump:num n:num\n    return n + 1\nend\n")
		body.WriteString("on key k:string\n    print \"key\" k\n    for i := range 3\n        acc = (bump acc) + i\n    end\n    sleep 0.001\n    s = s + (read)\n    print \"key done\" acc s\nend\non down x:num y:num\n    print \"down\" x y\n    while acc % 5 != 0\n        acc = bump acc\n    end\n    print \"down done\" acc\nend\n")
		p.events = []evaluator.Event{{Name: "key", Params: []any{"a"}}, {Name: "down", Params: []any{1.0, 2.0}}, {Name: "key", Params: []any{"b"}}, {Name: "up", Params: []any{1.0, 2.0}}, {Name: "key", Params: []any{"c"}}}
	}
	p.src = funcs.String() + body.String()
	return p
}

var summaryNumRe = regexp.MustCompile(`\d+`)

func isSummary(e string) bool {
	return strings.HasPrefix(e, "print \"✅") || strings.HasPrefix(e, "print \"❌")
}

func c14Run(c *core.Ctx, i int) {
	p := c14Program(c)
	c.Event("programs", 1)
	c.Cover("kind", p.kind)
	c.Journal(p.src)
	inputs := []string{"in1", "in2", "in3", "in4"}
	budget := 1200
	if c.Tier == "thorough" {
		budget = 4000
	}
	conf := mon.NewConformance()
	var rec *plat.Rec
	starved := false
	T := plat.Run(p.src, plat.Opts{Inputs: inputs, Events: p.events, YieldBudget: budget, MarkYields: true,
		Attach: func(ev *evaluator.Evaluator) {
			conf.Attach(ev)
			// logical-time guard: a run that evaluates 20000 steps without reaching a yield cannot be
			// interrupted by the platform; end it here (the stop flag is checked by the next step)
			conf.StarveLimit = 20000
			conf.OnStarve = func() { starved = true; ev.Stopped = true }
			conf.OnStep = c.Progress
		},
		OnYield: func(int) { conf.Yielded(); c.Progress() }})
	rec = T.Rec
	if starved {
		c.Violation("density-starved", fmt.Sprintf("20000 evaluation steps without a single yield (%s): the platform cannot interrupt this program", p.kind), p.src, nil)
		return
	}
	if T.Class == "parse-error" || T.Class == "gopanic" {
		c.Violation("harness-program-failed", T.Class+": "+firstN(T.ErrText+T.GoPanic, 300), p.src, nil)
		return
	}
	c.Event("yields_observed", T.Yields)
	c.Event("eval_steps_observed", int(conf.Steps))
	// density (ii): evaluation steps without a yield
	if conf.MaxSinceYield > 64 {
		c.Violation("density-steps", fmt.Sprintf("%d evaluation steps without a yield", conf.MaxSinceYield), p.src, nil)
	}
	c.Cover("max-steps-between-yields", fmt.Sprint(conf.MaxSinceYield))
	// density (i): yields between the markers of every segment
	markerAt := map[string]int{}
	for idx, e := range T.Events {
		if strings.HasPrefix(e, "print \"M") {
			markerAt[strings.TrimSuffix(strings.TrimPrefix(e, "print \""), "\\n\"")] = idx
		}
	}
	for k, seg := range p.segs {
		a, okA := markerAt[fmt.Sprintf("M%d", 2*k)]
		b, okB := markerAt[fmt.Sprintf("M%d", 2*k+1)]
		if !okA || !okB {
			continue // the budget ended the run before this segment
		}
		yields := 0
		for _, m := range rec.YieldMarks {
			if m > a && m <= b {
				yields++
			}
		}
		c.Event("segments_density_checked", 1)
		if yields < seg.count {
			c.Violation("density-segment", fmt.Sprintf("segment %d performs %d loop iterations and calls but only %d yields happened between its markers", k, seg.count, yields), p.src, nil)
		}
	}
	if p.kind != "terminating" && p.kind != "looping-handler" && p.kind != "finite-handlers" && !rec.BudgetHit {
		c.Violation("endless-program-ended", "an endless program ended by itself: "+T.Class+" "+T.ErrText, p.src, nil)
	}
	hasTests := strings.Contains(p.src, "test ")
	// stop points
	maxPts := 300
	if c.Tier == "thorough" {
		maxPts = 3000
	}
	n := T.Yields
	if rec.BudgetHit {
		n = T.Yields - 1 // the last yield is the harness's own stop
	}
	var pts []int
	for k := 1; k <= n && k <= maxPts; k++ {
		pts = append(pts, k)
	}
	for k := n - 50; k <= n; k++ {
		if k > maxPts {
			pts = append(pts, k)
		}
	}
	for _, k := range pts {
		c.Event("stop_points", 1)
		c.Distinct(fmt.Sprintf("%s|y%d", p.src, k))
		testsDone := 0
		opts := plat.Opts{Inputs: inputs, Events: p.events, StopAtYield: k, YieldBudget: budget + 10, OnYield: func(int) { c.Progress() }}
		if hasTests {
			// count the test calls that really completed in this interrupted run (hook), to judge the summary
			opts.Attach = func(ev *evaluator.Evaluator) {
				ev.VerifObserve(&evaluator.VerifObserver{Exit: func(node parser.Node, _ evaluator.VerifValue, err error) {
					name := ""
					switch n := node.(type) {
					case *parser.FuncCall:
						name = n.Name
					case *parser.FuncCallStmt: // a call statement evaluates its call without a step of its own
						name = n.FuncCall.Name
					}
					if name == "test" && (err == nil || errors.Is(err, evaluator.ErrTest)) {
						testsDone++
					}
				}})
			}
		}
		o := plat.Run(p.src, opts)
		if hasTests && len(o.Events) > 0 && isSummary(o.Events[len(o.Events)-1]) {
			c.Event("summaries_checked", 1)
			total := 0
			for _, m := range summaryNumRe.FindAllString(o.Events[len(o.Events)-1], -1) {
				v, _ := strconv.Atoi(m)
				total += v
			}
			if total != testsDone {
				c.Violation("stop-at-yield:summary", fmt.Sprintf("stop raised inside yield %d: the test summary %s counts %d tests, %d test calls had completed", k, o.Events[len(o.Events)-1], total, testsDone), p.src, map[string]any{"stop_at_yield": k})
				break
			}
		}
		if why := c14Judge(T, o, k, rec.YieldMarks, n); why != "" {
			c.Violation("stop-at-yield:"+strings.SplitN(why, ":", 2)[0], fmt.Sprintf("stop raised inside yield %d of %d: %s", k, T.Yields, why), p.src, map[string]any{"stop_at_yield": k})
			break
		}
	}
	// stop raised from inside a platform call
	nEff := len(T.Events)
	if nEff > 60 {
		nEff = 60
	}
	for k := 1; k <= nEff; k++ {
		if isSummary(T.Events[k-1]) {
			continue
		}
		c.Event("stop_points", 1)
		c.Event("stop_in_effect_points", 1)
		c.Distinct(fmt.Sprintf("%s|e%d", p.src, k))
		o := plat.Run(p.src, plat.Opts{Inputs: inputs, Events: p.events, StopAtEffect: k, YieldBudget: budget + 10, OnYield: func(int) { c.Progress() }})
		ev := o.Events
		if len(ev) > 0 && isSummary(ev[len(ev)-1]) {
			ev = ev[:len(ev)-1]
		}
		switch {
		case o.Rec.YieldsAfterStop > 0:
			c.Violation("stop-in-effect:yield-after-stop", fmt.Sprintf("stop raised inside effect %d: %d further yields", k, o.Rec.YieldsAfterStop), p.src, map[string]any{"stop_at_effect": k})
		case len(ev) != k || strings.Join(ev, "\n") != strings.Join(T.Events[:k], "\n"):
			c.Violation("stop-in-effect:effects", fmt.Sprintf("stop raised inside effect %d: effects are not exactly the first %d effects of the uninterrupted run: %v", k, k, firstN(fmt.Sprint(ev), 300)), p.src, map[string]any{"stop_at_effect": k})
		case o.Class != "stopped" && !(k == len(T.Events) && o.Class == T.Class):
			// after the last effect of a finite run nothing may be left to evaluate
			moreEval := rec.YieldMarks[len(rec.YieldMarks)-1] >= k
			if moreEval {
				c.Violation("stop-in-effect:result", fmt.Sprintf("stop raised inside effect %d: result %s, expected stopped", k, o.Class), p.src, map[string]any{"stop_at_effect": k})
			}
		default:
			continue
		}
		break
	}
	// a platform without yielder (the CLI platform): the flag is raised inside a platform call or between
	// Eval and HandleEvent, and must be honoured all the same. Only for programs that end by themselves.
	if !rec.BudgetHit {
		N := plat.Run(p.src, plat.Opts{Inputs: inputs, Events: p.events, NoYielder: true})
		c.Event("no_yielder_runs", 1)
		if N.Class != T.Class || strings.Join(N.Events, "\n") != strings.Join(T.Events, "\n") {
			c.Violation("no-yielder:differs", fmt.Sprintf("without a yielder the program behaves differently: %s vs %s; %s", N.Class, T.Class, firstDiff(strings.Join(T.Events, "\n"), strings.Join(N.Events, "\n"))), p.src, nil)
		} else {
			lim := len(T.Events)
			if lim > 40 {
				lim = 40
			}
			for k := 1; k <= lim; k++ {
				if isSummary(T.Events[k-1]) {
					continue
				}
				c.Event("stop_points", 1)
				c.Event("stop_without_yielder_points", 1)
				o := plat.Run(p.src, plat.Opts{Inputs: inputs, Events: p.events, NoYielder: true, StopAtEffect: k, MaxEvents: len(T.Events) + 5})
				ev := o.Events
				if len(ev) > 0 && isSummary(ev[len(ev)-1]) {
					ev = ev[:len(ev)-1]
				}
				if len(ev) != k || strings.Join(ev, "\n") != strings.Join(T.Events[:k], "\n") {
					c.Violation("stop-in-effect:no-yielder", fmt.Sprintf("platform without yielder, stop raised inside effect %d: %d effects happened, result %s", k, len(ev), o.Class), p.src, map[string]any{"stop_at_effect": k})
					break
				}
			}
			for j := 1; j <= len(T.Rec.EventMarks) && j <= 6; j++ {
				c.Event("stop_points", 1)
				c.Event("stop_before_event_points", 1)
				o := plat.Run(p.src, plat.Opts{Inputs: inputs, Events: p.events, NoYielder: j%2 == 0, StopBeforeEvent: j, MaxEvents: len(T.Events) + 5})
				want := T.Events[:T.Rec.EventMarks[j-1]]
				if o.Class != "stopped" || strings.Join(o.Events, "\n") != strings.Join(want, "\n") {
					c.Violation("stop-before-event", fmt.Sprintf("stop raised before event %d is delivered: result %s, %d effects (expected stopped and the %d effects before the event)", j, o.Class, len(o.Events), len(want)), p.src, map[string]any{"stop_before_event": j})
					break
				}
			}
		}
	}
	if i < 2 {
		c.Sample(map[string]any{"kind": p.kind, "program": firstN(p.src, 500), "yields": T.Yields, "effects": len(T.Events), "stop_points": len(pts)})
	}
}

// c14Judge checks one interrupted run o (flag raised in yield k) against the uninterrupted T.
func c14Judge(T, o *plat.Outcome, k int, marks []int, n int) string {
	if o.Rec.YieldsAfterStop > 0 {
		return fmt.Sprintf("yield-after-stop: %d yields after the stop flag was raised", o.Rec.YieldsAfterStop)
	}
	if o.Yields != k {
		return fmt.Sprintf("yield-count: interrupted run saw %d yields", o.Yields)
	}
	before := marks[k-1] // effects before yield k
	limit := len(T.Events)
	if k < len(marks) {
		limit = marks[k] // effects before yield k+1: the step in flight may still perform these
	}
	ev := o.Events
	if len(ev) > 0 && isSummary(ev[len(ev)-1]) && !(len(ev) <= limit && ev[len(ev)-1] == T.Events[len(ev)-1]) {
		ev = ev[:len(ev)-1]
	}
	if len(ev) < before {
		return fmt.Sprintf("prefix: only %d effects, the uninterrupted run had %d before that yield", len(ev), before)
	}
	if len(ev) > limit {
		return fmt.Sprintf("overshoot: %d effects, at most %d allowed (step in flight): extra %s", len(ev), limit, firstN(fmt.Sprint(ev[limit:]), 200))
	}
	for j := range ev {
		if ev[j] != T.Events[j] {
			return fmt.Sprintf("prefix: effect %d is %s, the uninterrupted run has %s", j, firstN(ev[j], 100), firstN(T.Events[j], 100))
		}
	}
	if k < len(marks) || T.Rec.BudgetHit {
		// more evaluation would have followed
		if o.Class != "stopped" {
			return fmt.Sprintf("result: run ended with %s %s instead of 'stopped'", o.Class, o.ErrText)
		}
	} else if o.Class != "stopped" && o.Class != T.Class {
		return fmt.Sprintf("result: %s, expected stopped or %s", o.Class, T.Class)
	}
	return ""
}
