package checks

import (
	"fmt"
	"math"
	"os"
	"path/filepath"
	"strconv"
	"strings"

	"verif/core"
	"verif/corpus"
	"verif/gen"
	"verif/mon"
	"verif/plat"
	"verif/ref"
)

// C13 — built-in functions do what their documentation says.

type c13Arg struct {
	e     gen.Expr
	class string
}

func c13Nums() []c13Arg {
	z := vr("zero", tNum)
	return []c13Arg{
		{nl(0), "0"}, {nl(1), "1"}, {nl(-1), "-1"}, {nl(0.5), "0.5"}, {nl(-2.5), "-2.5"}, {nl(3), "3"}, {nl(1.5), "1.5"}, {nl(10), "10"}, {nl(2.5), "2.5"},
		{nl(2147483647), "2^31-1"}, {nl(2147483648), "2^31"}, {nl(1000000000000000), "1e15"}, {nl(9007199254740993), "2^53+1"},
		{gen.Binary{Op: "/", L: nl(0), R: z, T: tNum}, "NaN"}, {gen.Binary{Op: "/", L: nl(1), R: z, T: tNum}, "+Inf"}, {gen.Binary{Op: "/", L: nl(-1), R: z, T: tNum}, "-Inf"},
		{gen.Binary{Op: "*", L: z, R: nl(-1), T: tNum}, "-0"}, {call("pow", tNum, nl(10), nl(300)), "1e300"}, {nl(0.000000001), "1e-9"}, {nl(360), "360"}, {nl(100), "100"},
		{nl(-0.5), "-0.5"}, {nl(-0.4), "-0.4"}, {nl(0.49999999999999994), "0.5-ulp"}, {nl(4503599627370497), "2^52+1"}, {nl(-1.5), "-1.5"}, {nl(-3.5), "-3.5"}, {nl(0.1), "0.1"},
	}
}

func c13Strs() []c13Arg {
	var out []c13Arg
	for _, s := range []string{"", "a", "abc", "é", "aé🌍b", " x ", "A1b", "a,b,,c", "%v", "abcabc", "\"q\"", "é", "c", "bc", ",", "🌍", "ab", "ABC é Ü", "x\ty\n", "b"} {
		out = append(out, c13Arg{sl(s), strconv.Quote(s)})
	}
	return out
}

var c13Str2num = []string{"1", "0", "-5", "+5", "3.25", ".5", "5.", "1e3", "1E-2", "1e999", "-1e999", "0x10", "1_000", "inf", "Inf", "NaN", "nan", "", " 1", "1 ", "1,5", "abc", "1a", "--1", "٣", "1e", "0b1", "0o7", "Infinity", "+.5e1"}
var c13Str2bool = []string{"true", "True", "TRUE", "1", "false", "False", "FALSE", "0", "t", "T", "f", "F", "yes", "", " true", "tRuE", "2", "truee"}

type c13Case struct {
	stmts []gen.Stmt
	what  string
}

// c13Calls enumerates the call grid: one small program per call.
func c13Calls() []c13Case {
	var out []c13Case
	show := func(e gen.Expr) []gen.Stmt {
		return []gen.Stmt{gen.Decl{Name: "r", T: e.Ty(), Init: e}, printCall(call("repr", tStr, toAny(vr("r", e.Ty()))), vr("err", tBool), call("repr", tStr, toAny(vr("errmsg", tStr))))}
	}
	add := func(what string, e gen.Expr) { out = append(out, c13Case{show(e), what}) }
	var stmtLater []c13Case
	nums, strs := c13Nums(), c13Strs()
	for _, f := range []string{"abs", "floor", "ceil", "round", "log", "sqrt", "sin", "cos"} {
		for _, a := range nums {
			add(f+"("+a.class+")", call(f, tNum, a.e))
		}
	}
	for _, f := range []string{"min", "max", "pow", "atan2"} {
		for _, a := range nums {
			for _, b := range nums {
				add(f+"("+a.class+","+b.class+")", call(f, tNum, a.e, b.e))
			}
		}
	}
	for _, f := range []string{"upper", "lower"} {
		for _, a := range strs {
			add(f+"("+a.class+")", call(f, tStr, a.e))
		}
	}
	for _, f := range []string{"index", "startswith", "endswith", "trim", "split"} {
		t := map[string]*gen.Type{"index": tNum, "startswith": tBool, "endswith": tBool, "trim": tStr, "split": tArrS}[f]
		for _, a := range strs {
			for _, b := range strs {
				add(f+"("+a.class+","+b.class+")", call(f, t, a.e, b.e))
			}
		}
	}
	for i, a := range strs {
		for j, b := range strs {
			c := strs[(i+j)%len(strs)]
			add("replace("+a.class+","+b.class+","+c.class+")", call("replace", tStr, a.e, b.e, c.e))
		}
	}
	for _, s := range c13Str2num {
		add("str2num("+strconv.Quote(s)+")", call("str2num", tNum, sl(s)))
	}
	for _, s := range c13Str2bool {
		add("str2bool("+strconv.Quote(s)+")", call("str2bool", tBool, sl(s)))
	}
	// values of every shape for sprint / repr / typeof / len / join
	vals := []c13Arg{
		{nl(1), "num"}, {nl(-2.5), "negfrac"}, {sl("a b"), "string"}, {sl(""), "empty-string"}, {gen.BoolLit{V: true}, "bool"},
		{arrLit(tArrN, nl(1), nl(2)), "[]num"}, {arrLit(tArrS, sl("x"), sl("y z")), "[]string"}, {arrLit(tArrAN, arrLit(tArrN, nl(1)), arrLit(tArrN)), "[][]num"},
		{gen.MapLit{T: tMapN, Keys: []string{"a", "end"}, Vals: []gen.Expr{nl(1), nl(2)}}, "{}num"},
		{arrLit(tArrS, sl(""), sl("a")), "[]string-leading-empty"}, {arrLit(tArrS, sl("a"), sl("")), "[]string-trailing-empty"}, {arrLit(tArrS, sl(""), sl(""), sl("")), "[]string-all-empty"},
		{arrLit(tArrS, sl("a"), sl("b ")), "[]string-trailing-blank"}, {arrLit(tArrS, sl(" a"), sl(" ")), "[]string-blanks"}, {gen.MapLit{T: gen.MapOf(tStr), Keys: []string{"a", "b"}, Vals: []gen.Expr{sl("x "), sl("")}}, "{}string-blank-values"},
		{arrLit(gen.ArrOf(tArrS), arrLit(tArrS, sl("x"), sl("")), arrLit(tArrS, sl(""))), "[][]string-empty-last"}, {gen.Binary{Op: "*", L: arrLit(tArrS, sl("")), R: nl(3), T: tArrS}, "[]string-repeated-empty"},
		{vr("mk", tMapN), "{}num-odd-keys"}, {vr("ea", tArrA), "[]any-mixed"}, {vr("em", gen.MapOf(tAny)), "{}any-empty"}, {vr("xs", tAny), "any-string"}, {vr("xa", tAny), "any-array"},
	}
	for _, v := range vals {
		add("sprint("+v.class+")", call("sprint", tStr, toAny(v.e), toAny(nl(7))))
		add("repr("+v.class+")", call("repr", tStr, toAny(v.e)))
		add("typeof("+v.class+")", call("typeof", tStr, toAny(v.e)))
		add("len("+v.class+")", call("len", tNum, toAny(v.e)))
	}
	for _, sep := range []string{"", ", ", "é"} {
		add("join(any,"+strconv.Quote(sep)+")", call("join", tStr, vr("ea", tArrA), sl(sep)))
		add("join([]num,"+strconv.Quote(sep)+")", call("join", tStr, arrLit(tArrN, nl(1), nl(2.5)), sl(sep)))
		add("join(empty,"+strconv.Quote(sep)+")", call("join", tStr, gen.Slice{X: arrLit(tArrS, sl("x")), Lo: nl(1)}, sl(sep)))
		add("join(nested,"+strconv.Quote(sep)+")", call("join", tStr, arrLit(tArrAN, arrLit(tArrN, nl(1)), arrLit(tArrN, nl(2), nl(3))), sl(sep)))
	}
	for _, k := range []string{"a", "zz", "1a", ""} {
		add("has("+k+")", call("has", tBool, vr("mk", tMapN), sl(k)))
	}
	// sprintf: documented verbs x flags x widths x precisions x argument types
	fmtArgs := []c13Arg{{nl(1.2345), "num"}, {nl(-3), "negint"}, {sl("abcd"), "string"}, {gen.BoolLit{V: true}, "bool"}, {arrLit(tArrN, nl(1), nl(2)), "array"}, {nl(1000000), "million"}}
	for _, verb := range []string{"v", "s", "q", "t", "f", "e"} {
		for _, flag := range []string{"", "-", "0"} {
			for _, wp := range []string{"", "7", ".2", "7.2", "7."} {
				for _, a := range fmtArgs {
					f := "|%" + flag + wp + verb + "|"
					add("sprintf("+f+","+a.class+")", call("sprintf", tStr, toAny(sl(f)), toAny(a.e)))
				}
			}
		}
	}
	for _, f := range []string{"100%%", "%v and %v", "no verbs", "%v", "%v %v", "%d", "%x", "%5%", "%", "a%vb%qc", "%%%v%%"} {
		add("sprintf("+f+",2 args)", call("sprintf", tStr, toAny(sl(f)), toAny(nl(1)), toAny(sl("two"))))
		add("sprintf("+f+",0 args)", call("sprintf", tStr, toAny(sl(f))))
	}
	// %% consumes no argument, wherever it stands
	for k, fa := range []struct {
		f    string
		args []gen.Expr
	}{
		{"%% %s %v", []gen.Expr{sl("a"), nl(1)}}, {"%v%% done, %s left, %f", []gen.Expr{nl(1), sl("x"), nl(2)}}, {"100%% %s", []gen.Expr{nl(5)}}, {"%%%q%%%t%%", []gen.Expr{sl("q"), gen.BoolLit{V: true}}},
		{"%%%%%s", []gen.Expr{sl("z")}}, {"%5.1f%%|%-4s|%%", []gen.Expr{nl(2.25), sl("ab")}}, {"%% %t", []gen.Expr{sl("not a bool")}}, {"%s %% %f", []gen.Expr{sl("s"), sl("not a num")}},
	} {
		args := []gen.Expr{toAny(sl(fa.f))}
		for _, a := range fa.args {
			args = append(args, toAny(a))
		}
		add(fmt.Sprintf("sprintf-percent-%d(%s)", k, fa.f), call("sprintf", tStr, args...))
		stmtLater = append(stmtLater, c13Case{[]gen.Stmt{gen.CallStmt{C: call("printf", gen.TNone, args...)}, printCall(sl("|after"))}, fmt.Sprintf("printf-percent-%d(%s)", k, fa.f)},
			c13Case{[]gen.Stmt{gen.CallStmt{C: call("test", gen.TNone, append([]gen.Expr{toAny(nl(1)), toAny(nl(2))}, args...)...)}}, fmt.Sprintf("test-percent-%d(%s)", k, fa.f)})
	}
	// procedures and program control
	stmt := func(what string, ss ...gen.Stmt) {
		ss = append(ss, printCall(sl("after"), vr("err", tBool)))
		out = append(out, c13Case{ss, what})
	}
	for _, a := range nums {
		stmt("exit("+a.class+")", printCall(sl("before")), gen.CallStmt{C: call("exit", gen.TNone, a.e)})
		stmt("sleep("+a.class+")", gen.CallStmt{C: call("sleep", gen.TNone, a.e)})
		stmt("rand("+a.class+")", gen.Decl{Name: "r", T: tNum, Init: call("rand", tNum, a.e)}, printCall(sl("rand"), vr("r", tNum)))
	}
	for _, a := range strs {
		stmt("panic("+a.class+")", printCall(sl("before")), gen.CallStmt{C: call("panic", gen.TNone, a.e)})
	}
	stmt("printf", gen.CallStmt{C: call("printf", gen.TNone, toAny(sl("%v|%5.1f|%q|%%\n")), toAny(nl(3)), toAny(nl(2.25)), toAny(sl("s")))})
	stmt("printf-nonstring-format", gen.CallStmt{C: call("printf", gen.TNone, toAny(nl(3)))})
	stmt("read-cls", gen.Decl{Name: "l", T: tStr, Init: call("read", tStr)}, printCall(call("repr", tStr, toAny(vr("l", tStr)))), gen.CallStmt{C: call("cls", gen.TNone)}, gen.Decl{Name: "l2", T: tStr, Init: call("read", tStr)}, printCall(vr("l2", tStr)))
	for _, k := range []string{"a", "zz", "1a"} {
		stmt("del("+k+")", gen.CallStmt{C: call("del", gen.TNone, vr("mk", tMapN), sl(k))}, printCall(vr("mk", tMapN), call("len", tNum, toAny(vr("mk", tMapN)))))
	}
	// test: 1, 2, 3, 4+ arguments, passing and failing, composite want/got
	tc := func(what string, args ...gen.Expr) {
		var a []gen.Expr
		for _, x := range args {
			a = append(a, toAny(x))
		}
		stmt("test "+what, printCall(sl("before")), gen.CallStmt{C: call("test", gen.TNone, a...)}, gen.CallStmt{C: call("test", gen.TNone, toAny(gen.BoolLit{V: true}))})
	}
	tc("true", gen.BoolLit{V: true})
	tc("false", gen.BoolLit{V: false})
	tc("1-num", nl(1))
	tc("eq", nl(1), nl(1))
	tc("ne", nl(1), nl(2))
	tc("ne-types", nl(1), sl("1"))
	tc("msg", nl(1), nl(2), sl("message"))
	tc("msg-fmt", nl(1), nl(2), sl("got %v of %q"), nl(2), sl("x"))
	tc("msg-nonstring", nl(1), nl(2), nl(3))
	for k, m := range []string{"100% sure", "%d", "rate %v of %q %", "%", "%%", "%s%s", "a\nb", ""} {
		tc(fmt.Sprintf("msg-literal-%d", k), nl(1), nl(2), sl(m))
		tc(fmt.Sprintf("msg-literal-pass-%d", k), nl(2), nl(2), sl(m))
	}
	tc("msg-fmt-percent", sl("a"), sl("b"), sl("100%% of %v"), nl(2))
	stmt("test msg-two-failures", gen.CallStmt{C: call("test", gen.TNone, toAny(nl(1)), toAny(nl(2)), toAny(sl("first 50%")))}, gen.CallStmt{C: call("test", gen.TNone, toAny(gen.BoolLit{V: false}))},
		gen.CallStmt{C: call("test", gen.TNone, toAny(sl("x")), toAny(sl("y")), toAny(sl("third %v")), toAny(arrLit(tArrN, nl(1))))})
	tc("arrays-eq", arrLit(tArrN, nl(1), nl(2)), arrLit(tArrN, nl(1), nl(2)))
	tc("arrays-ne", arrLit(tArrN, nl(1), nl(2)), arrLit(tArrN, nl(2), nl(1)))
	tc("want-specific-got-any", arrLit(tArrAN, arrLit(tArrN, nl(1))), vr("ean", tArrA))
	tc("maps-order", gen.MapLit{T: tMapN, Keys: []string{"a", "b"}, Vals: []gen.Expr{nl(1), nl(2)}}, gen.MapLit{T: tMapN, Keys: []string{"b", "a"}, Vals: []gen.Expr{nl(2), nl(1)}})
	tc("empty-arrays", gen.Slice{X: arrLit(tArrN, nl(1)), Lo: nl(1)}, gen.Slice{X: arrLit(tArrS, sl("x")), Lo: nl(1)})
	// err / errmsg protocol sequences
	seqs := [][]string{{"M", "1"}, {"x", "F", "1"}, {"E", "F", "B:true"}, {"M", "B:false"}, {"x", "F", "y"}, {"M", "x", "F", "1", "M"}, {"x", "1"}, {"1", "x"}, {"x", "y", "2"}, {"1", "2"}, {"x", "B:true"}, {"B:nope", "1"}, {"B:t", "x", "B:false"}, {"E", "1"}, {"x", "E", "x"}}
	for _, sq := range seqs {
		var ss []gen.Stmt
		for k, s := range sq {
			name := fmt.Sprintf("c%d", k)
			switch {
			case s == "M": // message without error flag
				ss = append(ss, gen.Assign{Target: vr("errmsg", tStr), Val: sl("stale")})
			case s == "F": // the caller clears the flag only (documented convention: the flag is what is tested)
				ss = append(ss, gen.Assign{Target: vr("err", tBool), Val: gen.BoolLit{V: false}})
			case s == "E":
				ss = append(ss, gen.Assign{Target: vr("err", tBool), Val: gen.BoolLit{V: true}}, gen.Assign{Target: vr("errmsg", tStr), Val: sl("mine")})
			case strings.HasPrefix(s, "B:"):
				ss = append(ss, gen.Decl{Name: name, T: tBool, Init: call("str2bool", tBool, sl(s[2:]))}, printCall(vr(name, tBool)))
			default:
				ss = append(ss, gen.Decl{Name: name, T: tNum, Init: call("str2num", tNum, sl(s))}, printCall(vr(name, tNum)))
			}
			ss = append(ss, printCall(sl("state"), vr("err", tBool), call("repr", tStr, toAny(vr("errmsg", tStr)))))
			// the message read piecewise (length, slice, first and last character, character loop) is the same text
			ss = append(ss, printCall(sl("pieces"), call("len", tNum, toAny(vr("errmsg", tStr))), call("repr", tStr, toAny(gen.Slice{X: vr("errmsg", tStr)})), call("repr", tStr, toAny(gen.Slice{X: vr("errmsg", tStr), Lo: nl(0), Hi: call("len", tNum, toAny(vr("errmsg", tStr)))}))))
			ss = append(ss, gen.If{Conds: []gen.Expr{gen.Binary{Op: ">", L: call("len", tNum, toAny(vr("errmsg", tStr))), R: nl(0), T: tBool}}, Blocks: [][]gen.Stmt{{
				printCall(sl("ends"), gen.Index{X: vr("errmsg", tStr), I: nl(0), T: tStr}, gen.Index{X: vr("errmsg", tStr), I: nl(-1), T: tStr}),
			}}})
			acc := fmt.Sprintf("acc%d", k)
			ss = append(ss, gen.Decl{Name: acc, T: tStr, Init: sl("")},
				gen.For{Var: fmt.Sprintf("ch%d", k), VarT: tStr, Over: vr("errmsg", tStr), Body: []gen.Stmt{gen.Assign{Target: vr(acc, tStr), Val: gen.Binary{Op: "+", L: vr(acc, tStr), R: vr(fmt.Sprintf("ch%d", k), tStr), T: tStr}}}},
				printCall(sl("loop"), gen.Binary{Op: "==", L: vr(acc, tStr), R: vr("errmsg", tStr), T: tBool}, call("repr", tStr, toAny(vr(acc, tStr)))))
		}
		out = append(out, c13Case{ss, "err-protocol " + strings.Join(sq, ",")})
	}
	out = append(out, stmtLater...)
	return out
}

func c13Prelude() []gen.Stmt {
	tMapA := gen.MapOf(tAny)
	return []gen.Stmt{
		gen.Decl{Name: "zero", T: tNum, Init: nl(0)},
		gen.Decl{Name: "mk", T: tMapN, Init: gen.MapLit{T: tMapN, Keys: []string{"a", "if"}, Vals: []gen.Expr{nl(1), nl(2)}}},
		gen.Assign{Target: gen.Index{X: vr("mk", tMapN), I: sl("1a"), T: tNum}, Val: nl(3)},
		gen.Assign{Target: gen.Index{X: vr("mk", tMapN), I: sl(" x"), T: tNum}, Val: nl(4)},
		gen.Assign{Target: gen.Index{X: vr("mk", tMapN), I: sl(""), T: tNum}, Val: nl(5)},
		gen.Assign{Target: gen.Index{X: vr("mk", tMapN), I: sl("é_1"), T: tNum}, Val: nl(6)},
		gen.Decl{Name: "ea", T: tArrA, Typed: true},
		gen.Assign{Target: vr("ea", tArrA), Val: arrLit(tArrA, toAny(sl("a")), toAny(nl(1)), toAny(nl(3.5)), toAny(gen.BoolLit{V: true}), toAny(arrLit(tArrN, nl(1))))},
		gen.Decl{Name: "ean", T: tArrA, Typed: true},
		gen.Assign{Target: vr("ean", tArrA), Val: arrLit(tArrA, toAny(arrLit(tArrN, nl(1))))},
		gen.Decl{Name: "em", T: tMapA, Typed: true},
		gen.Decl{Name: "xs", T: tAny, Typed: true}, gen.Assign{Target: vr("xs", tAny), Val: toAny(sl("héllo"))},
		gen.Decl{Name: "xa", T: tAny, Typed: true}, gen.Assign{Target: vr("xa", tAny), Val: toAny(arrLit(tArrS, sl("p"), sl("q")))},
		printCall(vr("zero", tNum), vr("mk", tMapN), vr("ea", tArrA), vr("ean", tArrA), vr("em", tMapA), vr("xs", tAny), vr("xa", tAny)),
	}
}

type c13State struct {
	calls []c13Case
	docs  []corpus.DocExample
}

func init() {
	core.Register(&core.Check{
		ID:    "C13",
		Level: "exploration",
		Rule:  "one tiny program per call: every non-graphics built-in x argument tuples from value classes (numbers incl. NaN, +-Inf, -0, 2^31, 2^53+1, 1e300; strings incl. empty, multi-byte, astral, markup; composites; any), the documented sprintf verbs x flags x widths x precisions x matching and mismatching argument types, test with 1..5 arguments, err/errmsg protocol sequences; expected result from the reference table written from docs/builtins.md; plus random sequences of 3-7 grid cells in one program (state left by one call meets the next), all documentation examples with an evy:output block and (sampled) exit status / stderr of the real evy run. distinct = distinct (built-in, argument classes) cells",
		Assumptions: []string{
			"widenings: spelling of non-finite and very large numbers compared by value; %v with precision on numbers, undocumented verbs, too few/many format arguments, str2num of hex/inf/nan/underscore spellings, replace with empty old string, exit with non-integer status are not judged",
			"rand is judged by predicate (integral, 0 <= r < n) not by value",
			"documentation examples are compared ignoring one trailing newline",
		},
		NeedsEvy: true,
		NumCases: func(tier string) int {
			if tier == "thorough" {
				return len(c13Calls()) + 200 + 30000
			}
			return len(c13Calls()) + 200 + 400
		},
		Exhaustive: func(tier string) bool { return false },
		Setup: func(c *core.Ctx) error {
			st := &c13State{calls: c13Calls(), docs: corpus.DocExamples(c.Repo)}
			c.State = st
			return nil
		},
		Run:       c13Run,
		Probe:     c13Probe,
		MinEvents: []string{"calls", "effects_compared", "doc_examples_run"},
	})
}

func c13Program(cs c13Case) *gen.Program {
	return &gen.Program{Stmts: append(c13Prelude(), cs.stmts...)}
}

func c13Run(c *core.Ctx, i int) {
	st := c.State.(*c13State)
	if i >= len(st.calls)+200 {
		if (i-len(st.calls)-200)%40 == 0 {
			c13ReadLines(c)
		}
		c13Sequence(c, st)
		return
	}
	if i >= len(st.calls) {
		c13Docs(c, st, i-len(st.calls))
		return
	}
	cs := st.calls[i]
	fn := strings.SplitN(strings.SplitN(cs.what, "(", 2)[0], " ", 2)[0]
	c.Cover("builtin", fn)
	c.Event("calls", 1)
	c.Distinct(cs.what)
	prog := c13Program(cs)
	inputs := []string{"line one", "zwei"}
	text := gen.Print(prog, nil)
	c.Journal(text)
	if fn == "rand" {
		c13Rand(c, cs, text)
		return
	}
	in := ref.New()
	in.Inputs = inputs
	want := in.Run(prog, nil)
	o := plat.Run(text, plat.Opts{Inputs: inputs, YieldBudget: 100000})
	if o.Class == "parse-error" {
		c.Violation("grid-program-rejected", cs.what+": "+firstN(o.ErrText, 200), text, nil)
		return
	}
	if o.Class == "gopanic" {
		c.Violation("host-crash:"+fn+"@"+o.Site, cs.what+": Go panic inside a built-in: "+firstN(o.GoPanic, 200), text, nil)
		return
	}
	judged, ok, why := mon.Compare(o, want)
	if !judged {
		c.Event("not_judged_undocumented", 1)
		c.Cover("not-judged", firstN(want.Unknown, 40))
		return
	}
	c.Event("effects_compared", len(o.Events))
	if !ok {
		c.Violation("doc-mismatch:"+fn+":"+c13Class(cs.what), cs.what+": "+why, text, nil)
	}
	// exit status / stderr through the real binary (sampled)
	if c.EvyBin != "" && (fn == "exit" || fn == "panic" || fn == "test" || i%97 == 0) {
		c13CLI(c, cs, text, o, inputs)
	}
	if i%401 == 0 {
		c.Sample(map[string]any{"call": cs.what, "program_tail": firstN(gen.Print(&gen.Program{Stmts: cs.stmts}, nil), 300), "expected": want.Events, "class": want.Class})
	}
}

// c13Class reduces a cell name to the class that identifies a known finding.
func c13Class(what string) string {
	if len(what) > 70 {
		what = what[:70]
	}
	return what
}

func c13Rand(c *core.Ctx, cs c13Case, text string) {
	o := plat.Run(text, plat.Opts{YieldBudget: 100000, RandSeed: int64(1 + c.Case)})
	if o.Class == "gopanic" {
		c.Violation("host-crash:rand@"+o.Site, cs.what+": Go panic: "+o.GoPanic, text, nil)
		return
	}
	c.Event("effects_compared", len(o.Events))
	for _, e := range o.Events {
		if !strings.HasPrefix(e, "print \"rand ") {
			continue
		}
		s := strings.TrimSuffix(strings.TrimPrefix(e, "print \"rand "), "\\n\"")
		v, err := strconv.ParseFloat(s, 64)
		if err != nil || v != math.Trunc(v) || v < 0 {
			c.Violation("rand-not-integral", cs.what+": rand returned "+s, text, nil)
		}
		c.Event("rand_values_checked", 1)
	}
	// n <= 0 (and NaN) must panic; for n >= 1 result < n is checked below with many draws
	arg := strings.TrimSuffix(strings.TrimPrefix(cs.what, "rand("), ")")
	mustPanic := map[string]bool{"0": true, "-1": true, "-2.5": true, "NaN": true, "-Inf": true, "-0": true}
	if mustPanic[arg] && !strings.HasPrefix(o.Class, "panic:") {
		c.Violation("rand-domain", cs.what+": expected a panic for n <= 0, got "+o.Class+" "+fmt.Sprint(o.Events), text, nil)
	}
	if arg == "3" || arg == "10" || arg == "1" || arg == "2.5" || arg == "1.5" {
		n, _ := strconv.ParseFloat(arg, 64)
		src := "seen:{}bool\nfor range 400\n    r := rand " + arg + "\n    seen[sprint r] = true\n    if r < 0 or r >= " + arg + " or r != (floor r)\n        print \"bad\" r\n    end\nend\nprint (len seen)\n"
		o2 := plat.Run(src, plat.Opts{YieldBudget: 100000, RandSeed: int64(7 + c.Case)})
		want := fmt.Sprintf("print \"%d\\n\"", int(math.Floor(n)))
		if o2.Class != "ok" || len(o2.Events) != 1 || o2.Events[0] != want {
			c.Violation("rand-range", fmt.Sprintf("rand %s: 400 draws must stay in [0,n), be integral and hit every value: got %s %v", arg, o2.Class, o2.Events), src, nil)
		}
		c.Event("rand_values_checked", 400)
	}
}

func c13CLI(c *core.Ctx, cs c13Case, text string, o *plat.Outcome, inputs []string) {
	stdout, stderr, code, err := evyCmd(c, strings.Join(inputs, "\n")+"\n", "run", "--rand-seed", "5", writeTemp(c, text))
	c.Event("cli_runs", 1)
	if err != nil {
		c.Inconclusive("evy run: " + err.Error())
		return
	}
	wantCode := 0
	switch {
	case strings.HasPrefix(o.Class, "exit:"):
		n, _ := strconv.Atoi(strings.TrimPrefix(o.Class, "exit:"))
		wantCode = n & 0xff
	case o.Class != "ok":
		wantCode = 1
	}
	if code != wantCode {
		c.Violation("cli-exit-status", fmt.Sprintf("%s: evy run exit status %d, expected %d (library outcome %s); stderr %q", cs.what, code, wantCode, o.Class, firstN(stderr, 200)), text, nil)
	}
	if strings.HasPrefix(o.Class, "panic:") && !strings.Contains(stderr, strings.TrimSpace(stripPosPrefix(o.ErrText))) {
		c.Violation("cli-stderr", fmt.Sprintf("%s: panic message not on stderr: %q vs %q", cs.what, stderr, o.ErrText), text, nil)
	}
	// printed output must equal the library's print effects
	var want strings.Builder
	for _, e := range o.Events {
		if strings.HasPrefix(e, "print ") {
			s, _ := strconv.Unquote(strings.TrimPrefix(e, "print "))
			want.WriteString(s)
		}
	}
	if !strings.Contains(stdout, "\x1b") && stdout != want.String() {
		c.Violation("cli-stdout", fmt.Sprintf("%s: stdout of evy run differs from the library's print effects: %q vs %q", cs.what, firstN(stdout, 300), firstN(want.String(), 300)), text, nil)
	}
}

func stripPosPrefix(s string) string {
	if i := strings.Index(s, ": "); i >= 0 && strings.HasPrefix(s, "line ") {
		return s[i+2:]
	}
	return s
}

func writeTemp(c *core.Ctx, text string) string {
	p := filepath.Join(c.Tmp, "prog.evy")
	_ = os.WriteFile(p, []byte(text), 0o644)
	return p
}

// c13Docs runs documentation examples that come with an expected output.
func c13Docs(c *core.Ctx, st *c13State, k int) {
	var withOut []corpus.DocExample
	for _, d := range st.docs {
		if d.HasOut {
			withOut = append(withOut, d)
		}
	}
	if k >= len(withOut) {
		return
	}
	d := withOut[k]
	c.Event("doc_examples_run", 1)
	c.Cover("doc", d.Doc)
	var inputs []string
	if d.Input != "" {
		inputs = strings.Split(strings.TrimSuffix(d.Input, "\n"), "\n")
	}
	o := plat.Run(d.Src, plat.Opts{Inputs: inputs, YieldBudget: 200000, RandSeed: 1})
	var got strings.Builder
	for _, e := range o.Events {
		if strings.HasPrefix(e, "print ") {
			s, _ := strconv.Unquote(strings.TrimPrefix(e, "print "))
			got.WriteString(s)
		}
		if e == "cls" { // the documents show the output area after it has been cleared
			got.Reset()
		}
	}
	if strings.Contains(d.Src, "rand") {
		c.Event("doc_examples_with_rand_not_compared", 1)
		return
	}
	if strings.TrimRight(got.String(), "\n") != strings.TrimRight(d.Output, "\n") {
		c.Violation("doc-example:"+fmt.Sprintf("%s:%d", d.Doc, d.Line), fmt.Sprintf("documentation example %s:%d prints %q, the document says %q (result %s %s)", d.Doc, d.Line, firstN(got.String(), 300), firstN(d.Output, 300), o.Class, o.ErrText), d.Src, nil)
	}
	c.Event("effects_compared", len(o.Events))
}

func c13Probe(c *core.Ctx, f core.Finding) (bool, string) {
	what, _ := f.Extra["cell"].(string)
	for _, cs := range c13Calls() {
		if cs.what != what {
			continue
		}
		prog := c13Program(cs)
		in := ref.New()
		in.Inputs = []string{"line one", "zwei"}
		want := in.Run(prog, nil)
		o := plat.Run(gen.Print(prog, nil), plat.Opts{Inputs: in.Inputs, YieldBudget: 100000})
		judged, ok, why := mon.Compare(o, want)
		if judged && !ok {
			return true, why
		}
		return false, ""
	}
	return false, "no such cell"
}

// c13Sequence: 3-7 grid cells in one program, each in its own block (own names), so that what one
// call leaves behind (err/errmsg, consumed input, cleared output, test counts, mutated maps) meets the
// next call; judged against the reference like a single cell.
func c13Sequence(c *core.Ctx, st *c13State) {
	r := c.Rng
	n := 3 + r.Intn(5)
	var stmts []gen.Stmt
	var names []string
	for k := 0; k < n; k++ {
		cs := st.calls[r.Intn(len(st.calls))]
		fn := strings.SplitN(strings.SplitN(cs.what, "(", 2)[0], " ", 2)[0]
		if fn == "rand" || fn == "rand1" || fn == "sleep" {
			k--
			continue
		}
		names = append(names, cs.what)
		stmts = append(stmts, gen.If{Conds: []gen.Expr{gen.BoolLit{V: true}}, Blocks: [][]gen.Stmt{cs.stmts}})
	}
	c.Event("calls", n)
	c.Event("sequences", 1)
	what := "sequence " + strings.Join(names, " ; ")
	c.Distinct(what)
	prog := &gen.Program{Stmts: append(c13Prelude(), stmts...)}
	inputs := []string{"line one", "zwei", "3", ""}
	text := gen.Print(prog, nil)
	c.Journal(text)
	in := ref.New()
	in.Inputs = inputs
	want := in.Run(prog, nil)
	o := plat.Run(text, plat.Opts{Inputs: inputs, YieldBudget: 200000})
	if o.Class == "parse-error" {
		c.Violation("grid-program-rejected", what+": "+firstN(o.ErrText, 200), text, nil)
		return
	}
	if o.Class == "gopanic" {
		c.Violation("host-crash:sequence@"+o.Site, what+": Go panic inside a built-in: "+firstN(o.GoPanic, 200), text, nil)
		return
	}
	judged, ok, why := mon.Compare(o, want)
	if !judged {
		c.Event("not_judged_undocumented", 1)
		return
	}
	c.Event("effects_compared", len(o.Events))
	if !ok {
		c.Violation("doc-mismatch:sequence", what+": "+why, text, nil)
	}
}

// c13ReadLines: read returns the input line exactly as entered, excluding only the newline
// (docs/builtins.md): leading / trailing blanks, tabs, NBSP, a carriage return and whitespace-only lines
// are part of the line; what str2num makes of them follows from that.
func c13ReadLines(c *core.Ctx) {
	r := c.Rng
	pool := []string{" 7", "7 ", "\t x", " ", "", "\u00a0y\u00a0", "a  b", "x\r", "\u2003z", "  ", "42", " true", "é ", "\v1", " - ", "0.5\t"}
	n := 3 + r.Intn(5)
	var inputs []string
	for k := 0; k < n; k++ {
		inputs = append(inputs, pool[r.Intn(len(pool))])
	}
	src := fmt.Sprintf("for i := range %d\n    s := read\n    print i (len s) \"[\"+s+\"]\"\n    n := str2num s\n    print n err\n    b := str2bool s\n    print b err\n    if (len s) > 0\n        print (s[0] == \" \") (s[-1] == \" \") (trim s \" \")\n    end\nend\n", n)
	c.Event("calls", n)
	runTextFamily(c, "read-lines", src, inputs)
}
