package checks

import (
	"fmt"
	"sort"
	"strings"

	"verif/core"
	"verif/gen"
	"verif/plat"
)

// Inference of the "strictest possible type" of a literal from the set of its element types
// (docs/spec.md, Variables and Declarations + Assignability). The result must not depend on the
// order of the elements.

type infElem struct {
	src   string
	t     *gen.Type // None leaves = untyped empty parts
	cnst  bool      // constant (literal without variables)
	decl  string
	label string
}

var noneT = &gen.Type{K: gen.None}

func infElems() []infElem {
	return []infElem{
		{src: "xa", t: tArrN, decl: "xa:[]num\n", label: "var[]num"},
		{src: "[1]", t: tArrN, cnst: true, label: "const[]num"},
		{src: "[]", t: gen.ArrOf(noneT), cnst: true, label: "empty[]"},
		{src: "[\"a\"]", t: tArrS, cnst: true, label: "const[]string"},
		{src: "ys", t: tArrS, decl: "ys:[]string\n", label: "var[]string"},
		{src: "1", t: tNum, cnst: true, label: "const-num"},
		{src: "\"s\"", t: tStr, cnst: true, label: "const-string"},
		{src: "n", t: tNum, decl: "n:num\n", label: "var-num"},
		{src: "[[1]]", t: tArrAN, cnst: true, label: "const[][]num"},
		{src: "{}", t: gen.MapOf(noneT), cnst: true, label: "empty{}"},
		{src: "{a:1}", t: tMapN, cnst: true, label: "const{}num"},
		{src: "mv", t: tMapN, decl: "mv:{}num\n", label: "var{}num"},
		{src: "[[]]", t: gen.ArrOf(gen.ArrOf(noneT)), cnst: true, label: "empty[[]]"},
		{src: "av", t: tAny, decl: "av:any\n", label: "var-any"},
	}
}

type infT struct {
	t    *gen.Type
	cnst bool
}

func isNoneLeaf(t *gen.Type) bool { return t.K == gen.None }

// unifyInf is the common type of two element types.
func unifyInf(a, b infT) infT {
	both := a.cnst && b.cnst
	if isNoneLeaf(a.t) {
		return infT{b.t, both}
	}
	if isNoneLeaf(b.t) {
		return infT{a.t, both}
	}
	if a.t.IsComposite() && b.t.IsComposite() && a.t.K == b.t.K {
		// untyped empty parts adapt; constants of the same structure convert to the any-based type
		sub := unifyInf(infT{a.t.Sub, a.cnst}, infT{b.t.Sub, b.cnst})
		if sub.t == nil {
			return infT{tAny, false}
		}
		return infT{&gen.Type{K: a.t.K, Sub: sub.t}, both}
	}
	if a.t.Eq(b.t) {
		return infT{a.t, both}
	}
	if a.cnst && b.cnst {
		return infT{tAny, true}
	}
	// a variable cannot be converted: no common type below any at the level of the *elements*
	return infT{nil, false}
}

func inferSet(elems []infElem) *gen.Type {
	cur := infT{elems[0].t, elems[0].cnst}
	for _, e := range elems[1:] {
		cur = unifyInf(cur, infT{e.t, e.cnst})
		if cur.t == nil {
			return tAny
		}
	}
	return inferEmpty(cur.t)
}

func permutations(n int) [][]int {
	var out [][]int
	var rec func(cur []int, used []bool)
	rec = func(cur []int, used []bool) {
		if len(cur) == n {
			out = append(out, append([]int(nil), cur...))
			return
		}
		for i := 0; i < n; i++ {
			if !used[i] {
				used[i] = true
				rec(append(cur, i), used)
				used[i] = false
			}
		}
	}
	rec(nil, make([]bool, n))
	return out
}

// c04InferCases enumerates all multisets of size 2 and 3.
func c04InferCases() [][]int {
	n := len(infElems())
	var out [][]int
	for a := 0; a < n; a++ {
		for b := a; b < n; b++ {
			out = append(out, []int{a, b})
			for d := b; d < n; d++ {
				out = append(out, []int{a, b, d})
			}
		}
	}
	return out
}

func c04InferRun(c *core.Ctx, k int) {
	all := infElems()
	set := c04InferCases()[k]
	var elems []infElem
	decls := map[string]bool{}
	var decl strings.Builder
	labels := []string{}
	for _, i := range set {
		elems = append(elems, all[i])
		labels = append(labels, all[i].label)
		if all[i].decl != "" && !decls[all[i].decl] {
			decls[all[i].decl] = true
			decl.WriteString(all[i].decl)
		}
	}
	sort.Strings(labels)
	cell := "infer|" + strings.Join(labels, ",")
	// open in the documents: an untyped empty literal next to a *variable* of a composite type.
	// "Zero values" says the empty literal assumes the required type, "Assignability of empty
	// composite literals" says it follows the rules of inferred declarations ([] becomes []any).
	// Both [][]num and []any can be defended for [xa []]; only order independence is judged.
	hasVarComposite, hasEmpty := false, false
	for _, e := range elems {
		if !e.cnst && e.t.IsComposite() {
			hasVarComposite = true
		}
		if e.cnst && strings.HasPrefix(e.label, "empty") {
			hasEmpty = true
		}
	}
	open := hasVarComposite && hasEmpty
	if open {
		c.Event("open_cells_not_judged", 1)
		c.Cover("open", "literal-inference: variable composite + untyped empty")
	}
	want := inferSet(elems)
	// the oracle itself must be order independent
	for _, p := range permutations(len(elems)) {
		var pe []infElem
		for _, i := range p {
			pe = append(pe, elems[i])
		}
		if got := inferSet(pe); !got.Eq(want) {
			panic(fmt.Sprintf("C04 oracle is order dependent for %s: %s vs %s", cell, got, want))
		}
	}
	for _, form := range []string{"array", "map"} {
		seen := map[string]string{}
		for _, p := range permutations(len(elems)) {
			var parts []string
			for j, i := range p {
				if form == "array" {
					parts = append(parts, elems[i].src)
				} else {
					parts = append(parts, fmt.Sprintf("k%d:%s", j, elems[i].src))
				}
			}
			lit := "[" + strings.Join(parts, " ") + "]"
			wantS := "[]" + want.String()
			if form == "map" {
				lit = "{" + strings.Join(parts, " ") + "}"
				wantS = "{}" + want.String()
			}
			src := decl.String() + "x := " + lit + "\nprint (typeof x)\n"
			c.Event("cells", 1)
			c.Distinct(cell + "|" + form + "|" + lit)
			c.Journal(src)
			// several runs: the result must not depend on hash-map iteration order either
			for rep := 0; rep < 3; rep++ {
				o := plat.Run(src, plat.Opts{YieldBudget: 10000})
				if o.Class == "gopanic" {
					c.Violation("crash:"+o.Site, cell+": Go panic "+firstN(o.GoPanic, 200), src, nil)
					return
				}
				if o.Class != "ok" || len(o.Events) != 1 {
					c.Violation("acceptance:infer|"+form, fmt.Sprintf("%s: literal %s not accepted: %s %s", cell, lit, o.Class, firstN(o.ErrText, 200)), src, nil)
					return
				}
				got := strings.TrimSuffix(strings.TrimPrefix(o.Events[0], "print \""), "\\n\"")
				seen[got] = lit
				c.Event("typeof_checked", 1)
				c.Event("accepted_cells", 1)
				if got != wantS && !open {
					c.Violation("typeof:infer|"+form+"|"+strings.Join(labels, ","), fmt.Sprintf("%s: %s has inferred type %s, the strictest common type of its elements is %s", cell, lit, got, wantS), src, nil)
					return
				}
			}
		}
		if len(seen) > 1 {
			c.Violation("typeof:infer-order|"+form, fmt.Sprintf("%s: the inferred type depends on the order of the elements: %v", cell, seen), "", nil)
		}
	}
}
