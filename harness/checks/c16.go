package checks

import (
	"errors"
	"fmt"
	"math/rand"
	"sort"
	"strings"

	"evylang.dev/evy/pkg/bytecode"
	"evylang.dev/evy/pkg/parser"

	"verif/core"
	"verif/gen"
	"verif/mon"
	"verif/plat"
)

// C16 — compiled bytecode behaves like the tree-walking evaluator.

func init() {
	core.Register(&core.Check{
		ID:    "C16",
		Level: "translation_validation",
		Rule:  "(0) edge operands: one index / slice bound / store position (whole, almost whole, fractional) or one numeric range (zero, negative, fractional step; start before, at, after stop) per program, outcome class and globals compared; (1) random programs inside the compiler's supported subset (every statement feeds a global): final value of every top-level variable on the VM (verif hook, keyed by the compiler's symbol names, maps with key order) vs the evaluator's (repr trailer), or corresponding run-time error class; (2) programs that use one unsupported construct (typed declaration, any conversion, function definition/call, return, handler, field access, type assertion, and/or, built-in call): a compile-time error is required. distinct = distinct program texts",
		Assumptions: []string{
			"the evaluator is the reference the property names",
			"open findings D23a-e fence off: non-ASCII strings, map insertion of a new key, range with step 0, repetition of nested arrays, mutation of a map while ranging over it; each is re-run by its probe",
			"division and modulo by zero are avoided (an error on the VM only, as the property allows)",
		},
		NumCases: func(tier string) int {
			if tier == "thorough" {
				return 60000
			}
			return 2000
		},
		Run:       c16Run,
		Probe:     c16Probe,
		MinEvents: []string{"programs", "globals_compared", "unsupported_programs"},
	})
}

type vmResult struct {
	compileErr error
	runErr     error
	goPanic    string
	site       string
	globals    map[string]string
	bc         *bytecode.Bytecode
	comp       *bytecode.Compiler
	sp         int
	trace      []int // ip<<16|sp pairs when tracing
}

// vmRun compiles and runs src on the VM.
func vmRun(src string, trace func(ip, sp int)) (res vmResult) {
	defer func() {
		if p := recover(); p != nil {
			res.goPanic = fmt.Sprint(p)
			res.site = plat.PanicSite()
		}
	}()
	res = vmCompile(src)
	if res.compileErr != nil {
		return res
	}
	comp, bc := res.comp, res.bc
	vm := bytecode.NewVM(bc)
	steps := 0
	vm.VerifSetTrace(func(ip, sp int) {
		steps++
		if steps > 20_000_000 {
			panic("verif: VM step budget exceeded")
		}
		if trace != nil {
			trace(ip, sp)
		}
	})
	res.runErr = vm.Run()
	res.sp = vm.VerifSP()
	res.globals = map[string]string{}
	for name, idx := range comp.VerifGlobalNames() {
		res.globals[name] = vm.VerifGlobal(idx)
	}
	return res
}

// vmCompile parses and compiles src.
func vmCompile(src string) (res vmResult) {
	prog, err := parser.Parse(src, plat.Builtins())
	if err != nil {
		res.compileErr = fmt.Errorf("parse: %w", err)
		return res
	}
	comp := bytecode.NewCompiler()
	res.comp = comp
	if err := comp.Compile(prog); err != nil {
		res.compileErr = err
		return res
	}
	res.bc = comp.Bytecode()
	return res
}

func vmErrClass(err error) string {
	switch {
	case err == nil:
		return "ok"
	case errors.Is(err, bytecode.ErrBounds):
		return "panic:bounds"
	case errors.Is(err, bytecode.ErrIndexValue):
		return "panic:index-value"
	case errors.Is(err, bytecode.ErrMapKey):
		return "panic:map-key"
	case errors.Is(err, bytecode.ErrSlice):
		return "panic:slice"
	case errors.Is(err, bytecode.ErrBadRepetition):
		return "panic:bad-repetition"
	case errors.Is(err, bytecode.ErrRangeValue):
		return "panic:range-value"
	case errors.Is(err, bytecode.ErrDivideByZero):
		return "panic:divide-by-zero"
	case errors.Is(err, bytecode.ErrStackOverflow):
		return "panic:stack-overflow"
	case errors.Is(err, bytecode.ErrInternal):
		return "internal"
	case errors.Is(err, bytecode.ErrPanic):
		return "panic:other"
	}
	return "other-error"
}

// evalGlobals runs src on the evaluator with a trailer that prints name=repr for every global.
func evalGlobals(src string, globals []gen.VarInfo) (map[string]string, *plat.Outcome) {
	var b strings.Builder
	b.WriteString(src)
	for _, g := range globals {
		fmt.Fprintf(&b, "print \"GLOBAL %s\" (repr %s)\n", g.Name, g.Name)
	}
	o := plat.Run(b.String(), plat.Opts{YieldBudget: 2000000, MaxEvents: 100000})
	out := map[string]string{}
	for _, e := range o.Events {
		if strings.HasPrefix(e, "print \"GLOBAL ") {
			s := strings.TrimSuffix(strings.TrimPrefix(e, "print \"GLOBAL "), "\\n\"")
			parts := strings.SplitN(s, " ", 2)
			if len(parts) == 2 {
				// the event text is Go-quoted: undo one level of quoting of the repr
				out[parts[0]] = strings.ReplaceAll(strings.ReplaceAll(parts[1], `\"`, `"`), `\\`, `\`)
			}
		}
	}
	return out, o
}

func c16Compare(c *core.Ctx, text string, globals []gen.VarInfo, keyPrefix string) bool {
	want, o := evalGlobals(text, globals)
	if o.Class == "parse-error" || o.Class == "gopanic" || o.Class == "internal" {
		c.Violation("harness-program-failed:"+o.Class, "evaluator side: "+firstN(o.ErrText+o.GoPanic, 300), text, nil)
		return false
	}
	res := vmRun(text, nil)
	c.Event("programs", 1)
	if res.goPanic != "" {
		c.Violation(keyPrefix+"vm-crash@"+res.site, "the VM (or compiler) crashed: "+firstN(res.goPanic, 200), text, nil)
		return false
	}
	if res.compileErr != nil {
		c.Violation(keyPrefix+"subset-program-not-compiled", "program inside the supported subset was rejected by the compiler: "+firstN(res.compileErr.Error(), 200), text, nil)
		return false
	}
	got := vmErrClass(res.runErr)
	c.Cover("outcome", o.Class)
	if o.Class != "ok" {
		// the evaluator failed: the VM must fail with the corresponding class
		c.Event("error_outcomes_compared", 1)
		if got != o.Class {
			c.Violation(keyPrefix+"error-class", fmt.Sprintf("evaluator ends with %s (%s), the VM with %s (%v)", o.Class, o.ErrText, got, res.runErr), text, nil)
			return false
		}
		return true
	}
	if got != "ok" {
		c.Violation(keyPrefix+"vm-error", fmt.Sprintf("evaluator completes, the VM fails with %s (%v)", got, res.runErr), text, nil)
		return false
	}
	names := make([]string, 0, len(want))
	for n := range want {
		names = append(names, n)
	}
	sort.Strings(names)
	for _, n := range names {
		c.Event("globals_compared", 1)
		g, ok := res.globals[n]
		if !ok {
			c.Violation(keyPrefix+"global-missing", "the VM has no global "+n, text, nil)
			return false
		}
		if !mon.SameText(g, want[n]) {
			c.Violation(keyPrefix+"global-differs", fmt.Sprintf("global %s: VM %s, evaluator %s", n, firstN(g, 200), firstN(want[n], 200)), text, nil)
			return false
		}
	}
	return true
}

var c16Unsupported = []struct{ name, src string }{
	{"typed-declaration", "x:num\nx = 1\ny := x\ny = y + 1\n"},
	{"any-conversion-array", "x := [1 \"a\"]\ny := x\ny = x\n"},
	{"any-conversion-assign", "x := 1\ny := x == x\nz := [x \"s\" y]\nz = z + z\n"},
	{"function-definition", "func f:num n:num\n    return n\nend\nx := 1\nx = x + 1\n"},
	{"function-call", "func f n:num\n    m := n\n    m = m + 1\nend\nf 1\n"},
	{"function-call-expr", "func f:num\n    return 2\nend\nx := (f) + 1\nx = x + 1\n"},
	{"handler", "x := 1\nx = x + 1\non key k:string\n    y := k\n    y = y + k\nend\n"},
	{"field-access", "m := {a:1}\ny := m.a\ny = y + 1\n"},
	{"field-assignment", "m := {a:1}\nm.a = 2\nn := m == m\nn = n == n\n"},
	{"and", "a := true\nb := a and a\nb = b == b\n"},
	{"or", "a := true\nb := a or a\nb = b == b\n"},
	{"type-assertion", "x:any\ny := x.(bool)\ny = y == y\n"},
	{"map-of-any", "m := {a:1 b:\"x\"}\nn := m == m\nn = n == n\n"},
}

func c16Run(c *core.Ctx, i int) {
	r := c.Rng
	if i%10 == 9 {
		// (2) unsupported constructs: a compile-time error is required
		u := c16Unsupported[(i/10)%len(c16Unsupported)]
		src := u.src
		// embed into a supported program so that the construct is not the whole program
		g := &vmGen{}
		prog, _ := vmProgram(r, g)
		if r.Intn(2) == 0 {
			src = gen.Print(prog, nil) + src
		} else {
			src = src + strings.ReplaceAll(gen.Print(prog, nil), "\n", "\n")
		}
		c.Event("unsupported_programs", 1)
		c.Cover("unsupported", u.name)
		c.Distinct(src)
		if _, err := parser.Parse(src, plat.Builtins()); err != nil {
			// built-in free programs only; a parse error here is a harness problem
			c.Violation("harness-unsupported-program-rejected", u.name+": "+firstN(err.Error(), 200), src, nil)
			return
		}
		res := vmRun(src, nil)
		if res.goPanic != "" {
			c.Violation("unsupported:crash@"+res.site, u.name+": compiler or VM crashed instead of reporting a compile-time error: "+firstN(res.goPanic, 200), src, nil)
		} else if res.compileErr == nil {
			c.Violation("unsupported:compiled:"+u.name, u.name+": a construct the compiler cannot translate compiled without error", src, nil)
		}
		return
	}
	if i%20 == 4 {
		c16Special(c)
		return
	}
	if i%20 == 14 {
		c16NestedBreaks(c)
		return
	}
	if i%20 == 6 || i%20 == 16 {
		c16EdgeOperands(c, i/20*2+i%20/16)
		return
	}
	g := &vmGen{unsafe: 0.04, zeroStep: true}
	prog, globals := vmProgram(r, g)
	text := gen.Print(prog, nil)
	if i%3 == 0 {
		text = gen.Print(prog, gen.RandomLayout(rand.New(rand.NewSource(r.Int63()))))
	}
	c.Journal(text)
	c.Distinct(text)
	c.Event("disagreements_checked", 1)
	ok := c16Compare(c, text, globals, "")
	if i < 2 {
		c.Sample(map[string]any{"program": firstN(gen.Print(prog, nil), 700), "globals": len(globals), "agree": ok})
	}
}

// c16Probe re-runs the generator with one fenced-off region switched on.
func c16Probe(c *core.Ctx, f core.Finding) (bool, string) {
	region, _ := f.Extra["region"].(string)
	for seed := int64(0); seed < 40; seed++ {
		g := &vmGen{}
		switch region {
		case "nonASCII":
			g.nonASCII = true
		case "mapInsert":
			g.mapInsert = true
		case "zeroStep":
			g.zeroStep = true
		case "nestedRepeat":
			g.nestedRepeat = true
		case "mapMutation":
			g.mapMutation = true
		}
		prog, globals := vmProgram(rand.New(rand.NewSource(seed)), g)
		sub := &core.Ctx{ID: c.ID, Res: core.NewResult(), Tmp: c.Tmp, Rng: c.Rng}
		if !c16Compare(sub, gen.Print(prog, nil), globals, "") && len(sub.Res.Violations) > 0 {
			return true, sub.Res.Violations[0].Desc
		}
	}
	return false, "no disagreement in 40 programs of this region"
}

// c16Special: comparisons and negated comparisons on the special numbers (NaN, +-Inf, -0) that the
// generator's arithmetic rarely reaches, in conditions of if / else-if chains and while loops: the VM and
// the evaluator must agree on every global. NaN is reached arithmetically (inf - inf).
func c16Special(c *core.Ctx) {
	r := c.Rng
	var b strings.Builder
	var globals []gen.VarInfo
	decl := func(name, expr string, t *gen.Type) {
		fmt.Fprintf(&b, "%s := %s\n%s = %s\n", name, expr, name, name) // every variable must be used
		globals = append(globals, gen.VarInfo{Name: name, T: t, Len: -1})
	}
	b.WriteString("big := 10\nfor range 400\n    big = big * 10\nend\n")
	globals = append(globals, gen.VarInfo{Name: "big", T: tNum, Len: -1})
	decl("nan", "big - big", tNum)
	decl("ninf", "-big", tNum)
	decl("one", fmt.Sprint(1+r.Intn(5)), tNum)
	decl("negz", "-0 * one", tNum)
	vals := []string{"nan", "big", "ninf", "one", "negz", "-nan", "(nan)", "0"}
	ops := []string{"<", "<=", ">", ">=", "==", "!="}
	n := 0
	for k := 0; k < 14; k++ {
		l, rr, op := vals[r.Intn(len(vals))], vals[r.Intn(len(vals))], ops[r.Intn(len(ops))]
		n++
		switch r.Intn(4) {
		case 0:
			decl(fmt.Sprintf("c%d", n), fmt.Sprintf("%s %s %s", l, op, rr), tBool)
		case 1:
			decl(fmt.Sprintf("c%d", n), fmt.Sprintf("!(%s %s %s)", l, op, rr), tBool)
		case 2:
			decl(fmt.Sprintf("c%d", n), fmt.Sprintf("!!(%s %s %s) == !(%s %s %s)", l, op, rr, rr, op, l), tBool)
		default:
			decl(fmt.Sprintf("r%d", n), "0", tNum)
			fmt.Fprintf(&b, "if !(%s %s %s)\n    r%d = 1\nelse if %s %s %s\n    r%d = 2\nelse if !(%s %s %s)\n    r%d = 3\nend\n", l, op, rr, n, rr, op, l, n, l, ops[r.Intn(len(ops))], rr, n)
		}
	}
	decl("cnt", "0", tNum)
	fmt.Fprintf(&b, "while !(nan %s cnt)\n    cnt = cnt + 1\n    if cnt > 3\n        break\n    end\nend\n", ops[r.Intn(4)])
	decl("cnt2", "0", tNum)
	fmt.Fprintf(&b, "while !(cnt2 %s 3) == false\n    cnt2 = cnt2 + 1\n    if cnt2 > 5\n        break\n    end\nend\n", pick(r, "<", "<="))
	text := b.String()
	c.Cover("family", "special-number-comparisons")
	c.Journal(text)
	c.Distinct(text)
	c.Event("disagreements_checked", 1)
	c16Compare(c, text, globals, "")
}

// c16EdgeOperands: one operation per program whose operand sits on the edge between a value and a
// run-time error - indices, slice bounds and store positions that are whole numbers, almost whole
// numbers (floating-point noise) and fractions; numeric ranges with a step of zero, a negative or a
// fractional step, and start before, at and after stop. Evaluator and VM must agree on the outcome
// class and, when both complete, on every global.
var (
	c16EdgeIndex = []string{"(0.1 + 0.2) * 10", "0.3 / 0.1", "3", "1.5", "0.1 * 3 * 10", "-1 - 0.1 + 0.1", "0 - 0.0000000001", "2.0000000001", "4.9999999999", "5", "-5", "-5.0000000001"}
	c16EdgeOps   = []string{"res = arr[k]\n", "t := arr[:k]\nt = t\n", "t := arr[k:]\nt = t\n", "arr[k] = 7\n", "ch := s[k]\nch = ch\n", "u := s[k:]\nu = u\n", "u := s[1:k]\nu = u\n"}
	c16EdgeRange = [][3]string{{"3", "3", "z"}, {"10", "3", "z"}, {"0", "5", "z"}, {"5", "0", "z"}, {"k", "k", "(k - k)"}, {"10", "3", "-1"}, {"3", "10", "-1"}, {"0", "1", "0.25"}, {"1", "0", "-0.3"}, {"2", "2", "-0"}, {"4", "2", "(z * 2)"}}
)

func c16EdgeOperands(c *core.Ctx, n int) {
	var b strings.Builder
	globals := []gen.VarInfo{{Name: "arr", T: gen.ArrOf(tNum), Len: -1}, {Name: "s", T: tStr, Len: -1}, {Name: "res", T: tNum, Len: -1}, {Name: "k", T: tNum, Len: -1}, {Name: "z", T: tNum, Len: -1}, {Name: "after", T: tNum, Len: -1}}
	b.WriteString("arr := [10 20 30 40 50]\narr = arr\ns := \"abcde\"\ns = s\nres := 0\nres = res + 1\nz := 0\nz = z\n")
	total := len(c16EdgeIndex)*len(c16EdgeOps) + 2*len(c16EdgeRange)
	n %= total
	if n < len(c16EdgeIndex)*len(c16EdgeOps) {
		k, op := c16EdgeIndex[n%len(c16EdgeIndex)], c16EdgeOps[n/len(c16EdgeIndex)]
		fmt.Fprintf(&b, "k := %s\nk = k\n%s", k, op)
		switch {
		case strings.HasPrefix(op, "t :="):
			globals = append(globals, gen.VarInfo{Name: "t", T: gen.ArrOf(tNum), Len: -1})
		case strings.HasPrefix(op, "ch :="):
			globals = append(globals, gen.VarInfo{Name: "ch", T: tStr, Len: -1})
		case strings.HasPrefix(op, "u :="):
			globals = append(globals, gen.VarInfo{Name: "u", T: tStr, Len: -1})
		}
		c.Cover("edge-operand", "index:"+k)
	} else {
		m := n - len(c16EdgeIndex)*len(c16EdgeOps)
		rg := c16EdgeRange[m/2]
		b.WriteString("k := 4\nk = k\n")
		if m%2 == 0 {
			fmt.Fprintf(&b, "for range %s %s %s\n    res = res + 1\n    if res > 50\n        break\n    end\nend\n", rg[0], rg[1], rg[2])
		} else {
			fmt.Fprintf(&b, "for i := range %s %s %s\n    res = res + i\n    if res > 50\n        break\n    end\nend\n", rg[0], rg[1], rg[2])
		}
		c.Cover("edge-operand", "range:"+strings.Join(rg[:], " "))
	}
	b.WriteString("after := 1\nafter = after + res\n")
	text := b.String()
	c.Cover("family", "edge-operands")
	c.Journal(text)
	c.Distinct(text)
	c.Event("disagreements_checked", 1)
	c16Compare(c, text, globals, "edge:")
}

// c16NestedBreaks: loops nested two and three deep where an enclosing loop has a break textually before,
// after, or before and after the nested loop, which has breaks of its own.
func c16NestedBreaks(c *core.Ctx) {
	r := c.Rng
	var b strings.Builder
	b.WriteString("n := 0\nrounds := 0\ninner := 0\ndeep := 0\ndone := false\nn = n\nrounds = rounds\ninner = inner\ndeep = deep\n")
	outerWhile := r.Intn(2) == 0
	lim := 2 + r.Intn(4)
	if outerWhile {
		b.WriteString("while true\n")
	} else {
		b.WriteString("for o := range 50\n    if o < 0\n        n = n + 100\n    end\n")
	}
	before, after := r.Intn(3) > 0, r.Intn(2) == 0
	if !before && !after {
		before = true
	}
	if before {
		fmt.Fprintf(&b, "    if n > %d\n        break\n    end\n", lim)
	}
	b.WriteString("    rounds = rounds + 1\n")
	switch r.Intn(3) {
	case 0:
		fmt.Fprintf(&b, "    for i := range 10\n        if i == %d\n            break\n        end\n        n = n + 1\n        inner = inner + i\n    end\n", 1+r.Intn(3))
	case 1:
		fmt.Fprintf(&b, "    w := 0\n    while true\n        w = w + 1\n        if w > %d\n            break\n        end\n        n = n + 1\n        inner = inner + w\n    end\n", 1+r.Intn(3))
	default:
		fmt.Fprintf(&b, "    for i := range [1 2 3 4]\n        if i == %d\n            break\n        end\n        for j := range 5\n            if j > i\n                break\n            end\n            deep = deep + 1\n        end\n        n = n + 1\n        inner = inner + i\n    end\n", 2+r.Intn(3))
	}
	if after {
		fmt.Fprintf(&b, "    if rounds >= %d\n        break\n    end\n", 2+r.Intn(5))
	}
	b.WriteString("end\ndone = true\ndone = done\n")
	text := b.String()
	var globals []gen.VarInfo
	for _, g := range []string{"n", "rounds", "inner", "deep"} {
		globals = append(globals, gen.VarInfo{Name: g, T: tNum, Len: -1})
	}
	globals = append(globals, gen.VarInfo{Name: "done", T: tBool, Len: -1})
	c.Cover("family", "nested-breaks")
	c.Journal(text)
	c.Distinct(text)
	c.Event("disagreements_checked", 1)
	c16Compare(c, text, globals, "")
}
