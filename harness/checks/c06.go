package checks

import (
	"fmt"
	"strings"

	"evylang.dev/evy/pkg/parser"

	"verif/core"
	"verif/mon"
	"verif/plat"
)

// C06 — formatting changes nothing but whitespace.

func init() {
	core.Register(&core.Check{
		ID:    "C06",
		Level: "exploration",
		Rule: "accepted sources: corpus and documentation programs, the same with injected comments / blank-line runs / tabs / trailing spaces, accepted 1-2 token mutants, and generated programs under random legal layouts; " +
			"for each: token sequence, re-acceptance, tree and behaviour of Format(s) compared with s; distinct = distinct source texts whose formatted text differs from the source (formatter actually did something)",
		Assumptions: []string{
			"tokens are compared by (type, value): the formatter may respell a number or string literal with the same value (existing tests fix this behaviour)",
			"behaviour = recorded Platform trace + result class + message with source positions removed, under fixed inputs/seed and a yield budget",
		},
		NeedsEvy: true,
		NumCases: func(tier string) int {
			if tier == "thorough" {
				return 60000
			}
			return 2400
		},
		Setup: func(c *core.Ctx) error {
			p, err := newPool(c.Repo)
			c.State = p
			return err
		},
		Run:       c06Run,
		MinEvents: []string{"sources", "token_sequences_compared", "trees_compared", "behaviours_compared"},
	})
}

func c06Run(c *core.Ctx, i int) {
	p := c.State.(*srcPool)
	src, origin := pickSource(c, p, i)
	if i%20 == 7 {
		// unusual characters (NUL, other control characters, BOM, line separators, lone CR) at a
		// line end, inside a comment or at the end of the text: accepted or not, nothing may vanish
		src, origin = c06Unusual(c, src), "unusual-characters"
	}
	c.Cover("origin", origin)
	c06One(c, src, origin, i)
}

var c06Chars = []string{"\x00", "\x00", "\x01", "\x7f", "\v", "\f", "\r", "\u00a0", "\u0085", "\u2028", "\ufeff", "\x1a", "\x00\x00"}

func c06Unusual(c *core.Ctx, src string) string {
	r := c.Rng
	ch := c06Chars[r.Intn(len(c06Chars))]
	lines := strings.SplitAfter(src, "\n")
	k := r.Intn(len(lines))
	line := strings.TrimSuffix(lines[k], "\n")
	nl := lines[k][len(line):]
	switch r.Intn(5) {
	case 0: // between the statement and the line end
		lines[k] = line + ch + nl
	case 1: // inside a trailing comment
		if strings.Contains(line, "\"") || strings.TrimSpace(line) == "" || strings.HasSuffix(strings.TrimSpace(line), "[") || strings.HasSuffix(strings.TrimSpace(line), "{") {
			lines[k] = line + nl + "// a" + ch + "b\n"
		} else {
			lines[k] = line + " // a" + ch + "b" + nl
		}
	case 2: // on a line of its own, followed by more program text
		lines[k] = line + nl + ch + "\n"
	case 3: // at the very end
		return src + ch
	default: // in front of a statement
		lines[k] = ch + line + nl
	}
	return strings.Join(lines, "")
}

// pickSource draws from the corpus pool or (when available) from the generator.
func pickSource(c *core.Ctx, p *srcPool, i int) (string, string) {
	if genSource != nil && i%3 == 2 {
		if src, ok := genSource(c, i); ok {
			return src, "generated"
		}
	}
	return p.pick(c, i)
}

// genSource is set by the generator-backed checks once the generator exists.
var genSource func(c *core.Ctx, i int) (string, bool)

func c06One(c *core.Ctx, src, origin string, i int) {
	c.Event("sources", 1)
	prog, f, ok := formatGuard(c, src)
	if !ok {
		return
	}
	if f != src {
		c.Distinct(src)
	}
	// 0. the tokens the comparison below relies on tile the whole text (nothing between or after them)
	if !checkTokens(c, src) || !checkTokens(c, f) {
		return
	}
	c.Event("token_tilings_checked", 2)
	// 1. token sequence
	a, b := sigTokens(src), sigTokens(f)
	c.Event("token_sequences_compared", 1)
	c.Event("tokens_compared", len(a))
	n := len(a)
	if len(b) < n {
		n = len(b)
	}
	diff := -1
	for k := 0; k < n; k++ {
		if a[k] != b[k] {
			diff = k
			break
		}
	}
	if diff < 0 && len(a) != len(b) {
		diff = n
	}
	if diff >= 0 {
		c.Violation("tokens-changed", fmt.Sprintf("non-whitespace token sequence differs at token %d: source …%s… formatted …%s…", diff, sigString(a, diff), sigString(b, diff)), src, map[string]any{"formatted": f})
		return
	}
	// 2. accepted again
	c.Journal(f)
	prog2, err, panicked := parseGuard(c, f)
	if panicked {
		return
	}
	if err != nil {
		c.Violation("formatted-rejected", "formatted text is rejected: "+firstN(err.Error(), 300), src, map[string]any{"formatted": f})
		return
	}
	// 3. same tree
	c.Event("trees_compared", 1)
	d1, d2 := mon.Dump(prog), mon.Dump(prog2)
	if d1 != d2 {
		c.Violation("tree-changed", "syntax tree of formatted text differs: "+firstDiff(d1, d2), src, map[string]any{"formatted": f})
		return
	}
	// 4. same behaviour
	if f != src {
		s1, o1 := runSig(src, 3000)
		s2, o2 := runSig(f, 3000)
		c.Event("behaviours_compared", 1)
		c.Event("platform_events_compared", len(o1.Events))
		if o1.Rec.BudgetHit || o2.Rec.BudgetHit {
			// blank lines and comments are evaluation steps too, so a yield budget cuts the two runs
			// at different points: compare the common prefix of the effects only
			c.Event("behaviours_compared_prefix_only", 1)
			e1, e2 := dropTestSummary(o1.Events), dropTestSummary(o2.Events)
			n := len(e1)
			if len(e2) < n {
				n = len(e2)
			}
			s1, s2 = stripPos(strings.Join(e1[:n], "\n")), stripPos(strings.Join(e2[:n], "\n"))
		}
		if s1 != s2 {
			c.Violation("behaviour-changed", "running the formatted text differs: "+firstDiff(s1, s2), src, map[string]any{"formatted": f})
		}
	} else {
		c.Event("behaviours_compared", 1) // identical text: trivially identical behaviour
	}
	// 5. CLI agrees with the library (sample)
	if c.EvyBin != "" && i%40 == 0 {
		out, errOut, code, err := evyCmd(c, src, "fmt")
		c.Event("cli_fmt_runs", 1)
		if err != nil {
			c.Inconclusive("evy fmt: " + err.Error())
		} else if code != 0 || out != f {
			c.Violation("cli-differs", fmt.Sprintf("evy fmt (exit %d, stderr %q) output differs from Program.Format: %s", code, firstN(errOut, 200), firstDiff(f, out)), src, nil)
		}
	}
	if i < 3 {
		c.Sample(map[string]any{"origin": origin, "source": firstN(src, 300), "formatted": firstN(f, 300)})
	}
	_ = plat.Builtins
	var _ *parser.Program
}

func firstDiff(a, b string) string {
	n := len(a)
	if len(b) < n {
		n = len(b)
	}
	k := 0
	for k < n && a[k] == b[k] {
		k++
	}
	lo := k - 60
	if lo < 0 {
		lo = 0
	}
	ha, hb := k+80, k+80
	if ha > len(a) {
		ha = len(a)
	}
	if hb > len(b) {
		hb = len(b)
	}
	return fmt.Sprintf("at byte %d: %q vs %q", k, strings.ToValidUTF8(a[lo:ha], "?"), strings.ToValidUTF8(b[lo:hb], "?"))
}

// dropTestSummary removes the test summary that Eval prints at the very end of a run.
func dropTestSummary(ev []string) []string {
	if n := len(ev); n > 0 && (strings.HasPrefix(ev[n-1], "print \"✅") || strings.HasPrefix(ev[n-1], "print \"❌")) {
		return ev[:n-1]
	}
	return ev
}
