package checks

import (
	"fmt"
	"math/rand"
	"strings"

	"verif/gen"
)

// Targeted program families shared by several checks.

// anyEqProgram: any variables holding values of different dynamic types (same top-level kind,
// equal lengths, common keys), compared with == and != directly and nested inside []any / {}any.
func anyEqProgram(r *rand.Rand) *gen.Program {
	tArrB := gen.ArrOf(gen.TBool)
	tMapS := gen.MapOf(gen.TStr)
	tMapA := gen.MapOf(gen.TAny)
	vals := []gen.Expr{
		arrLit(tArrN, nl(1), nl(2)),
		arrLit(tArrS, sl("a"), sl("b")),
		arrLit(tArrB, gen.BoolLit{V: true}, gen.BoolLit{V: false}),
		arrLit(tArrAN, arrLit(tArrN, nl(1)), arrLit(tArrN, nl(2))),
		arrLit(tArrN, nl(1), nl(2)),
		arrLit(tArrS, sl("1"), sl("2")),
		vr("qarr", tArrA),
		gen.MapLit{T: tMapN, Keys: []string{"a", "b"}, Vals: []gen.Expr{nl(1), nl(2)}},
		gen.MapLit{T: tMapS, Keys: []string{"a", "b"}, Vals: []gen.Expr{sl("1"), sl("2")}},
		gen.MapLit{T: tMapAN, Keys: []string{"a", "b"}, Vals: []gen.Expr{arrLit(tArrN, nl(1)), arrLit(tArrN, nl(2))}},
		gen.MapLit{T: tMapN, Keys: []string{"b", "a"}, Vals: []gen.Expr{nl(2), nl(1)}},
		vr("qmap", tMapA),
		nl(1), sl("1"), gen.BoolLit{V: true},
	}
	r.Shuffle(len(vals), func(i, j int) { vals[i], vals[j] = vals[j], vals[i] })
	n := 6 + r.Intn(len(vals)-5)
	vals = vals[:n]
	ss := []gen.Stmt{
		gen.Decl{Name: "qarr", T: tArrA, Typed: true}, gen.Assign{Target: vr("qarr", tArrA), Val: arrLit(tArrA, toAny(nl(1)), toAny(nl(2)))},
		gen.Decl{Name: "qmap", T: tMapA, Typed: true}, gen.Assign{Target: vr("qmap", tMapA), Val: gen.MapLit{T: tMapA, Keys: []string{"a", "b"}, Vals: []gen.Expr{toAny(nl(1)), toAny(nl(2))}}},
		printCall(vr("qarr", tArrA), vr("qmap", tMapA)),
	}
	for i, v := range vals {
		name := fmt.Sprintf("aq%d", i)
		ss = append(ss, gen.Decl{Name: name, T: tAny, Typed: true}, gen.Assign{Target: vr(name, tAny), Val: toAny(v)})
	}
	eq := func(op string, l, rr gen.Expr) gen.Expr { return gen.Binary{Op: op, L: l, R: rr, T: tBool} }
	for i := 0; i < n; i++ {
		var row []gen.Expr
		row = append(row, sl(fmt.Sprintf("row%d", i)), call("typeof", tStr, vr(fmt.Sprintf("aq%d", i), tAny)))
		for j := 0; j < n; j++ {
			a, b := vr(fmt.Sprintf("aq%d", i), tAny), vr(fmt.Sprintf("aq%d", j), tAny)
			switch r.Intn(4) {
			case 0:
				row = append(row, eq("==", a, b))
			case 1:
				row = append(row, eq("!=", a, b))
			case 2: // nested in []any
				row = append(row, eq("==", arrLit(tArrA, a), arrLit(tArrA, b)))
			case 3: // nested in {}any
				row = append(row, eq("!=", gen.MapLit{T: tMapA, Keys: []string{"k"}, Vals: []gen.Expr{a}}, gen.MapLit{T: tMapA, Keys: []string{"k"}, Vals: []gen.Expr{b}}))
			}
		}
		ss = append(ss, printCall(row...))
	}
	return &gen.Program{Stmts: ss}
}

// returnPathsSource: a typed function whose body ends in an if / else-if / else chain (possibly
// nested); every branch returns unless listed in drop. Calls take every branch and use the result.
// ok reports whether every path returns (the parser must accept exactly those).
func returnPathsSource(r *rand.Rand, elseIfs int, drop map[int]bool, retType string) (src string, ok bool) {
	val := func(k int) string {
		if retType == "num" {
			return fmt.Sprint(100 + k)
		}
		return fmt.Sprintf("\"r%d\"", k)
	}
	var b strings.Builder
	fmt.Fprintf(&b, "func pick:%s n:num\n", retType)
	branch := func(k int, ind string) {
		if drop[k] {
			fmt.Fprintf(&b, "%sprint \"branch %d has no return\"\n", ind, k)
		} else {
			fmt.Fprintf(&b, "%sreturn %s\n", ind, val(k))
		}
	}
	b.WriteString("    if n < 0\n")
	branch(0, "        ")
	for k := 1; k <= elseIfs; k++ {
		fmt.Fprintf(&b, "    else if n < %d\n", k*10)
		branch(k, "        ")
	}
	b.WriteString("    else\n")
	branch(elseIfs+1, "        ")
	b.WriteString("    end\nend\n")
	for k := 0; k <= elseIfs+1; k++ {
		arg := fmt.Sprint(k*10 - 5)
		switch r.Intn(3) {
		case 0:
			fmt.Fprintf(&b, "rpv%d := pick %s\nprint \"got\" rpv%d (typeof rpv%d)\n", k, arg, k, k)
		case 1:
			if retType == "num" {
				fmt.Fprintf(&b, "print \"sum\" (pick %s)+1\n", arg)
			} else {
				fmt.Fprintf(&b, "print \"cat\" (pick %s)+\"!\"\n", arg)
			}
		case 2:
			fmt.Fprintf(&b, "rpw%d:[]%s\nrpw%d = [(pick %s)] + rpw%d\nprint rpw%d (len rpw%d)\n", k, retType, k, arg, k, k, k)
		}
	}
	return b.String(), len(drop) == 0
}
