package checks

import (
	"fmt"
	"math/rand"
	"strings"

	"verif/gen"
)

// Targeted program families shared by several checks.

// anyEqProgram: any variables holding values of different dynamic types (same top-level kind,
// equal lengths, common keys), compared with == and != directly and nested inside []any / {}any.
func anyEqProgram(r *rand.Rand) *gen.Program {
	tArrB := gen.ArrOf(gen.TBool)
	tMapS := gen.MapOf(gen.TStr)
	tMapA := gen.MapOf(gen.TAny)
	vals := []gen.Expr{
		arrLit(tArrN, nl(1), nl(2)),
		arrLit(tArrS, sl("a"), sl("b")),
		arrLit(tArrB, gen.BoolLit{V: true}, gen.BoolLit{V: false}),
		arrLit(tArrAN, arrLit(tArrN, nl(1)), arrLit(tArrN, nl(2))),
		arrLit(tArrN, nl(1), nl(2)),
		arrLit(tArrS, sl("1"), sl("2")),
		vr("qarr", tArrA),
		gen.MapLit{T: tMapN, Keys: []string{"a", "b"}, Vals: []gen.Expr{nl(1), nl(2)}},
		gen.MapLit{T: tMapS, Keys: []string{"a", "b"}, Vals: []gen.Expr{sl("1"), sl("2")}},
		gen.MapLit{T: tMapAN, Keys: []string{"a", "b"}, Vals: []gen.Expr{arrLit(tArrN, nl(1)), arrLit(tArrN, nl(2))}},
		gen.MapLit{T: tMapN, Keys: []string{"b", "a"}, Vals: []gen.Expr{nl(2), nl(1)}},
		vr("qmap", tMapA),
		nl(1), sl("1"), gen.BoolLit{V: true},
	}
	r.Shuffle(len(vals), func(i, j int) { vals[i], vals[j] = vals[j], vals[i] })
	n := 6 + r.Intn(len(vals)-5)
	vals = vals[:n]
	ss := []gen.Stmt{
		gen.Decl{Name: "qarr", T: tArrA, Typed: true}, gen.Assign{Target: vr("qarr", tArrA), Val: arrLit(tArrA, toAny(nl(1)), toAny(nl(2)))},
		gen.Decl{Name: "qmap", T: tMapA, Typed: true}, gen.Assign{Target: vr("qmap", tMapA), Val: gen.MapLit{T: tMapA, Keys: []string{"a", "b"}, Vals: []gen.Expr{toAny(nl(1)), toAny(nl(2))}}},
		printCall(vr("qarr", tArrA), vr("qmap", tMapA)),
	}
	for i, v := range vals {
		name := fmt.Sprintf("aq%d", i)
		ss = append(ss, gen.Decl{Name: name, T: tAny, Typed: true}, gen.Assign{Target: vr(name, tAny), Val: toAny(v)})
	}
	eq := func(op string, l, rr gen.Expr) gen.Expr { return gen.Binary{Op: op, L: l, R: rr, T: tBool} }
	for i := 0; i < n; i++ {
		var row []gen.Expr
		row = append(row, sl(fmt.Sprintf("row%d", i)), call("typeof", tStr, vr(fmt.Sprintf("aq%d", i), tAny)))
		for j := 0; j < n; j++ {
			a, b := vr(fmt.Sprintf("aq%d", i), tAny), vr(fmt.Sprintf("aq%d", j), tAny)
			switch r.Intn(4) {
			case 0:
				row = append(row, eq("==", a, b))
			case 1:
				row = append(row, eq("!=", a, b))
			case 2: // nested in []any
				row = append(row, eq("==", arrLit(tArrA, a), arrLit(tArrA, b)))
			case 3: // nested in {}any
				row = append(row, eq("!=", gen.MapLit{T: tMapA, Keys: []string{"k"}, Vals: []gen.Expr{a}}, gen.MapLit{T: tMapA, Keys: []string{"k"}, Vals: []gen.Expr{b}}))
			}
		}
		ss = append(ss, printCall(row...))
	}
	return &gen.Program{Stmts: ss}
}

// returnPathsSource: a typed function whose body ends in an if / else-if / else chain (possibly
// nested); every branch returns unless listed in drop. Calls take every branch and use the result.
// ok reports whether every path returns (the parser must accept exactly those).
func returnPathsSource(r *rand.Rand, elseIfs int, drop map[int]bool, retType string) (src string, ok bool) {
	val := func(k int) string {
		if retType == "num" {
			return fmt.Sprint(100 + k)
		}
		return fmt.Sprintf("\"r%d\"", k)
	}
	var b strings.Builder
	fmt.Fprintf(&b, "func pick:%s n:num\n", retType)
	branch := func(k int, ind string) {
		if drop[k] {
			fmt.Fprintf(&b, "%sprint \"branch %d has no return\"\n", ind, k)
		} else {
			fmt.Fprintf(&b, "%sreturn %s\n", ind, val(k))
		}
	}
	b.WriteString("    if n < 0\n")
	branch(0, "        ")
	for k := 1; k <= elseIfs; k++ {
		fmt.Fprintf(&b, "    else if n < %d\n", k*10)
		branch(k, "        ")
	}
	b.WriteString("    else\n")
	branch(elseIfs+1, "        ")
	b.WriteString("    end\nend\n")
	for k := 0; k <= elseIfs+1; k++ {
		arg := fmt.Sprint(k*10 - 5)
		switch r.Intn(3) {
		case 0:
			fmt.Fprintf(&b, "rpv%d := pick %s\nprint \"got\" rpv%d (typeof rpv%d)\n", k, arg, k, k)
		case 1:
			if retType == "num" {
				fmt.Fprintf(&b, "print \"sum\" (pick %s)+1\n", arg)
			} else {
				fmt.Fprintf(&b, "print \"cat\" (pick %s)+\"!\"\n", arg)
			}
		case 2:
			fmt.Fprintf(&b, "rpw%d:[]%s\nrpw%d = [(pick %s)] + rpw%d\nprint rpw%d (len rpw%d)\n", k, retType, k, arg, k, k, k)
		}
	}
	return b.String(), len(drop) == 0
}

// operandOrderProgram: operands that are plain global variables next to calls that assign those
// globals: the value of the left operand is the one read before the call ran.
func operandOrderProgram(r *rand.Rand) *gen.Program {
	n, s, b := vr("gn", tNum), vr("gs", tStr), vr("gb", tBool)
	bin := func(op string, l, rr gen.Expr, t *gen.Type) gen.Expr { return gen.Binary{Op: op, L: l, R: rr, T: t} }
	ss := []gen.Stmt{
		gen.Decl{Name: "gn", T: tNum, Init: nl(float64(1 + r.Intn(3)))},
		gen.Decl{Name: "gs", T: tStr, Init: sl([]string{"a", "m", "é"}[r.Intn(3)])},
		gen.Decl{Name: "gb", T: tBool, Init: gen.BoolLit{V: r.Intn(2) == 0}},
		gen.FuncDef{Name: "next", Ret: tNum, Body: []gen.Stmt{gen.Assign{Target: n, Val: bin("+", n, nl(1), tNum)}, gen.Return{Val: n}}},
		gen.FuncDef{Name: "grow", Ret: tStr, Body: []gen.Stmt{gen.Assign{Target: s, Val: bin("+", s, sl("x"), tStr)}, gen.Return{Val: s}}},
		gen.FuncDef{Name: "flip", Ret: tBool, Body: []gen.Stmt{gen.Assign{Target: b, Val: gen.Unary{Op: "!", X: b}}, gen.Return{Val: b}}},
		gen.FuncDef{Name: "bump", Ret: tNum, Params: []gen.Param{{Name: "by", T: tNum}}, Body: []gen.Stmt{gen.Assign{Target: n, Val: bin("+", n, vr("by", tNum), tNum)}, gen.Return{Val: vr("by", tNum)}}},
	}
	next, grow, flip := call("next", tNum), call("grow", tStr), call("flip", tBool)
	exprs := []gen.Expr{
		bin("+", n, next, tNum), bin("+", next, n, tNum), bin("-", n, next, tNum), bin("*", n, bin("+", next, n, tNum), tNum),
		bin("+", bin("*", n, nl(10), tNum), next, tNum), bin("<", n, next, tBool), bin("==", n, next, tBool), bin("%", next, n, tNum),
		bin("+", s, grow, tStr), bin("+", grow, s, tStr), bin("<", s, grow, tBool), bin("==", s, grow, tBool), bin("!=", grow, s, tBool),
		bin("==", b, flip, tBool), bin("!=", flip, b, tBool), bin("and", b, flip, tBool), bin("or", b, flip, tBool), bin("or", flip, b, tBool),
		arrLit(tArrN, n, next, n), gen.MapLit{T: tMapN, Keys: []string{"a", "b", "c"}, Vals: []gen.Expr{n, next, n}},
		bin("+", n, call("bump", tNum, n), tNum), bin("+", call("bump", tNum, bin("+", n, nl(1), tNum)), n, tNum),
		gen.Index{X: arrLit(tArrN, n, next, n), I: bin("-", next, n, tNum), T: tNum},
		bin("+", arrLit(tArrS, s), arrLit(tArrS, grow, s), tArrS),
	}
	r.Shuffle(len(exprs), func(i, j int) { exprs[i], exprs[j] = exprs[j], exprs[i] })
	for k, e := range exprs[:8+r.Intn(len(exprs)-8)] {
		switch r.Intn(3) {
		case 0:
			ss = append(ss, printCall(sl(fmt.Sprintf("e%d", k)), e, n, s, b))
		case 1:
			name := fmt.Sprintf("oo%d", k)
			ss = append(ss, gen.Decl{Name: name, T: e.Ty(), Init: e}, printCall(vr(name, e.Ty()), n, s, b))
		case 2: // as arguments: earlier arguments keep the value they had
			ss = append(ss, printCall(n, s, b, e, n, s, b))
		}
	}
	return &gen.Program{Stmts: ss}
}

// shadowProgram: every kind of block declares a variable that shadows an outer variable of a
// DIFFERENT type, uses it, and ends; afterwards the outer variable is used with its own type.
// sel chooses which branch of the if chains is taken.
func shadowProgram(r *rand.Rand) *gen.Program {
	v, w := vr("v", tNum), vr("w", tStr)
	bin := func(op string, l, rr gen.Expr, t *gen.Type) gen.Expr { return gen.Binary{Op: op, L: l, R: rr, T: t} }
	after := func(tag string) gen.Stmt {
		return printCall(sl(tag), bin("+", v, nl(1), tNum), bin("+", w, sl("."), tStr), vr("sel", tNum))
	}
	// an inner declaration of name with a type different from the outer one, and a use of it
	inner := func(name string, k int) []gen.Stmt {
		// the outer variable is still the one meant before the declaration line (read and assigned)
		var pre []gen.Stmt
		if name == "v" {
			pre = []gen.Stmt{gen.Assign{Target: v, Val: bin("+", v, nl(1), tNum)}, printCall(sl("before"), bin("*", v, nl(2), tNum))}
		} else {
			pre = []gen.Stmt{gen.Assign{Target: w, Val: bin("+", w, sl("+"), tStr)}, printCall(sl("before"), bin("+", w, sl("?"), tStr))}
		}
		return append(pre, innerDecl(name, k+r.Intn(2)*4)...)
	}
	_ = inner
	return shadowBody(r, v, w, inner, after)
}

func innerDecl(name string, k int) []gen.Stmt {
	{
		switch k % 8 {
		case 4: // typed declarations only
			return []gen.Stmt{gen.Decl{Name: name, T: tArrN, Typed: true}, printCall(sl("inner"), vr(name, tArrN), call("len", tNum, toAny(vr(name, tArrN))))}
		case 5:
			return []gen.Stmt{gen.Decl{Name: name, T: tBool, Typed: true}, printCall(sl("inner"), gen.Unary{Op: "!", X: vr(name, tBool)})}
		case 6:
			return []gen.Stmt{gen.Decl{Name: name, T: tMapN, Typed: true}, gen.Assign{Target: gen.Dot{X: vr(name, tMapN), Key: "k", T: tNum}, Val: nl(6)}, printCall(sl("inner"), vr(name, tMapN))}
		case 7:
			return []gen.Stmt{gen.Decl{Name: name, T: tAny, Typed: true}, printCall(sl("inner"), vr(name, tAny))}
		}
	}
	{
		switch k % 4 {
		case 0:
			return []gen.Stmt{gen.Decl{Name: name, T: tArrN, Init: arrLit(tArrN, nl(7), nl(8))}, printCall(sl("inner"), vr(name, tArrN), call("len", tNum, toAny(vr(name, tArrN))))}
		case 1:
			return []gen.Stmt{gen.Decl{Name: name, T: tBool, Init: gen.BoolLit{V: true}}, printCall(sl("inner"), gen.Unary{Op: "!", X: vr(name, tBool)})}
		case 2:
			return []gen.Stmt{gen.Decl{Name: name, T: tMapN, Init: gen.MapLit{T: tMapN, Keys: []string{"k"}, Vals: []gen.Expr{nl(5)}}}, printCall(sl("inner"), gen.Dot{X: vr(name, tMapN), Key: "k", T: tNum})}
		default:
			return []gen.Stmt{gen.Decl{Name: name, T: tAny, Typed: true}, gen.Assign{Target: vr(name, tAny), Val: toAny(sl("any"))}, printCall(sl("inner"), vr(name, tAny))}
		}
	}
}

func shadowBody(r *rand.Rand, v, w gen.VarRef, inner func(string, int) []gen.Stmt, after func(string) gen.Stmt) *gen.Program {
	bin := func(op string, l, rr gen.Expr, t *gen.Type) gen.Expr { return gen.Binary{Op: op, L: l, R: rr, T: t} }
	cond := func(k int) gen.Expr { return bin("==", vr("sel", tNum), nl(float64(k)), tBool) }
	ss := []gen.Stmt{
		gen.Decl{Name: "v", T: tNum, Init: nl(float64(1 + r.Intn(5)))},
		gen.Decl{Name: "w", T: tStr, Init: sl("outer")},
		gen.Decl{Name: "sel", T: tNum, Init: nl(0)},
		gen.FuncDef{Name: "shadowfn", Ret: tNum, Params: []gen.Param{{Name: "p", T: tNum}}, Body: append(append([]gen.Stmt{}, inner("v", r.Intn(4))...),
			gen.If{Conds: []gen.Expr{bin(">", vr("p", tNum), nl(0), tBool)}, Blocks: [][]gen.Stmt{append(inner("w", r.Intn(4)), gen.Return{Val: bin("+", vr("p", tNum), nl(1), tNum)})}, Else: append(inner("w", r.Intn(4)), gen.Return{Val: nl(0)})})},
	}
	nsel := 4
	body := []gen.Stmt{
		// if / else if / else if / else: one branch taken per round
		gen.If{Conds: []gen.Expr{cond(0), cond(1), cond(2)}, Blocks: [][]gen.Stmt{inner("v", r.Intn(4)), inner("w", r.Intn(4)), inner("v", r.Intn(4))}, Else: inner("v", r.Intn(4))},
		after("after-if"),
		// if / else without else-if
		gen.If{Conds: []gen.Expr{bin("<", vr("sel", tNum), nl(2), tBool)}, Blocks: [][]gen.Stmt{inner("w", r.Intn(4))}, Else: append(inner("w", r.Intn(4)), inner("v", r.Intn(4))...)},
		after("after-if-else"),
		// nested: else inside else, loop inside else
		gen.If{Conds: []gen.Expr{cond(9)}, Blocks: [][]gen.Stmt{{printCall(sl("never"))}}, Else: []gen.Stmt{
			gen.If{Conds: []gen.Expr{cond(1)}, Blocks: [][]gen.Stmt{inner("v", r.Intn(4))}, Else: inner("w", r.Intn(4))},
			after("inside-else"),
			gen.For{Args: []gen.Expr{nl(2)}, Body: inner("v", r.Intn(4))},
			after("inside-else-after-for"),
		}},
		after("after-nested"),
		gen.For{Var: "fi", VarT: tNum, Args: []gen.Expr{nl(2)}, Body: append(inner("w", r.Intn(4)), printCall(vr("fi", tNum)))},
		after("after-for"),
		gen.For{Var: "el", VarT: tStr, Over: arrLit(tArrS, sl("x"), sl("y")), Body: append(append(inner("v", r.Intn(4)), printCall(vr("el", tStr))), gen.If{Conds: []gen.Expr{cond(3)}, Blocks: [][]gen.Stmt{{gen.Break{}}}})},
		after("after-for-array"),
		gen.Decl{Name: "wk", T: tNum, Init: nl(0)},
		gen.While{Cond: bin("<", vr("wk", tNum), nl(2), tBool), Body: append(inner("v", r.Intn(4)), gen.Assign{Target: vr("wk", tNum), Val: bin("+", vr("wk", tNum), nl(1), tNum)},
			gen.If{Conds: []gen.Expr{cond(2)}, Blocks: [][]gen.Stmt{append(inner("w", r.Intn(4)), gen.Break{})}})},
		after("after-while"),
		printCall(sl("fn"), call("shadowfn", tNum, bin("-", vr("sel", tNum), nl(1), tNum))),
		after("after-fn"),
	}
	// the rounds are unrolled (a loop body would itself be a scope that hides the effect)
	for k := 0; k < nsel; k++ {
		ss = append(ss, gen.Assign{Target: vr("sel", tNum), Val: nl(float64(k))})
		if k == 0 {
			ss = append(ss, body...)
		} else {
			ss = append(ss, renameDecl(body, fmt.Sprintf("_%d", k))...)
		}
	}
	return &gen.Program{Stmts: ss}
}

// renameDecl renames the top-level declaration "wk" of a statement list (a second copy of the list in
// the same scope must not redeclare it).
func renameDecl(body []gen.Stmt, suffix string) []gen.Stmt {
	out := make([]gen.Stmt, 0, len(body))
	for _, s := range body {
		switch s := s.(type) {
		case gen.Decl:
			if s.Name == "wk" {
				out = append(out, gen.Assign{Target: vr("wk", tNum), Val: nl(0)})
				continue
			}
			out = append(out, s)
		default:
			out = append(out, s)
		}
	}
	return out
}

// loopStateProgram: several activations of the same loop statement alive at once (recursion from
// inside the loop body, return from inside a loop after a recursive call), and loops left by break
// followed by uses of outer variables named like the loop variable and by new global declarations
// that functions use.
func loopStateProgram(r *rand.Rand) *gen.Program {
	bin := func(op string, l, rr gen.Expr, t *gen.Type) gen.Expr { return gen.Binary{Op: op, L: l, R: rr, T: t} }
	num := func(n string) gen.VarRef { return vr(n, tNum) }
	d := float64(2 + r.Intn(2))
	brk := float64(1 + r.Intn(3))
	ss := []gen.Stmt{
		gen.FuncDef{Name: "walk", Ret: gen.TNone, Params: []gen.Param{{Name: "depth", T: tNum}}, Body: []gen.Stmt{
			gen.For{Var: "i", VarT: tNum, Args: []gen.Expr{num("depth")}, Body: []gen.Stmt{
				printCall(sl("walk"), num("depth"), num("i")),
				gen.CallStmt{C: call("walk", gen.TNone, bin("-", num("depth"), nl(1), tNum))},
				printCall(sl("back"), num("depth"), num("i")),
			}},
		}},
		gen.FuncDef{Name: "sum", Ret: tNum, Params: []gen.Param{{Name: "n", T: tNum}}, Body: []gen.Stmt{
			gen.For{Var: "i", VarT: tNum, Args: []gen.Expr{num("n"), nl(0), nl(-1)}, Body: []gen.Stmt{
				gen.If{Conds: []gen.Expr{bin("<=", num("i"), nl(2), tBool)}, Blocks: [][]gen.Stmt{{gen.Return{Val: bin("+", num("i"), call("sum", tNum, bin("-", num("n"), nl(1), tNum)), tNum)}}}},
				printCall(sl("sum"), num("n"), num("i")),
			}},
			gen.Return{Val: nl(0)},
		}},
		gen.FuncDef{Name: "each", Ret: gen.TNone, Params: []gen.Param{{Name: "a", T: tArrN}}, Body: []gen.Stmt{
			gen.For{Var: "x", VarT: tNum, Over: vr("a", tArrN), Body: []gen.Stmt{
				printCall(sl("each"), num("x")),
				gen.If{Conds: []gen.Expr{bin(">", call("len", tNum, toAny(vr("a", tArrN))), nl(1), tBool)}, Blocks: [][]gen.Stmt{{gen.CallStmt{C: call("each", gen.TNone, gen.Slice{X: vr("a", tArrN), Lo: nl(1)})}}}},
				printCall(sl("each back"), num("x")),
			}},
		}},
		gen.FuncDef{Name: "chars", Ret: gen.TNone, Params: []gen.Param{{Name: "s", T: tStr}}, Body: []gen.Stmt{
			gen.For{Var: "ch", VarT: tStr, Over: vr("s", tStr), Body: []gen.Stmt{
				printCall(sl("chars"), vr("ch", tStr), gen.Index{X: vr("ch", tStr), I: nl(0), T: tStr}, gen.Slice{X: vr("ch", tStr), Hi: nl(1)}, call("len", tNum, toAny(vr("ch", tStr)))),
				gen.If{Conds: []gen.Expr{bin(">", call("len", tNum, toAny(vr("s", tStr))), nl(1), tBool)}, Blocks: [][]gen.Stmt{{gen.CallStmt{C: call("chars", gen.TNone, gen.Slice{X: vr("s", tStr), Lo: nl(1)})}}}},
			}},
		}},
		gen.CallStmt{C: call("walk", gen.TNone, nl(d))},
		printCall(sl("sum"), call("sum", tNum, nl(d+2))),
		gen.CallStmt{C: call("each", gen.TNone, arrLit(tArrN, nl(1), nl(2), nl(3)))},
		gen.CallStmt{C: call("chars", gen.TNone, sl("aé🌍"))},
		gen.CallStmt{C: call("chars", gen.TNone, sl("x\ufffdy\ufffd"))},
		// loops left by break
		gen.Decl{Name: "i", T: tNum, Init: nl(10)},
		gen.Decl{Name: "k", T: tStr, Init: sl("outer k")},
		gen.For{Var: "i", VarT: tNum, Args: []gen.Expr{nl(5)}, Body: []gen.Stmt{
			gen.Decl{Name: "tmp", T: tNum, Init: bin("*", num("i"), nl(2), tNum)},
			gen.If{Conds: []gen.Expr{bin("==", num("i"), nl(brk), tBool)}, Blocks: [][]gen.Stmt{{gen.Break{}}}},
			printCall(sl("in loop"), num("i"), num("tmp")),
		}},
		printCall(sl("after break"), num("i"), vr("k", tStr)),
		gen.Assign{Target: num("i"), Val: bin("+", num("i"), nl(1), tNum)},
		gen.For{Var: "k", VarT: tStr, Over: sl("abc"), Body: []gen.Stmt{
			gen.If{Conds: []gen.Expr{bin("==", vr("k", tStr), sl("b"), tBool)}, Blocks: [][]gen.Stmt{{gen.Break{}}}},
		}},
		printCall(sl("after 2nd break"), num("i"), vr("k", tStr)),
		gen.For{Var: "k", VarT: tStr, Over: gen.MapLit{T: tMapN, Keys: []string{"p", "q"}, Vals: []gen.Expr{nl(1), nl(2)}}, Body: []gen.Stmt{printCall(sl("map loop"), vr("k", tStr)), gen.Break{}}},
		gen.While{Cond: gen.BoolLit{V: true}, Body: []gen.Stmt{gen.Decl{Name: "i", T: tStr, Init: sl("while-local")}, printCall(vr("i", tStr)), gen.Break{}}},
		gen.Decl{Name: "late", T: tStr, Init: sl("declared after loops left by break")},
		gen.FuncDef{Name: "uselate", Ret: gen.TNone, Body: []gen.Stmt{printCall(vr("late", tStr), num("i"), vr("k", tStr))}},
		gen.CallStmt{C: call("uselate", gen.TNone)},
		gen.Assign{Target: vr("late", tStr), Val: bin("+", vr("late", tStr), sl("!"), tStr)},
		gen.CallStmt{C: call("uselate", gen.TNone)},
	}
	return &gen.Program{Stmts: ss}
}
