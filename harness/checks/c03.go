package checks

import (
	"fmt"
	"regexp"
	"runtime/debug"
	"strconv"
	"strings"
	"time"
	"unicode"
	"unicode/utf8"

	"evylang.dev/evy/pkg/lexer"
	"evylang.dev/evy/pkg/parser"

	"verif/core"
	"verif/corpus"
	"verif/mut"
	"verif/plat"
)

// C03 — parsing is total and every diagnostic is located.

type c03State struct {
	files []corpus.File
	toks  [][]mut.Tok
}

func c03NumCases(tier string) int {
	if tier == "thorough" {
		return 12000 + len(c03Long)
	}
	return 640 + len(c03Long)
}

func init() {
	core.Register(&core.Check{
		ID:    "C03",
		Level: "exploration",
		Rule: "each case is a batch of inputs derived from one corpus/doc program: all token prefixes (sampled in quick), 1-4 token edits from a dictionary, splices, byte noise and located probes; " +
			"an input is non-trivial if it differs from its base; distinct = distinct (edit kinds, normalised error-message multiset) shapes",
		Assumptions: []string{
			"inputs are capped at 64 KiB; a NUL character is judged like any other (docs/spec.md: not allowed, so it must be reported, and the tokens must still tile the whole text)",
			"'points at the right character' is judged only for seeded single mistakes with a known culprit position",
			"termination is judged by CPU time first (30 s of process CPU time without a lexer or parser call returning, normal cost of a call < 50 ms) and by a per-case wall-clock watchdog second (120 s for a batch that normally takes < 1 s, retried alone with 300 s); after three confirmed hangs the remaining cases are not explored",
		},
		NumCases: c03NumCases,
		StallCPU: 30 * time.Second,
		Setup: func(c *core.Ctx) error {
			st := &c03State{}
			st.files = corpus.Load(c.Repo)
			for _, d := range corpus.DocExamples(c.Repo) {
				st.files = append(st.files, corpus.File{Path: fmt.Sprintf("%s:%d", d.Doc, d.Line), Src: d.Src})
			}
			if len(st.files) == 0 {
				return fmt.Errorf("no corpus under %s", c.Repo)
			}
			for _, f := range st.files {
				st.toks = append(st.toks, mut.Tokenize(f.Src))
			}
			c.State = st
			return nil
		},
		Run:       c03Run,
		MinEvents: []string{"inputs_parsed", "tokens_checked", "errors_checked"},
	})
}

var errLocRe = regexp.MustCompile(`^line (\d+) column (\d+): (.+)$`)
var quotedRe = regexp.MustCompile(`"[^"]*"|\d+`)

// parseGuard parses src in-process, converting a Go panic into a violation.
func parseGuard(c *core.Ctx, src string) (prog *parser.Program, err error, panicked bool) {
	c.Journal(src)
	defer func() {
		if p := recover(); p != nil {
			site := plat.PanicSite()
			panicked = true
			msg := fmt.Sprint(p)
			if len(msg) > 300 {
				msg = msg[:300]
			}
			c.Violation("parser-panic@"+site, "parser.Parse panicked: "+msg, src, nil)
		}
	}()
	prog, err = parser.Parse(src, plat.Builtins())
	return prog, err, false
}

// checkParseResult applies the closed-form oracle of C03 to one input.
func checkParseResult(c *core.Ctx, src string, kinds string) (accepted bool) {
	c.Event("inputs_parsed", 1)
	if !checkTokens(c, src) {
		return false
	}
	prog, err, panicked := parseGuard(c, src)
	c.Progress()
	if panicked {
		return false
	}
	if (prog == nil) == (err == nil) {
		c.Violation("both-or-neither", fmt.Sprintf("Parse returned prog==nil:%v err==nil:%v", prog == nil, err == nil), src, nil)
		return false
	}
	if err == nil {
		c.Event("accepted", 1)
		c.Distinct(kinds + "|accepted")
		return true
	}
	perrs, ok := err.(parser.Errors)
	if !ok || len(perrs) == 0 {
		c.Violation("error-type", fmt.Sprintf("Parse error is %T with no entries", err), src, nil)
		return false
	}
	lines := strings.Split(src, "\n")
	lineRunes := make([]int, len(lines)) // per-line lengths once: an input can carry 65k diagnostics on one 65k-character line
	for k, ln := range lines {
		lineRunes[k] = utf8.RuneCountInString(ln)
	}
	var shapes []string
	for _, e := range perrs {
		c.Event("errors_checked", 1)
		c.Progress()
		txt := e.Error()
		first := strings.SplitN(txt, "\n", 2)[0]
		m := errLocRe.FindStringSubmatch(first)
		if m == nil {
			c.Violation("error-format", "diagnostic is not 'line L column C: message': "+strconv.Quote(first), src, nil)
			continue
		}
		l, _ := strconv.Atoi(m[1])
		col, _ := strconv.Atoi(m[2])
		if l < 1 || l > len(lines) || col < 1 || col > lineRunes[l-1]+1 {
			c.Violation("error-position", fmt.Sprintf("diagnostic %q points outside the input (%d lines, that line has %d characters)", first, len(lines), lineLen(lines, l)), src, nil)
		}
		shapes = append(shapes, quotedRe.ReplaceAllString(m[3], "_"))
	}
	if len(shapes) > 3 {
		shapes = shapes[:3]
	}
	c.Distinct(kinds + "|" + strings.Join(shapes, ";"))
	return false
}

func lineLen(lines []string, l int) int {
	if l >= 1 && l <= len(lines) {
		return len([]rune(lines[l-1]))
	}
	return -1
}

var fixedTok = map[lexer.TokenType]string{
	lexer.DECLARE: ":=", lexer.ASSIGN: "=", lexer.PLUS: "+", lexer.MINUS: "-", lexer.BANG: "!", lexer.ASTERISK: "*",
	lexer.SLASH: "/", lexer.PERCENT: "%", lexer.EQ: "==", lexer.NOT_EQ: "!=", lexer.LT: "<", lexer.GT: ">", lexer.LTEQ: "<=",
	lexer.GTEQ: ">=", lexer.LPAREN: "(", lexer.RPAREN: ")", lexer.LBRACKET: "[", lexer.RBRACKET: "]", lexer.LCURLY: "{",
	lexer.RCURLY: "}", lexer.COLON: ":", lexer.NL: "\n", lexer.DOT: ".", lexer.DOT3: "...", lexer.NUM: "num",
	lexer.STRING: "string", lexer.BOOL: "bool", lexer.ANY: "any", lexer.TRUE: "true", lexer.FALSE: "false", lexer.AND: "and",
	lexer.OR: "or", lexer.IF: "if", lexer.ELSE: "else", lexer.FUNC: "func", lexer.RETURN: "return", lexer.ON: "on",
	lexer.FOR: "for", lexer.RANGE: "range", lexer.WHILE: "while", lexer.BREAK: "break", lexer.END: "end", lexer.PKG: "pkg",
	lexer.IMPORT: "import",
}

// checkTokens lexes src and checks every token's position and type against the text.
func checkTokens(c *core.Ctx, src string) (ok bool) {
	c.Progress()
	c.Journal(src)
	defer func() {
		if p := recover(); p != nil {
			c.Violation("lexer-panic@"+plat.PanicSite(), "lexer panicked: "+fmt.Sprint(p), src, nil)
			ok = false
		}
	}()
	runes := []rune(src)
	l := lexer.New(src)
	var toks []*lexer.Token
	for {
		t := l.Next()
		toks = append(toks, t)
		if t.Type == lexer.EOF {
			break
		}
		if len(toks) > len(runes)+2 {
			c.Violation("lexer-no-progress", "lexer produced more tokens than input characters", src, nil)
			return false
		}
	}
	line, col, pos := 1, 1, 0
	bad := func(t *lexer.Token, why string) bool {
		c.Violation("token-"+strings.SplitN(why, ":", 2)[0], fmt.Sprintf("token %v at offset %d line %d col %d: %s", t, t.Offset, t.Line, t.Col, why), src, nil)
		return false
	}
	for i, t := range toks {
		c.Event("tokens_checked", 1)
		if t.Offset < pos || t.Offset > len(runes) {
			return bad(t, "offset: out of order or out of range")
		}
		if t.Offset != pos {
			return bad(t, fmt.Sprintf("gap: characters %d..%d belong to no token", pos, t.Offset))
		}
		if t.Line != line || t.Col != col {
			return bad(t, fmt.Sprintf("position: recomputed line %d col %d", line, col))
		}
		if t.Type == lexer.EOF {
			if t.Offset != len(runes) {
				return bad(t, "eof: EOF before the end of the input")
			}
			break
		}
		end := toks[i+1].Offset
		if end <= t.Offset || end > len(runes) {
			return bad(t, "extent: empty or overlong token")
		}
		text := string(runes[t.Offset:end])
		switch t.Type {
		case lexer.IDENT:
			if text != t.Literal || !(unicode.IsLetter(runes[t.Offset]) || runes[t.Offset] == '_') {
				return bad(t, "type: IDENT literal/text mismatch "+strconv.Quote(text))
			}
			if _, kw := fixedKeyword[text]; kw {
				return bad(t, "type: keyword lexed as IDENT")
			}
		case lexer.NUM_LIT:
			if text != t.Literal || text[0] < '0' || text[0] > '9' {
				return bad(t, "type: NUM_LIT mismatch "+strconv.Quote(text))
			}
		case lexer.STRING_LIT:
			u, err := strconv.Unquote(text)
			if err != nil || u != t.Literal {
				return bad(t, "type: STRING_LIT text does not unquote to literal "+strconv.Quote(text))
			}
		case lexer.COMMENT:
			if text != t.Literal || !strings.HasPrefix(text, "//") || strings.Contains(text, "\n") {
				return bad(t, "type: COMMENT mismatch "+strconv.Quote(text))
			}
		case lexer.WS:
			if strings.Trim(text, " \t\r") != "" || text[0] == '\r' {
				return bad(t, "type: WS covers non-whitespace "+strconv.Quote(text))
			}
		case lexer.ILLEGAL:
			if t.Literal != "invalid string" && text != t.Literal {
				return bad(t, "type: ILLEGAL literal/text mismatch "+strconv.Quote(text))
			}
			if t.Literal == "invalid string" && text[0] != '"' {
				return bad(t, "type: invalid string not at a quote")
			}
		default:
			want, known := fixedTok[t.Type]
			if !known || want != text {
				return bad(t, fmt.Sprintf("type: %v does not match text %q", t.Type, text))
			}
		}
		for _, r := range runes[t.Offset:end] {
			if r == '\n' {
				line++
				col = 1
			} else {
				col++
			}
		}
		pos = end
	}
	return true
}

var fixedKeyword = func() map[string]bool {
	m := map[string]bool{}
	for tt, s := range fixedTok {
		if tt >= lexer.NUM && unicode.IsLetter(rune(s[0])) {
			m[s] = true
		}
	}
	return m
}()

func kindsString(kinds []int) string {
	var b strings.Builder
	for _, k := range kinds {
		b.WriteString(mut.KindNames[k][:2])
	}
	return b.String()
}

// c03Long: inputs made of one piece repeated many times (long runs and deep nesting); each is a case of
// its own because a stack overflow kills the worker (which is how it is observed).
var c03Long = []struct {
	name, pre, piece, post string
	n                      int
}{
	{"parens", "x := ", "(", "1", 120000}, {"parens-closed", "x := ", "(", "", 120000}, {"brackets", "x := ", "[", "", 120000}, {"index-chain", "x := a", "[0]", "\n", 120000},
	{"map-nest", "x := ", "{a:", "", 120000}, {"unary-minus", "x := ", "-", "1\n", 120000}, {"unary-not", "x := ", "!", "true\n", 120000}, {"binary-chain", "x := 1", "+1", "\n", 120000},
	{"carriage-returns", "x := 1", "\r", "\nprint x +\n", 600000}, {"carriage-returns-after-blank", "x := 1 ", "\r", "\n", 600000}, {"blanks", "x := 1", " ", "\n", 600000}, {"newlines", "x := 1", "\n", "", 300000},
	{"if-nest", "", "if true\n", "print 1\n", 120000}, {"while-nest", "", "while true\n", "", 120000}, {"for-nest", "", "for range 1\n", "", 120000}, {"else-if-chain", "if true\nprint 1\n", "else if true\nprint 2\n", "end\n", 40000},
	{"illegal-then-func", "", "\x01", "\nfunc \x02", 63}, {"illegal-then-func-64", "", "\x01", "\nfunc \x02 a:num\n", 64}, {"illegal-many-then-func", "", "#", " func f a\nend\n", 300}, {"illegal-lines-then-on", "", "$\n", "on key k:string $\nend\n", 200},
	{"string-escapes", "print \"", "\\\\", "\"\n", 300000}, {"long-ident", "", "a", " := 1\n", 600000}, {"long-number", "x := ", "9", "\n", 600000}, {"dot-chain", "x := m", ".k", "\n", 120000}, {"comment-lines", "", "// c\n", "", 200000},
	{"call-nest", "print ", "(len ", "\"a\"", 120000}, {"dots", "x := ", ".", "\n", 200000}, {"colons", "x", ":", "\n", 200000}, {"type-nest", "x:", "[]", "num\n", 120000}, {"assert-chain", "x := a", ".(any)", "\n", 120000},
}

func c03RunLong(c *core.Ctx, k int) {
	l := c03Long[k]
	n := l.n
	switch {
	case c.Tier == "thorough" && n > 1000:
		n = n * 3
	case n >= 200000:
		n = n / 4 // long runs: the quick tier only needs them longer than any buffer
	case n > 1000:
		n = n * 2 / 3
	}
	src := l.pre + strings.Repeat(l.piece, n) + l.post
	// a small stack for these cases: unbounded recursion shows at a depth of ~50 000 instead of
	// ~2 000 000 (where it kills the real binary); bounded recursion needs a fraction of this
	defer debug.SetMaxStack(debug.SetMaxStack(32 << 20))
	c.Cover("long-input", l.name)
	c.Event("long_inputs", 1)
	c.Distinct("long|" + l.name)
	// the journal holds the whole input; a crash of the worker is attributed to this case
	checkParseResult(c, src, "long-"+l.name)
}

func c03Run(c *core.Ctx, i int) {
	if k := i - (c03NumCases(c.Tier) - len(c03Long)); k >= 0 {
		c03RunLong(c, k)
		return
	}
	st := c.State.(*c03State)
	r := c.Rng
	fi := i % len(st.files)
	base := st.files[fi]
	toks := st.toks[fi]
	c.Cover("base", base.Path)
	thorough := c.Tier == "thorough"
	round := i / len(st.files)

	// (0) the base itself
	if round == 0 {
		checkParseResult(c, base.Src, "base")
	}
	if i == 0 {
		// one small program per kind of diagnostic, with keyword and non-ASCII names where names occur
		for _, src := range c03Diagnostics {
			c.Event("diagnostic_catalogue_inputs", 1)
			checkParseResult(c, src, "diagnostic-catalogue")
		}
	}
	// (1) prefixes by token: all of them in the first round (thorough), a sample otherwise
	if round == 0 {
		step := 1
		if !thorough && len(toks) > 40 {
			step = len(toks) / 40
		}
		var b strings.Builder
		for k, t := range toks {
			b.WriteString(t.Text)
			if k%step == 0 {
				c.Event("prefix_inputs", 1)
				checkParseResult(c, b.String(), "prefix")
			}
		}
		// byte prefixes (can cut inside a multi-byte character)
		for k := 0; k < 30 && len(base.Src) > 0; k++ {
			checkParseResult(c, base.Src[:r.Intn(len(base.Src))], "byteprefix")
		}
	}
	// (2) token edits
	nmut := 180
	for k := 0; k < nmut; k++ {
		n := 1 + r.Intn(4)
		if r.Intn(2) == 0 {
			n = 1
		}
		m, kinds := mut.Mutate(r, toks, n)
		src := mut.Join(m)
		if len(src) > 1<<16 {
			continue
		}
		c.Event("edit_inputs", 1)
		for _, kd := range kinds {
			c.Cover("edit", mut.KindNames[kd])
		}
		checkParseResult(c, src, kindsString(kinds))
	}
	// (3) splices
	for k := 0; k < 20; k++ {
		other := st.toks[r.Intn(len(st.toks))]
		src := mut.Join(mut.Splice(r, toks, other))
		if len(src) > 1<<16 {
			continue
		}
		c.Event("splice_inputs", 1)
		checkParseResult(c, src, "splice")
	}
	// (4) noise
	for k := 0; k < 12; k++ {
		src := mut.Noise(r, base.Src)
		if len(src) > 1<<16 {
			src = src[:1<<16]
		}
		c.Event("noise_inputs", 1)
		checkParseResult(c, src, "noise")
	}
	// (5) located probes
	for k := 0; k < 12; k++ {
		locatedProbe(c, base.Src, toks)
	}
	if round == 0 && fi < 3 {
		c.Sample(map[string]any{"base": base.Path, "example_mutant": mut.Join(firstMut(c, toks))})
	}
}

func firstMut(c *core.Ctx, toks []mut.Tok) []mut.Tok {
	m, _ := mut.Mutate(c.Rng, toks, 2)
	if len(m) > 60 {
		m = m[:60]
	}
	return m
}

// locatedProbe seeds one mistake at a known (line, col) into an accepted program and demands a
// diagnostic at exactly that position.
func locatedProbe(c *core.Ctx, src string, toks []mut.Tok) {
	r := c.Rng
	if _, err := parser.Parse(src, plat.Builtins()); err != nil {
		return // base not accepted: culprit unknown
	}
	// candidate positions: token boundaries outside comments/strings
	idx := r.Intn(len(toks) + 1)
	kind := r.Intn(4)
	var ins string
	var wantMsg string
	switch kind {
	case 0: // illegal character before a token
		ins = []string{"$", "#", "~", "^", "&", "?", "@", "`", "\\", "'", ";", ","}[r.Intn(12)]
		wantMsg = "illegal character"
		// must not land inside a comment line (then it is part of the comment)
	case 1: // unterminated string at end of a line
		ins = "\"abc"
		wantMsg = "invalid string"
	case 2: // unknown identifier used as a value: replace a NUM_LIT token
		wantMsg = "unknown variable name"
	case 3: // unknown function at statement start
		wantMsg = "unknown function"
	}
	pre := toks[:idx]
	var b strings.Builder
	for _, t := range pre {
		b.WriteString(t.Text)
	}
	prefix := b.String()
	line := 1 + strings.Count(prefix, "\n")
	lastNL := strings.LastIndex(prefix, "\n")
	col := 1 + len([]rune(prefix[lastNL+1:]))
	inComment := false
	for k := idx - 1; k >= 0 && toks[k].Type != lexer.NL; k-- {
		if toks[k].Type == lexer.COMMENT {
			inComment = true
		}
	}
	if inComment {
		return
	}
	var mutated string
	switch kind {
	case 0:
		mutated = prefix + ins + mut.Join(toks[idx:])
	case 1:
		// only at a line end: idx must be at NL or EOF
		if idx < len(toks) && toks[idx].Type != lexer.NL {
			return
		}
		if idx > 0 && toks[idx-1].Type != lexer.WS && toks[idx-1].Type != lexer.NL {
			ins = " " + ins
			col++
		}
		mutated = prefix + ins + mut.Join(toks[idx:])
	case 2:
		if idx >= len(toks) || toks[idx].Type != lexer.NUM_LIT {
			return
		}
		// a digit sequence directly after an identifier character would merge; require a separator before
		if idx > 0 && (toks[idx-1].Type == lexer.IDENT || toks[idx-1].Type == lexer.NUM_LIT) {
			return
		}
		mutated = prefix + "zz_undefined_q" + mut.Join(toks[idx+1:])
	case 3:
		if idx < len(toks) && toks[idx].Type != lexer.NL {
			return
		}
		// insert a whole new line after this NL: a call of an unknown function
		if idx >= len(toks) {
			return
		}
		// only at top level or inside blocks both fine; but not inside a multi-line literal: require
		// bracket balance zero so far
		if bal := strings.Count(prefix, "[") + strings.Count(prefix, "{") - strings.Count(prefix, "]") - strings.Count(prefix, "}"); bal != 0 {
			return
		}
		mutated = prefix + "\nzz_undefined_fn 1" + mut.Join(toks[idx:])
		line++
		col = 1
	}
	c.Event("located_probes", 1)
	c.Cover("probe", wantMsg)
	c.Journal(mutated)
	_, err, panicked := parseGuard(c, mutated)
	if panicked {
		return
	}
	if err == nil {
		if kind == 0 || kind == 1 {
			// Could legitimately land inside a string literal; strings are single tokens so a token
			// boundary is never inside one. An accepted program with an illegal character is wrong.
			c.Violation("located-accepted", fmt.Sprintf("seeded mistake (%s at line %d column %d) was accepted", wantMsg, line, col), mutated, nil)
		}
		return
	}
	want := fmt.Sprintf("line %d column %d: ", line, col)
	found := false
	for _, e := range err.(parser.Errors) {
		if strings.HasPrefix(e.Error(), want) && strings.Contains(e.Error(), wantMsg) {
			found = true
		}
	}
	if !found {
		c.Violation("located-missing:"+wantMsg, fmt.Sprintf("seeded mistake: expected a diagnostic %q… containing %q; got: %s", want, wantMsg, firstN(err.Error(), 400)), mutated, nil)
	}
}

func firstN(s string, n int) string {
	if len(s) > n {
		return s[:n] + "…"
	}
	return s
}

var c03Diagnostics = []string{
	"m := {a:1 end:2 end:3}\nprint m\n", "m := {num:1 num:2}\n", "m := {a:1 a:2}\n", "m := {größe:1 größe:2}\n", "m := {if:1\n  if:2}\n",
	"x := {a:1}.end.end\n", "x := {end:1}.end + \"s\"\n", "print {for:[1]}.for[\"a\"]\n", "m := {a:1}\nprint m.while.x\n",
	"a:[]any\na = {x:[1]}[\"x\"]\nprint a\n", "m:{}any\nm = {k:{n:1}}[\"k\"]\n", "print [{x:[1 2]}[\"x\"] [\"a\"]]\n", "a:[]any\na = {x:[1]}.x\n", "a:[][]any\na = [{x:[[1]]}.x[0]]\n",
	"func f a:num b:num c:num d:num\n    print a b c d\nend\nf 1 2 3 \"x\"\nf 1 2 3 (f 1 2 3 4)\n", "line 1 2 3 \"x\"\nline 1 2 3 []\n", "func g a:num...\n    print a\nend\ng 1 2 3 \"x\" 5\n",
	"x := (print 1)\n", "x := [(print 1)]\n", "y:num\ny = (cls)\n", "print (len)\n", "print (len 1 2)\n",
	"on key k:string k2:string\n    print k\nend\n", "on nothing\n    print 1\nend\n", "on key\n    print 1\nend\non key\n    print 2\nend\n", "on down _:string y:num\n    print y\nend\n",
	"func f\nend\nfunc f\nend\n", "func print\nend\n", "func f:num\n    print 1\nend\n", "return 1\n", "break\n", "x := 1\nx := 2\n", "for i := range 1 2 3 4\n    print i\nend\n",
	"x := 1 ++ 2\n", "x := !1\n", "x := -\"a\"\n", "x := [1] + [\"a\"]\n", "x := 1 < \"a\"\n", "x := true and 1\n", "x:any\nprint x.(nothing)\n", "x := 1\nprint x.(num)\n", "x := [1 2][\"a\"]\n", "x := \"abc\"[true:]\n",
	"print \"unterminated\n", "print 'c'\n", "x := 1 # 2 $ 3 ; 4 ~ 5\n", "x := 1e5\n", "x := 0x10\n", "print \"\\q\"\n", "\tx := 1\n print x\n", "if true\n    print 1\nelse if\n    print 2\nend\n", "while\nend\n", "for\nend\n", "func\n", "on\n", "end\n", "else\n",
}
