// Package mut produces hostile variants of Evy source texts: token-level edits drawn from a
// dictionary, splices, prefixes and byte-level noise.
package mut

import (
	"math/rand"
	"strings"

	"evylang.dev/evy/pkg/lexer"
)

// Tok is a raw token: its type and the exact source text it covers.
type Tok struct {
	Type lexer.TokenType
	Text string
}

// Tokenize splits src into raw tokens (including whitespace, newlines and comments) whose
// texts concatenate to src.
func Tokenize(src string) []Tok {
	runes := []rune(src)
	l := lexer.New(src)
	var toks []*lexer.Token
	for i := 0; i <= len(runes)+1; i++ {
		t := l.Next()
		toks = append(toks, t)
		if t.Type == lexer.EOF {
			break
		}
	}
	var out []Tok
	for i := 0; i+1 < len(toks); i++ {
		a, b := toks[i].Offset, toks[i+1].Offset
		if a < 0 || b > len(runes) || a > b {
			continue
		}
		out = append(out, Tok{Type: toks[i].Type, Text: string(runes[a:b])})
	}
	return out
}

func Join(toks []Tok) string {
	var b strings.Builder
	for _, t := range toks {
		b.WriteString(t.Text)
	}
	return b.String()
}

// Dict is the dictionary of insertable fragments.
var Dict = []string{
	"if", "else", "end", "func", "on", "for", "range", "while", "break", "return", "and", "or",
	"true", "false", "num", "string", "bool", "any", "[]", "{}", "[]num", "{}any", "[][]any",
	":=", "=", "==", "!=", "<", "<=", ">", ">=", "+", "-", "*", "/", "%", "!", ":", ".", "...",
	"(", ")", "[", "]", "{", "}", ".(", "[:", ":]", "\n", " ", "\t", "// c\n", "//", "\"", "\"a\"", "\"\"",
	"0", "1", "2", "0.5", "1e5", "1.2.3", "x", "a", "_", "i", "n", "s", "print", "len", "read", "has", "del",
	"typeof", "sprint", "str2num", "err", "errmsg", "pi", "move", "key", "down", "animate", "input", "test",
	"x:num", "x := 1", "x[0]", "m.a", "a:1", ".(num)", "(len x)", "[1 2]", "{a:1}", "-x", "!x", "é", "🌍", "$", "#", "\\", "\r",
}

// Edit kinds.
const (
	Delete = iota
	Dup
	Insert
	Subst
	Swap
	DelWS
	AddWS
	nKinds
)

var KindNames = []string{"delete", "dup", "insert", "subst", "swap", "delws", "addws"}

// Mutate applies n random token-level edits and reports the kinds used.
func Mutate(r *rand.Rand, toks []Tok, n int) ([]Tok, []int) {
	out := append([]Tok(nil), toks...)
	var kinds []int
	for e := 0; e < n; e++ {
		k := r.Intn(nKinds)
		kinds = append(kinds, k)
		if len(out) == 0 {
			out = append(out, Tok{Text: Dict[r.Intn(len(Dict))]})
			continue
		}
		i := r.Intn(len(out))
		switch k {
		case Delete:
			out = append(out[:i], out[i+1:]...)
		case Dup:
			out = append(out[:i+1], out[i:]...)
		case Insert:
			t := Tok{Text: Dict[r.Intn(len(Dict))]}
			out = append(out[:i], append([]Tok{t}, out[i:]...)...)
		case Subst:
			out[i] = Tok{Text: Dict[r.Intn(len(Dict))]}
		case Swap:
			j := i + 1 + r.Intn(3)
			if j < len(out) {
				out[i], out[j] = out[j], out[i]
			}
		case DelWS:
			// delete a nearby whitespace token
			for j := i; j < len(out) && j < i+6; j++ {
				if out[j].Type == lexer.WS {
					out = append(out[:j], out[j+1:]...)
					break
				}
			}
		case AddWS:
			t := Tok{Type: lexer.WS, Text: " "}
			out = append(out[:i], append([]Tok{t}, out[i:]...)...)
		}
	}
	return out, kinds
}

// Splice joins a prefix of a with a suffix of b at token boundaries.
func Splice(r *rand.Rand, a, b []Tok) []Tok {
	if len(a) == 0 || len(b) == 0 {
		return append(append([]Tok(nil), a...), b...)
	}
	i, j := r.Intn(len(a)+1), r.Intn(len(b)+1)
	return append(append([]Tok(nil), a[:i]...), b[j:]...)
}

// Noise returns a byte-level hostile input.
func Noise(r *rand.Rand, base string) string {
	switch r.Intn(14) {
	case 0:
		return strings.Repeat("[", 1+r.Intn(5000))
	case 1:
		return "x := " + strings.Repeat("(", 1+r.Intn(5000)) + "1" + strings.Repeat(")", r.Intn(5000)) + "\n"
	case 2:
		return "x := " + strings.Repeat("{a:", 1+r.Intn(3000)) + "1" + strings.Repeat("}", r.Intn(3000)) + "\n"
	case 3:
		return "x := " + strings.Repeat("-", 1+r.Intn(5000)) + "1\nprint x\n"
	case 4:
		return strings.Repeat("a", 1+r.Intn(60000)) + " := 1\n"
	case 5:
		return "x := " + strings.Repeat("9", 1+r.Intn(2000)) + "." + strings.Repeat("1", r.Intn(2000)) + "\nprint x\n"
	case 6:
		return "x := 1" + strings.Repeat("+1", 1+r.Intn(10000)) + "\nprint x\n"
	case 7:
		return strings.Repeat("if true\n", 1+r.Intn(3000)) + "print 1\n" + strings.Repeat("end\n", r.Intn(3000))
	case 8:
		return "x := [" + strings.Repeat("[] ", r.Intn(10000)) + "]\nprint x\n"
	case 9:
		return "print \"" + strings.Repeat("\\", r.Intn(7)) + "\"" + strings.Repeat("\"", r.Intn(3)) + "\n"
	case 10:
		return "x := a" + strings.Repeat("[0]", 1+r.Intn(5000)) + "\n"
	case 11:
		return "x := a" + strings.Repeat(".b", 1+r.Intn(5000)) + "\n"
	}
	// random byte edits of the base text
	b := []byte(base)
	if len(b) == 0 {
		b = []byte("print 1\n")
	}
	hostile := []byte{0x00, 0xff, 0xfe, 0xc0, 0x80, '\r', '"', '\\', 0xef, 0xbb, 0xbf, 0x7f, 0x1b, 0xe2, 0x80, 0xa8}
	for e := 1 + r.Intn(4); e > 0; e-- {
		i := r.Intn(len(b))
		switch r.Intn(3) {
		case 0:
			b[i] = hostile[r.Intn(len(hostile))]
		case 1:
			b = append(b[:i], append([]byte{hostile[r.Intn(len(hostile))]}, b[i:]...)...)
		case 2:
			b = append(b[:i], b[i+1:]...)
		}
		if len(b) == 0 {
			break
		}
	}
	return string(b)
}
