// Package ref is the reference interpreter: an independent, deliberately naive reading of
// docs/spec.md and docs/builtins.md that evaluates the generator's AST directly. Its outcome is
// the expected Platform trace plus a result class, in the vocabulary of package plat.
package ref

import (
	"fmt"
	"math"
	"sort"
	"strconv"
	"strings"
	"unicode/utf8"

	"verif/gen"
)

// Value is float64 | string | bool | *Arr | *Map | AnyV.
type Value interface{}

type Arr struct{ Elems []Value }

// Map is an insertion-ordered dictionary.
type Map struct {
	Keys []string
	M    map[string]Value
}

// AnyV is a value of static type any: a concrete dynamic type and the value.
type AnyV struct {
	T *gen.Type
	V Value
}

func NewMap() *Map { return &Map{M: map[string]Value{}} }

func (m *Map) Set(k string, v Value) {
	if _, ok := m.M[k]; !ok {
		m.Keys = append(m.Keys, k)
	}
	m.M[k] = v
}

func (m *Map) Del(k string) {
	if _, ok := m.M[k]; !ok {
		return
	}
	delete(m.M, k)
	for i, key := range m.Keys {
		if key == k {
			m.Keys = append(m.Keys[:i:i], m.Keys[i+1:]...)
			break
		}
	}
}

// Panic is an Evy run-time panic of a documented kind.
type Panic struct {
	Kind string // as plat.PanicKind
	Msg  string
}

type exitSig struct{ code int }
type stopSig struct{}

type cell struct{ v Value }

type scope struct {
	vars  map[string]*cell
	outer *scope
}

func (s *scope) lookup(name string) *cell {
	for sc := s; sc != nil; sc = sc.outer {
		if c, ok := sc.vars[name]; ok {
			return c
		}
	}
	return nil
}

// Event payloads for handlers.
type Event struct {
	Name string
	Args []Value
}

// Interp runs one program.
type Interp struct {
	Events    []string
	Inputs    []string
	inPos     int
	funcs     map[string]*gen.FuncDef
	handlers  map[string]*gen.Handler
	global    *scope
	cur       *scope
	tests     int
	fails     []string
	FailFast  bool
	NoSummary bool
	// Steps bounds the evaluation (guard against generator bugs); exceeding it ends the run with
	// class "ref-budget".
	Steps    int
	MaxSteps int
	// Unknown is set when the program did something whose result the documents leave open
	// (see Widenings); the case is then not judged.
	Unknown     string
	depth       int
	summaryDone bool
}

// Outcome of a reference run.
type Outcome struct {
	Events  []string
	Class   string // ok | panic:<kind> | exit:<n> | tests-failed | ref-budget
	Msg     string
	Unknown string
	Fails   []string // messages of the failed test calls, in order
}

type ctl int

const (
	ctlNone ctl = iota
	ctlBreak
	ctlReturn
)

func New() *Interp {
	g := &scope{vars: map[string]*cell{}}
	g.vars["err"] = &cell{false}
	g.vars["errmsg"] = &cell{""}
	g.vars["pi"] = &cell{math.Pi}
	return &Interp{funcs: map[string]*gen.FuncDef{}, handlers: map[string]*gen.Handler{}, global: g, cur: g, MaxSteps: 2_000_000}
}

// Run evaluates prog and then delivers events to its handlers.
func (in *Interp) Run(prog *gen.Program, events []Event) (out Outcome) {
	defer func() {
		out.Events = in.Events
		out.Unknown = in.Unknown
		out.Fails = in.fails
		if r := recover(); r != nil {
			switch r := r.(type) {
			case Panic:
				in.summary()
				out.Events = in.Events
				out.Class, out.Msg = "panic:"+r.Kind, r.Msg
			case exitSig:
				in.summary()
				out.Events = in.Events
				out.Class = "exit:" + strconv.Itoa(r.code)
			case stopSig:
				in.summary()
				out.Events = in.Events
				out.Class = "tests-failed"
			case budgetSig:
				out.Class = "ref-budget"
			default:
				panic(r)
			}
		}
	}()
	for _, s := range prog.Stmts {
		switch s := s.(type) {
		case gen.FuncDef:
			f := s
			in.funcs[s.Name] = &f
		case gen.Handler:
			h := s
			in.handlers[s.Name] = &h
		}
	}
	in.block(prog.Stmts, false)
	in.summary()
	if len(in.fails) > 0 {
		out.Class = "tests-failed"
		return out
	}
	for _, ev := range events {
		h := in.handlers[ev.Name]
		if h == nil {
			continue
		}
		saved := in.cur
		in.cur = &scope{vars: map[string]*cell{}, outer: in.global}
		for i, p := range h.Params {
			if p.Name != "_" {
				in.cur.vars[p.Name] = &cell{ev.Args[i]}
			}
		}
		in.block(h.Body, false)
		in.cur = saved
	}
	return Outcome{Class: "ok"}
}

type budgetSig struct{}

func (in *Interp) summary() {
	if in.summaryDone {
		return
	}
	in.summaryDone = true
	if in.NoSummary || in.tests == 0 {
		return
	}
	plural := func(n int) string {
		if n == 1 {
			return ""
		}
		return "s"
	}
	f := len(in.fails)
	s := in.tests - f
	if f > 0 {
		in.emitPrint(fmt.Sprintf("❌ %d failed test%s\n✔️ %d passed test%s\n", f, plural(f), s, plural(s)))
	} else {
		in.emitPrint(fmt.Sprintf("✅ %d passed test%s\n", s, plural(s)))
	}
}

func (in *Interp) emit(s string)      { in.Events = append(in.Events, s) }
func (in *Interp) emitPrint(s string) { in.emit("print " + strconv.Quote(s)) }

func (in *Interp) step() {
	in.Steps++
	if in.Steps > in.MaxSteps {
		panic(budgetSig{})
	}
}

func (in *Interp) push() { in.cur = &scope{vars: map[string]*cell{}, outer: in.cur} }
func (in *Interp) pop()  { in.cur = in.cur.outer }

// block runs statements in the current scope (newScope pushes a block scope).
func (in *Interp) block(ss []gen.Stmt, newScope bool) (ctl, Value) {
	if newScope {
		in.push()
		defer in.pop()
	}
	for _, s := range ss {
		if c, v := in.stmt(s); c != ctlNone {
			return c, v
		}
	}
	return ctlNone, nil
}

func (in *Interp) stmt(s gen.Stmt) (ctl, Value) {
	in.step()
	switch s := s.(type) {
	case gen.Comment, gen.Blank, gen.FuncDef, gen.Handler:
	case gen.Decl:
		if s.Typed {
			in.cur.vars[s.Name] = &cell{Zero(s.T)}
		} else {
			in.cur.vars[s.Name] = &cell{in.eval(s.Init)}
		}
	case gen.Assign:
		v := in.eval(s.Val)
		switch t := s.Target.(type) {
		case gen.VarRef:
			in.cur.lookup(t.Name).v = v
		case gen.Index:
			base := in.eval(t.X)
			idx := in.eval(t.I)
			switch b := base.(type) {
			case *Arr:
				i := normIndex(idx.(float64), len(b.Elems), false)
				b.Elems[i] = v
			case *Map:
				b.Set(idx.(string), v)
			default:
				panic(fmt.Sprintf("ref: assign index on %T", base))
			}
		case gen.Dot:
			in.eval(t.X).(*Map).Set(t.Key, v)
		}
	case gen.CallStmt:
		in.call(s.C)
	case gen.If:
		for k, cond := range s.Conds {
			in.push() // condition and block share a scope in the implementation; not observable
			ok := in.eval(cond).(bool)
			if ok {
				c, v := in.block(s.Blocks[k], false)
				in.pop()
				return c, v
			}
			in.pop()
		}
		if s.Else != nil {
			return in.block(s.Else, true)
		}
	case gen.While:
		for {
			in.step()
			if !in.eval(s.Cond).(bool) {
				break
			}
			c, v := in.block(s.Body, true)
			if c == ctlBreak {
				break
			}
			if c == ctlReturn {
				return c, v
			}
		}
	case gen.For:
		return in.forStmt(s)
	case gen.Break:
		return ctlBreak, nil
	case gen.Return:
		if s.Val == nil {
			return ctlReturn, nil
		}
		return ctlReturn, in.eval(s.Val)
	default:
		panic(fmt.Sprintf("ref: unknown statement %T", s))
	}
	return ctlNone, nil
}

func (in *Interp) forStmt(s gen.For) (ctl, Value) {
	in.push()
	defer in.pop()
	var lv *cell
	bind := func() { // the loop variable comes into scope after the range operands are evaluated
		if s.Var != "" {
			lv = &cell{}
			in.cur.vars[s.Var] = lv
		}
	}
	body := func(v Value) (bool, ctl, Value) {
		in.step()
		if lv != nil {
			lv.v = v
		}
		c, rv := in.block(s.Body, true)
		if c == ctlBreak {
			return true, ctlNone, nil
		}
		if c == ctlReturn {
			return true, c, rv
		}
		return false, ctlNone, nil
	}
	if s.Over == nil {
		start, stop, step := 0.0, 0.0, 1.0
		switch len(s.Args) {
		case 1:
			stop = in.eval(s.Args[0]).(float64)
		case 2:
			start = in.eval(s.Args[0]).(float64)
			stop = in.eval(s.Args[1]).(float64)
		case 3:
			start = in.eval(s.Args[0]).(float64)
			stop = in.eval(s.Args[1]).(float64)
			step = in.eval(s.Args[2]).(float64)
		}
		if step == 0 {
			panic(Panic{"range-value", "step cannot be 0"})
		}
		bind()
		if lv != nil {
			lv.v = 0.0
		}
		for cur := start; (step > 0 && cur < stop) || (step < 0 && cur > stop); cur += step {
			if done, c, v := body(cur); done {
				return c, v
			}
		}
		return ctlNone, nil
	}
	over := in.eval(s.Over)
	bind()
	switch o := over.(type) {
	case *Arr:
		if lv != nil {
			lv.v = Zero(s.VarT)
		}
		// the element list is read live; arrays cannot shrink in Evy, growth is impossible too
		for i := 0; i < len(o.Elems); i++ {
			if done, c, v := body(o.Elems[i]); done {
				return c, v
			}
		}
	case string:
		if lv != nil {
			lv.v = ""
		}
		for _, r := range o {
			if done, c, v := body(string(r)); done {
				return c, v
			}
		}
	case *Map:
		if lv != nil {
			lv.v = ""
		}
		keys := append([]string(nil), o.Keys...)
		for _, k := range keys {
			if _, ok := o.M[k]; !ok {
				continue
			}
			if done, c, v := body(k); done {
				return c, v
			}
		}
	default:
		panic(fmt.Sprintf("ref: range over %T", over))
	}
	return ctlNone, nil
}

// Zero returns the zero value of t.
func Zero(t *gen.Type) Value {
	switch t.K {
	case gen.Num:
		return 0.0
	case gen.Str:
		return ""
	case gen.Bool:
		return false
	case gen.Any:
		return AnyV{T: gen.TBool, V: false}
	case gen.Arr:
		return &Arr{}
	case gen.Map:
		return NewMap()
	}
	panic("ref: zero of " + t.String())
}

func isInt(v float64) bool { return v == math.Trunc(v) && !math.IsInf(v, 0) }

// normIndex implements the index law of the specification.
func normIndex(v float64, n int, slice bool) int {
	if math.IsNaN(v) || !isInt(v) {
		panic(Panic{"index-value", fmt.Sprint(v)})
	}
	if math.Abs(v) >= 9223372036854775808 {
		panic(Panic{"bounds|index-value", fmt.Sprint(v)})
	}
	hi := float64(n - 1)
	if slice {
		hi = float64(n)
	}
	if v < float64(-n) || v > hi {
		panic(Panic{"bounds", fmt.Sprint(v)})
	}
	i := int(v)
	if i < 0 {
		i += n
	}
	return i
}

func (in *Interp) eval(e gen.Expr) Value {
	in.step()
	switch e := e.(type) {
	case gen.NumLit:
		return e.V
	case gen.StrLit:
		return e.V
	case gen.BoolLit:
		return e.V
	case gen.VarRef:
		c := in.cur.lookup(e.Name)
		if c == nil {
			panic("ref: unknown variable " + e.Name)
		}
		return c.v
	case gen.Paren:
		return in.eval(e.X)
	case gen.ToAny:
		v := in.eval(e.X)
		if _, ok := v.(AnyV); ok {
			return v
		}
		return AnyV{T: e.X.Ty(), V: v}
	case gen.Unary:
		v := in.eval(e.X)
		if e.Op == "-" {
			return -v.(float64)
		}
		return !v.(bool)
	case gen.Binary:
		return in.binary(e)
	case gen.Index:
		base := in.eval(e.X)
		idx := in.eval(e.I)
		switch b := base.(type) {
		case *Arr:
			return b.Elems[normIndex(idx.(float64), len(b.Elems), false)]
		case string:
			rs := []rune(b)
			return string(rs[normIndex(idx.(float64), len(rs), false)])
		case *Map:
			v, ok := b.M[idx.(string)]
			if !ok {
				panic(Panic{"map-key", idx.(string)})
			}
			return v
		}
		panic(fmt.Sprintf("ref: index on %T", base))
	case gen.Dot:
		m := in.eval(e.X).(*Map)
		v, ok := m.M[e.Key]
		if !ok {
			panic(Panic{"map-key", e.Key})
		}
		return v
	case gen.Slice:
		base := in.eval(e.X)
		var lo, hi Value
		if e.Lo != nil {
			lo = in.eval(e.Lo)
		}
		if e.Hi != nil {
			hi = in.eval(e.Hi)
		}
		n := 0
		var rs []rune
		switch b := base.(type) {
		case *Arr:
			n = len(b.Elems)
		case string:
			rs = []rune(b)
			n = len(rs)
		}
		a, z := 0, n
		if lo != nil {
			a = normIndex(lo.(float64), n, true)
		}
		if hi != nil {
			z = normIndex(hi.(float64), n, true)
		}
		if a > z {
			panic(Panic{"slice", fmt.Sprintf("%d > %d", a, z)})
		}
		if b, ok := base.(*Arr); ok {
			return &Arr{Elems: append([]Value(nil), b.Elems[a:z]...)}
		}
		return string(rs[a:z])
	case gen.Assert:
		v := in.eval(e.X).(AnyV)
		if !v.T.Eq(e.T) {
			panic(Panic{"any-conversion", fmt.Sprintf("expected %v, found %v", e.T, v.T)})
		}
		return v.V
	case gen.ArrLit:
		a := &Arr{}
		for _, el := range e.Elems {
			a.Elems = append(a.Elems, in.eval(el))
		}
		return a
	case gen.MapLit:
		m := NewMap()
		for i, k := range e.Keys {
			m.Set(k, in.eval(e.Vals[i]))
		}
		return m
	case gen.Call:
		return in.call(e)
	}
	panic(fmt.Sprintf("ref: unknown expression %T", e))
}

func (in *Interp) binary(e gen.Binary) Value {
	l := in.eval(e.L)
	switch e.Op {
	case "and":
		if !l.(bool) {
			return false
		}
		return in.eval(e.R).(bool)
	case "or":
		if l.(bool) {
			return true
		}
		return in.eval(e.R).(bool)
	}
	r := in.eval(e.R)
	switch e.Op {
	case "==":
		return Equal(l, r)
	case "!=":
		return !Equal(l, r)
	}
	switch lv := l.(type) {
	case float64:
		rv := r.(float64)
		switch e.Op {
		case "+":
			return lv + rv
		case "-":
			return lv - rv
		case "*":
			return lv * rv
		case "/":
			return lv / rv
		case "%":
			return math.Mod(lv, rv)
		case "<":
			return lv < rv
		case "<=":
			return lv <= rv
		case ">":
			return lv > rv
		case ">=":
			return lv >= rv
		}
	case string:
		rv := r.(string)
		switch e.Op {
		case "+":
			return lv + rv
		case "<":
			return lv < rv
		case "<=":
			return lv <= rv
		case ">":
			return lv > rv
		case ">=":
			return lv >= rv
		}
	case *Arr:
		switch e.Op {
		case "+":
			rv := r.(*Arr)
			out := &Arr{Elems: append([]Value(nil), lv.Elems...)}
			out.Elems = append(out.Elems, rv.Elems...)
			return out
		case "*":
			n := r.(float64)
			if math.IsNaN(n) || !isInt(n) {
				panic(Panic{"bad-repetition", "not an integer"})
			}
			if n < 0 {
				panic(Panic{"bad-repetition", "negative"})
			}
			if n*float64(len(lv.Elems)) > 1e6 {
				in.Unknown = "huge repetition"
				panic(budgetSig{})
			}
			out := &Arr{}
			for k := 0; k < int(n); k++ {
				for _, el := range lv.Elems {
					out.Elems = append(out.Elems, DeepCopy(el))
				}
			}
			return out
		}
	}
	panic(fmt.Sprintf("ref: binary %s on %T", e.Op, l))
}

// DeepCopy copies nested composites.
func DeepCopy(v Value) Value {
	switch v := v.(type) {
	case *Arr:
		out := &Arr{}
		for _, e := range v.Elems {
			out.Elems = append(out.Elems, DeepCopy(e))
		}
		return out
	case *Map:
		out := NewMap()
		for _, k := range v.Keys {
			out.Set(k, DeepCopy(v.M[k]))
		}
		return out
	case AnyV:
		return AnyV{T: v.T, V: DeepCopy(v.V)}
	}
	return v
}

// Equal is deep equality; maps ignore order; any values compare dynamic type and value.
func Equal(a, b Value) bool {
	switch a := a.(type) {
	case float64:
		bv, ok := b.(float64)
		return ok && a == bv
	case string:
		bv, ok := b.(string)
		return ok && a == bv
	case bool:
		bv, ok := b.(bool)
		return ok && a == bv
	case AnyV:
		bv, ok := b.(AnyV)
		return ok && a.T.Eq(bv.T) && Equal(a.V, bv.V)
	case *Arr:
		bv, ok := b.(*Arr)
		if !ok || len(a.Elems) != len(bv.Elems) {
			return false
		}
		for i := range a.Elems {
			if !Equal(a.Elems[i], bv.Elems[i]) {
				return false
			}
		}
		return true
	case *Map:
		bv, ok := b.(*Map)
		if !ok || len(a.M) != len(bv.M) {
			return false
		}
		for k, v := range a.M {
			w, ok := bv.M[k]
			if !ok || !Equal(v, w) {
				return false
			}
		}
		return true
	}
	return false
}

// FormatNum is the default spelling of a number.
func FormatNum(v float64) string { return strconv.FormatFloat(v, 'f', -1, 64) }

// String is the print form of a value.
func String(v Value) string {
	switch v := v.(type) {
	case float64:
		return FormatNum(v)
	case string:
		return v
	case bool:
		return strconv.FormatBool(v)
	case AnyV:
		return String(v.V)
	case *Arr:
		parts := make([]string, len(v.Elems))
		for i, e := range v.Elems {
			parts[i] = String(e)
		}
		return "[" + strings.Join(parts, " ") + "]"
	case *Map:
		parts := make([]string, 0, len(v.Keys))
		for _, k := range v.Keys {
			parts = append(parts, k+":"+String(v.M[k]))
		}
		return "{" + strings.Join(parts, " ") + "}"
	case nil:
		return ""
	}
	return fmt.Sprintf("?%T", v)
}

func isIdent(s string) bool {
	if s == "" {
		return false
	}
	for i, r := range s {
		letter := r == '_' || isLetter(r)
		if i == 0 && !letter {
			return false
		}
		if !letter && !isUniDigit(r) {
			return false
		}
	}
	return true
}

// Repr is the repr form of a value.
func Repr(v Value) string {
	switch v := v.(type) {
	case string:
		return strconv.Quote(v)
	case AnyV:
		return Repr(v.V)
	case *Arr:
		parts := make([]string, len(v.Elems))
		for i, e := range v.Elems {
			parts[i] = Repr(e)
		}
		return "[" + strings.Join(parts, " ") + "]"
	case *Map:
		parts := make([]string, 0, len(v.Keys))
		for _, k := range v.Keys {
			key := k
			if !isIdent(k) {
				key = strconv.Quote(k)
			}
			parts = append(parts, key+":"+Repr(v.M[k]))
		}
		return "{" + strings.Join(parts, " ") + "}"
	}
	return String(v)
}

// DynType is the concrete type of a value of static type t.
func DynType(v Value, t *gen.Type) *gen.Type {
	if a, ok := v.(AnyV); ok {
		return a.T
	}
	return t
}

func runeLen(s string) int { return utf8.RuneCountInString(s) }

func sortedKeys(m map[string]Value) []string {
	keys := make([]string, 0, len(m))
	for k := range m {
		keys = append(keys, k)
	}
	sort.Strings(keys)
	return keys
}
