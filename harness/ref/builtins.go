package ref

import (
	"fmt"
	"math"
	"regexp"
	"strconv"
	"strings"
	"unicode"

	"verif/gen"
)

func isLetter(r rune) bool   { return unicode.IsLetter(r) }
func isUniDigit(r rune) bool { return unicode.IsDigit(r) }

func f64(x float64) string { return strconv.FormatFloat(x, 'g', -1, 64) }

func unwrap(v Value) Value {
	for {
		a, ok := v.(AnyV)
		if !ok {
			return v
		}
		v = a.V
	}
}

// Same is the sameness relation of the test built-in: equal after ignoring any-wrapping.
func Same(a, b Value) bool {
	a, b = unwrap(a), unwrap(b)
	switch a := a.(type) {
	case *Arr:
		bv, ok := b.(*Arr)
		if !ok || len(a.Elems) != len(bv.Elems) {
			return false
		}
		for i := range a.Elems {
			if !Same(a.Elems[i], bv.Elems[i]) {
				return false
			}
		}
		return true
	case *Map:
		bv, ok := b.(*Map)
		if !ok || len(a.M) != len(bv.M) {
			return false
		}
		for k, v := range a.M {
			w, ok := bv.M[k]
			if !ok || !Same(v, w) {
				return false
			}
		}
		return true
	}
	return Equal(a, b)
}

var numRe = regexp.MustCompile(`^[+-]?(\d+(\.\d*)?|\.\d+)([eE][+-]?\d+)?$`)

func (in *Interp) setErr(isErr bool, msg string) {
	in.global.vars["err"].v = isErr
	in.global.vars["errmsg"].v = msg
}

func (in *Interp) call(c gen.Call) Value {
	in.step()
	args := make([]Value, len(c.Args))
	for i, a := range c.Args {
		args[i] = in.eval(a)
	}
	if fd, ok := in.funcs[c.Name]; ok {
		return in.callUser(fd, args)
	}
	num := func(i int) float64 { return args[i].(float64) }
	str := func(i int) string { return args[i].(string) }
	switch c.Name {
	case "print":
		parts := make([]string, len(args))
		for i, a := range args {
			parts[i] = String(a)
		}
		in.emitPrint(strings.Join(parts, " ") + "\n")
		return nil
	case "printf":
		if len(args) == 0 {
			panic(Panic{"bad-arguments", "printf needs a format"})
		}
		fs, ok := unwrap(args[0]).(string)
		if !ok {
			panic(Panic{"bad-arguments", "printf format must be a string"})
		}
		in.emitPrint(in.sprintf(fs, args[1:]))
		return nil
	case "sprint":
		parts := make([]string, len(args))
		for i, a := range args {
			parts[i] = String(a)
		}
		return strings.Join(parts, " ")
	case "sprintf":
		if len(args) == 0 {
			panic(Panic{"bad-arguments", "sprintf needs a format"})
		}
		fs, ok := unwrap(args[0]).(string)
		if !ok {
			panic(Panic{"bad-arguments", "sprintf format must be a string"})
		}
		return in.sprintf(fs, args[1:])
	case "read":
		s := ""
		if in.inPos < len(in.Inputs) {
			s = in.Inputs[in.inPos]
			in.inPos++
		}
		in.emit("read " + strconv.Quote(s))
		return s
	case "cls":
		in.emit("cls")
		return nil
	case "join":
		a := args[0].(*Arr)
		parts := make([]string, len(a.Elems))
		for i, e := range a.Elems {
			parts[i] = String(e)
		}
		return strings.Join(parts, str(1))
	case "split":
		s, sep := str(0), str(1)
		out := &Arr{}
		if sep == "" {
			for _, r := range s {
				out.Elems = append(out.Elems, string(r))
			}
			if !strings.ContainsRune(s, unicode.ReplacementChar) && !isValidUTF8(s) {
				in.Unknown = "split of invalid UTF-8"
			}
			return out
		}
		for _, p := range strings.Split(s, sep) {
			out.Elems = append(out.Elems, p)
		}
		return out
	case "upper":
		return strings.ToUpper(str(0))
	case "lower":
		return strings.ToLower(str(0))
	case "index":
		s, sub := str(0), str(1)
		b := strings.Index(s, sub)
		if b < 0 {
			return -1.0
		}
		return float64(runeLen(s[:b])) // position in characters, as everywhere else in Evy
	case "startswith":
		return strings.HasPrefix(str(0), str(1))
	case "endswith":
		return strings.HasSuffix(str(0), str(1))
	case "trim":
		return strings.Trim(str(0), str(1))
	case "replace":
		if str(1) == "" {
			in.Unknown = "replace with empty old string"
		}
		return strings.ReplaceAll(str(0), str(1), str(2))
	case "repr":
		parts := make([]string, len(args))
		for i, a := range args {
			parts[i] = Repr(a)
		}
		return strings.Join(parts, " ")
	case "str2num":
		s := str(0)
		v, err := strconv.ParseFloat(s, 64)
		switch {
		case numRe.MatchString(s) && err == nil:
			in.setErr(false, "")
			return v
		case numRe.MatchString(s): // syntactically a number but out of range: "returns 0 and sets err"
			in.setErr(true, fmt.Sprintf("str2num: cannot parse %q", s))
			return 0.0
		case err != nil:
			in.setErr(true, fmt.Sprintf("str2num: cannot parse %q", s))
			return 0.0
		default: // hex, inf, nan, underscores: the documents do not say whether these are numbers
			in.Unknown = "str2num of " + strconv.Quote(s)
			in.setErr(false, "")
			return v
		}
	case "str2bool":
		switch str(0) {
		case "true", "True", "TRUE", "1":
			in.setErr(false, "")
			return true
		case "false", "False", "FALSE", "0":
			in.setErr(false, "")
			return false
		}
		in.setErr(true, fmt.Sprintf("str2bool: cannot parse %q", str(0)))
		return false
	case "typeof":
		return args[0].(AnyV).T.String()
	case "len":
		switch v := unwrap(args[0]).(type) {
		case string:
			return float64(runeLen(v))
		case *Arr:
			return float64(len(v.Elems))
		case *Map:
			return float64(len(v.M))
		}
		panic(Panic{"*", "len of non-container"})
	case "has":
		_, ok := args[0].(*Map).M[str(1)]
		return ok
	case "del":
		args[0].(*Map).Del(str(1))
		return nil
	case "sleep":
		d := num(0) * 1e9
		if math.IsNaN(d) || math.Abs(d) >= 9e18 {
			in.Unknown = "sleep duration out of range"
		}
		in.emit("sleep " + strconv.FormatInt(int64(d), 10))
		return nil
	case "exit":
		n := num(0)
		if !isInt(n) || math.IsNaN(n) || math.Abs(n) > 1e9 {
			in.Unknown = "exit with non-integer status"
		}
		panic(exitSig{int(n)})
	case "panic":
		panic(Panic{"user", str(0)})
	case "test":
		return in.test(args)
	case "rand":
		n := num(0)
		if !(n > 0) {
			panic(Panic{"bad-arguments", "rand needs n > 0"})
		}
		if n < 1 || n > 2147483647 {
			in.Unknown = "rand outside [1, 2^31-1]"
		}
		in.Unknown = "rand"
		return 0.0
	case "rand1":
		in.Unknown = "rand1"
		return 0.0
	case "min":
		return math.Min(num(0), num(1))
	case "max":
		return math.Max(num(0), num(1))
	case "abs":
		return math.Abs(num(0))
	case "floor":
		return math.Floor(num(0))
	case "ceil":
		return math.Ceil(num(0))
	case "round":
		return math.Round(num(0))
	case "pow":
		return math.Pow(num(0), num(1))
	case "log":
		return math.Log(num(0))
	case "sqrt":
		return math.Sqrt(num(0))
	case "sin":
		return math.Sin(num(0))
	case "cos":
		return math.Cos(num(0))
	case "atan2":
		return math.Atan2(num(0), num(1))
	// graphics: recorded as platform calls
	case "move", "line", "rect":
		in.emit(c.Name + " " + f64(num(0)) + " " + f64(num(1)))
		return nil
	case "circle", "width":
		in.emit(c.Name + " " + f64(num(0)))
		return nil
	case "color", "colour":
		in.emit("color " + strconv.Quote(str(0)))
		return nil
	case "stroke", "fill", "linecap", "text":
		in.emit(c.Name + " " + strconv.Quote(str(0)))
		return nil
	case "clear":
		if len(args) > 1 {
			panic(Panic{"bad-arguments", "clear takes 0 or 1 arguments"})
		}
		col := ""
		if len(args) == 1 {
			col = str(0)
		}
		in.emit("clear " + strconv.Quote(col))
		return nil
	case "grid":
		in.emit("gridn 10 " + strconv.Quote("hsl(0deg 100% 0% / 50%)"))
		return nil
	case "gridn":
		in.emit("gridn " + f64(num(0)) + " " + strconv.Quote(str(1)))
		return nil
	case "dash":
		parts := make([]string, len(args))
		for i := range args {
			parts[i] = f64(num(i))
		}
		in.emit("dash " + strings.Join(parts, " "))
		return nil
	case "hsl":
		return in.hsl(args)
	case "poly":
		var b strings.Builder
		b.WriteString("poly")
		for i, a := range args {
			v := a.(*Arr)
			if len(v.Elems) != 2 {
				panic(Panic{"bad-arguments", fmt.Sprintf("poly argument %d needs 2 elements", i+1)})
			}
			b.WriteString(" [" + f64(v.Elems[0].(float64)) + " " + f64(v.Elems[1].(float64)) + "]")
		}
		in.emit(b.String())
		return nil
	case "ellipse":
		n := len(args)
		if n < 3 || n == 6 || n > 7 {
			panic(Panic{"bad-arguments", "ellipse needs 3, 4, 5 or 7 arguments"})
		}
		v := []float64{num(0), num(1), num(2), num(2), 0, 0, 360}
		if n > 3 {
			v[3] = num(3)
		}
		if n > 4 {
			v[4] = num(4)
		}
		if n > 6 {
			v[5], v[6] = num(5), num(6)
		}
		parts := make([]string, 7)
		for i := range v {
			parts[i] = f64(v[i])
		}
		in.emit("ellipse " + strings.Join(parts, " "))
		return nil
	case "font":
		return in.font(args[0].(*Map))
	}
	panic("ref: unknown function " + c.Name)
}

func isValidUTF8(s string) bool { return strings.ToValidUTF8(s, "") == s }

func (in *Interp) hsl(args []Value) Value {
	if len(args) < 1 || len(args) > 4 {
		panic(Panic{"bad-arguments", "hsl takes 1 to 4 arguments"})
	}
	v := []float64{0, 100, 50, 100}
	lim := []float64{360, 100, 100, 100}
	for i, a := range args {
		x := a.(float64)
		if !(x >= 0 && x <= lim[i]) {
			panic(Panic{"bad-arguments", "hsl argument out of range"})
		}
		v[i] = x
	}
	return fmt.Sprintf("hsl(%sdeg %s%% %s%% / %s%%)", f64(v[0]), f64(v[1]), f64(v[2]), f64(v[3]))
}

func (in *Interp) callUser(fd *gen.FuncDef, args []Value) Value {
	in.depth++
	defer func() { in.depth-- }()
	if in.depth > 2000 {
		in.Unknown = "deep recursion"
		panic(budgetSig{})
	}
	saved := in.cur
	in.cur = &scope{vars: map[string]*cell{}, outer: in.global}
	defer func() { in.cur = saved }()
	if fd.Variadic {
		if fd.Params[0].Name != "_" {
			in.cur.vars[fd.Params[0].Name] = &cell{&Arr{Elems: args}}
		}
	} else {
		for i, p := range fd.Params {
			if p.Name != "_" {
				in.cur.vars[p.Name] = &cell{args[i]}
			}
		}
	}
	_, v := in.block(fd.Body, false)
	return v
}

func (in *Interp) test(args []Value) Value {
	// whether an invalid test call counts in the summary is not documented
	if len(args) == 0 {
		in.Unknown = "invalid test call"
		panic(Panic{"bad-arguments", "test needs arguments"})
	}
	if len(args) == 1 {
		if _, ok := unwrap(args[0]).(bool); !ok {
			in.Unknown = "invalid test call"
			panic(Panic{"bad-arguments", "test with one argument needs a bool"})
		}
	}
	if len(args) > 2 {
		if _, ok := unwrap(args[2]).(string); !ok {
			in.Unknown = "invalid test call"
			panic(Panic{"bad-arguments", "test message must be a string"})
		}
	}
	in.tests++
	failed := ""
	if len(args) == 1 {
		if !unwrap(args[0]).(bool) {
			failed = "not true"
		}
	} else if !Same(args[0], args[1]) {
		failed = fmt.Sprintf("want != got: %s != %s", Repr(args[0]), Repr(args[1]))
		if len(args) > 2 {
			msg := unwrap(args[2]).(string)
			if len(args) > 3 {
				msg = in.sprintf(msg, args[3:])
			}
			failed += " (" + msg + ")"
		}
	}
	if failed != "" {
		in.fails = append(in.fails, failed)
		if in.FailFast {
			panic(stopSig{})
		}
	}
	return nil
}

// sprintf implements the documented subset of format specifiers; anything the documents leave
// open marks the run as not judged.
func (in *Interp) sprintf(format string, args []Value) string {
	var b strings.Builder
	ai := 0
	rs := []rune(format)
	for i := 0; i < len(rs); i++ {
		if rs[i] != '%' {
			b.WriteRune(rs[i])
			continue
		}
		i++
		if i >= len(rs) {
			in.Unknown = "format ends with %"
			break
		}
		if rs[i] == '%' {
			b.WriteByte('%')
			continue
		}
		left, zero := false, false
		for i < len(rs) && (rs[i] == '-' || rs[i] == '0') {
			if rs[i] == '-' {
				left = true
			} else {
				zero = true
			}
			i++
		}
		width, prec := -1, -1
		start := i
		for i < len(rs) && rs[i] >= '0' && rs[i] <= '9' {
			i++
		}
		if i > start {
			width, _ = strconv.Atoi(string(rs[start:i]))
		}
		if i < len(rs) && rs[i] == '.' {
			i++
			start = i
			for i < len(rs) && rs[i] >= '0' && rs[i] <= '9' {
				i++
			}
			prec = 0
			if i > start {
				prec, _ = strconv.Atoi(string(rs[start:i]))
			}
		}
		if i >= len(rs) {
			in.Unknown = "incomplete format specifier"
			break
		}
		verb := rs[i]
		if ai >= len(args) {
			in.Unknown = "too few arguments for format"
			break
		}
		arg := unwrap(args[ai])
		ai++
		var s string
		switch verb {
		case 'v':
			switch a := arg.(type) {
			case float64:
				if prec >= 0 {
					in.Unknown = "%v with precision on a number"
				}
				s = String(a)
				if width >= 0 && fmt.Sprintf("%v", a) != s {
					// the spelling of large/small numbers under %v is not documented (compared by value
					// without a width; with a width the padding depends on the spelling)
					in.Unknown = "%v with width on a number whose default spelling is not documented"
				}
			case string:
				s = a
				if prec >= 0 && runeLen(s) > prec {
					s = string([]rune(s)[:prec])
				}
			default:
				if prec >= 0 {
					in.Unknown = "%v with precision on a composite or bool"
				}
				s = String(a)
			}
		case 's', 'q':
			a, ok := arg.(string)
			if !ok {
				panic(Panic{"*", fmt.Sprintf("%%%c needs a string", verb)})
			}
			if prec >= 0 && runeLen(a) > prec {
				a = string([]rune(a)[:prec])
			}
			s = a
			if verb == 'q' {
				s = strconv.Quote(a)
			}
		case 't':
			a, ok := arg.(bool)
			if !ok {
				panic(Panic{"*", "%t needs a bool"})
			}
			s = strconv.FormatBool(a)
		case 'f', 'e':
			a, ok := arg.(float64)
			if !ok {
				panic(Panic{"*", fmt.Sprintf("%%%c needs a num", verb)})
			}
			p := prec
			if p < 0 {
				p = 6
			}
			s = strconv.FormatFloat(a, byte(verb), p, 64)
			if math.IsInf(a, 0) || math.IsNaN(a) {
				in.Unknown = "formatting of a non-finite number"
			}
		default:
			in.Unknown = "undocumented format verb %" + string(verb)
		}
		if pad := width - runeLen(s); pad > 0 {
			switch {
			case left:
				s += strings.Repeat(" ", pad)
			case zero && (verb == 'f' || verb == 'e' || verb == 'v' && isNumber(arg)):
				neg := strings.HasPrefix(s, "-")
				if neg {
					s = "-" + strings.Repeat("0", pad) + s[1:]
				} else {
					s = strings.Repeat("0", pad) + s
				}
			case zero:
				in.Unknown = "zero padding of a non-number"
				s = strings.Repeat(" ", pad) + s
			default:
				s = strings.Repeat(" ", pad) + s
			}
		}
		b.WriteString(s)
	}
	if ai < len(args) {
		in.Unknown = "too many arguments for format"
	}
	return b.String()
}

func isNumber(v Value) bool { _, ok := v.(float64); return ok }

var fontProps = map[string]string{"family": "string", "size": "num", "weight": "num", "style": "string", "baseline": "string", "align": "string", "letterspacing": "num"}

func (in *Interp) font(m *Map) Value {
	bad := 0
	parts := []string{}
	for _, k := range sortedKeys(m.M) {
		want, ok := fontProps[k]
		v := unwrap(m.M[k])
		switch {
		case !ok:
			bad++
		case want == "string":
			s, isStr := v.(string)
			if !isStr {
				bad++
			} else if (k == "align" && s != "left" && s != "center" && s != "right") || (k == "baseline" && s != "top" && s != "middle" && s != "bottom" && s != "alphabetic") {
				bad++
			}
		case want == "num":
			n, isNum := v.(float64)
			if !isNum {
				bad++
			} else if (k == "size" || k == "weight") && !(n > 0) {
				bad++
			}
		}
		switch x := v.(type) {
		case float64:
			parts = append(parts, k+"="+f64(x))
		default:
			parts = append(parts, k+"="+String(v))
		}
	}
	if bad > 0 {
		panic(Panic{"bad-arguments", "invalid font properties"})
	}
	in.emit(strings.TrimSpace("font " + strings.Join(parts, " ")))
	return nil
}
