// Package gen holds the harness's own AST of Evy programs, a printer that renders an AST
// under different legal layouts, and type-directed program generators. The AST is independent
// of the parser under test: the generator knows the tree shape and the static types the
// specification assigns without looking at how the text will be parsed.
package gen

import (
	"strings"
)

type Kind int

const (
	Num Kind = iota
	Str
	Bool
	Any
	Arr
	Map
	None
)

type Type struct {
	K   Kind
	Sub *Type
}

var (
	TNum  = &Type{K: Num}
	TStr  = &Type{K: Str}
	TBool = &Type{K: Bool}
	TAny  = &Type{K: Any}
	TNone = &Type{K: None}
)

func ArrOf(t *Type) *Type { return &Type{K: Arr, Sub: t} }
func MapOf(t *Type) *Type { return &Type{K: Map, Sub: t} }

func (t *Type) String() string {
	switch t.K {
	case Num:
		return "num"
	case Str:
		return "string"
	case Bool:
		return "bool"
	case Any:
		return "any"
	case Arr:
		return "[]" + t.Sub.String()
	case Map:
		return "{}" + t.Sub.String()
	}
	return ""
}

func (t *Type) Eq(u *Type) bool {
	if t == nil || u == nil {
		return t == u
	}
	if t.K != u.K {
		return false
	}
	if t.K == Arr || t.K == Map {
		return t.Sub.Eq(u.Sub)
	}
	return true
}

func (t *Type) IsComposite() bool { return t.K == Arr || t.K == Map }

// ---------------------------------------------------------------------------------------------
// expressions

type Expr interface{ Ty() *Type }

type NumLit struct{ V float64 }
type StrLit struct{ V string }
type BoolLit struct{ V bool }
type VarRef struct {
	Name string
	T    *Type
}
type Unary struct {
	Op string // "-" or "!"
	X  Expr
}
type Binary struct {
	Op   string
	L, R Expr
	T    *Type
}
type Index struct {
	X, I Expr
	T    *Type
}
type Slice struct {
	X      Expr
	Lo, Hi Expr // may be nil
}
type Dot struct {
	X   Expr
	Key string
	T   *Type
}
type Assert struct {
	X Expr
	T *Type
}
type ArrLit struct {
	Elems []Expr
	T     *Type // full array type; Sub any => elements are ToAny nodes or any-typed expressions
	Multi bool  // print over several lines
}
type MapLit struct {
	Keys  []string
	Vals  []Expr
	T     *Type
	Multi bool
}
type Call struct {
	Name string
	Args []Expr
	T    *Type // return type (TNone for procedures)
}

// ToAny marks the implicit conversion of a non-any value to any; it prints as its operand.
type ToAny struct{ X Expr }

// Paren is an explicit, semantically neutral pair of parentheses.
type Paren struct{ X Expr }

func (NumLit) Ty() *Type   { return TNum }
func (StrLit) Ty() *Type   { return TStr }
func (BoolLit) Ty() *Type  { return TBool }
func (e VarRef) Ty() *Type { return e.T }
func (e Unary) Ty() *Type {
	if e.Op == "!" {
		return TBool
	}
	return TNum
}
func (e Binary) Ty() *Type { return e.T }
func (e Index) Ty() *Type  { return e.T }
func (e Slice) Ty() *Type  { return e.X.Ty() }
func (e Dot) Ty() *Type    { return e.T }
func (e Assert) Ty() *Type { return e.T }
func (e ArrLit) Ty() *Type { return e.T }
func (e MapLit) Ty() *Type { return e.T }
func (e Call) Ty() *Type   { return e.T }
func (ToAny) Ty() *Type    { return TAny }
func (e Paren) Ty() *Type  { return e.X.Ty() }

// ---------------------------------------------------------------------------------------------
// statements

type Stmt interface{}

type Decl struct {
	Name  string
	T     *Type // declared type
	Typed bool  // x:T (zero value) ; otherwise x := Init
	Init  Expr
}
type Assign struct {
	Target Expr // VarRef, Index or Dot
	Val    Expr
}
type CallStmt struct{ C Call }
type If struct {
	Conds  []Expr
	Blocks [][]Stmt
	Else   []Stmt // nil = no else
}
type While struct {
	Cond Expr
	Body []Stmt
}
type For struct {
	Var  string // "" = no loop variable
	VarT *Type
	Args []Expr // numeric range: 1..3 expressions
	Over Expr   // array/string/map range (Args empty)
	Body []Stmt
}
type Break struct{}
type Return struct{ Val Expr }
type Param struct {
	Name string
	T    *Type
}
type FuncDef struct {
	Name     string
	Params   []Param
	Variadic bool // single variadic parameter Params[0]
	Ret      *Type
	Body     []Stmt
}
type Handler struct {
	Name   string
	Params []Param
	Body   []Stmt
}
type Comment struct{ Text string } // own-line comment
type Blank struct{}

// Program is a list of top-level statements (incl. FuncDef and Handler).
type Program struct {
	Stmts []Stmt
}

func quoteEvy(s string) string {
	// Evy string literals follow Go's double-quoted syntax (the lexer unquotes with strconv).
	var b strings.Builder
	b.WriteByte('"')
	for _, r := range s {
		switch r {
		case '"':
			b.WriteString(`\"`)
		case '\\':
			b.WriteString(`\\`)
		case '\n':
			b.WriteString(`\n`)
		case '\t':
			b.WriteString(`\t`)
		case '\r':
			b.WriteString(`\r`)
		default:
			if r < 0x20 || r == 0x7f {
				b.WriteString(`\x`)
				b.WriteByte("0123456789abcdef"[r>>4])
				b.WriteByte("0123456789abcdef"[r&15])
			} else {
				b.WriteRune(r)
			}
		}
	}
	b.WriteByte('"')
	return b.String()
}
