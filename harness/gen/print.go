package gen

import (
	"fmt"
	"math/rand"
	"strconv"
	"strings"
)

// Layout is a policy for rendering an AST as source text. A nil *Layout (or R == nil) is the
// canonical layout (what the formatter is documented to produce).
type Layout struct {
	R          *rand.Rand
	Parens     float64 // probability of a redundant pair of parentheses around a sub-expression
	Comments   float64 // probability of an end-of-line comment per statement
	OwnLine    float64 // probability of an own-line comment / blank lines between statements
	TightLoose float64 // probability that a binary operator in a loose context is printed without spaces
	Indent     bool    // random indentation
}

// RandomLayout returns a layout with all liberties switched on.
func RandomLayout(r *rand.Rand) *Layout {
	return &Layout{R: r, Parens: 0.12, Comments: 0.15, OwnLine: 0.1, TightLoose: 0.4, Indent: true}
}

type printer struct {
	b     strings.Builder
	lay   *Layout
	depth int
	ncomm int
}

func (p *printer) chance(prob float64) bool {
	return p.lay != nil && p.lay.R != nil && p.lay.R.Float64() < prob
}

func (p *printer) canonical() bool { return p.lay == nil || p.lay.R == nil }

// optWS returns optional whitespace for a place where the grammar allows any amount incl. none.
func (p *printer) optWS() string {
	if p.canonical() {
		return ""
	}
	return []string{"", "", " ", "  ", "\t"}[p.lay.R.Intn(5)]
}

// reqWS returns whitespace where at least one blank is required.
func (p *printer) reqWS() string {
	if p.canonical() {
		return " "
	}
	return []string{" ", " ", "  ", "\t", "   "}[p.lay.R.Intn(5)]
}

var binPrec = map[string]int{
	"or": 1, "and": 2, "==": 3, "!=": 3, "<": 4, "<=": 4, ">": 4, ">=": 4, "+": 5, "-": 5, "*": 6, "/": 6, "%": 6,
}

const (
	precLowest  = 0
	precUnary   = 7
	precPostfix = 8
)

// Print renders prog under lay.
func Print(prog *Program, lay *Layout) string {
	p := &printer{lay: lay}
	p.stmts(prog.Stmts)
	return p.b.String()
}

// PrintExpr renders one expression in a loose (top-level) context.
func PrintExpr(e Expr, lay *Layout) string {
	p := &printer{lay: lay}
	p.expr(e, precLowest, false)
	return p.b.String()
}

// PrintExprTight renders one expression as a call argument.
func PrintExprTight(e Expr, lay *Layout) string {
	p := &printer{lay: lay}
	p.expr(e, precLowest, true)
	return p.b.String()
}

func (p *printer) indent() {
	if !p.canonical() && p.lay.Indent {
		switch p.lay.R.Intn(4) {
		case 0:
			return
		case 1:
			p.b.WriteString(strings.Repeat("\t", p.depth))
			return
		case 2:
			p.b.WriteString(strings.Repeat(" ", p.lay.R.Intn(9)))
			return
		}
	}
	p.b.WriteString(strings.Repeat("    ", p.depth))
}

func (p *printer) eol() {
	if p.chance(p.lay0().Comments) {
		p.ncomm++
		p.b.WriteString(p.optWS() + "//" + p.optWS() + "c" + strconv.Itoa(p.ncomm))
	} else if !p.canonical() && p.lay.R.Intn(12) == 0 {
		p.b.WriteString(" ")
	}
	p.b.WriteString("\n")
}

func (p *printer) lay0() *Layout {
	if p.lay == nil {
		return &Layout{}
	}
	return p.lay
}

func (p *printer) between() {
	if p.chance(p.lay0().OwnLine) {
		switch p.lay.R.Intn(3) {
		case 0:
			p.b.WriteString("\n")
		case 1:
			p.indent()
			p.ncomm++
			p.b.WriteString("// own " + strconv.Itoa(p.ncomm) + "\n")
		case 2:
			p.b.WriteString("\n\n")
		}
	}
}

func (p *printer) stmts(ss []Stmt) {
	for _, s := range ss {
		p.between()
		p.stmt(s)
	}
}

func (p *printer) block(ss []Stmt) {
	p.depth++
	p.stmts(ss)
	p.depth--
}

func (p *printer) params(ps []Param, variadic bool) {
	for _, pa := range ps {
		p.b.WriteString(p.reqWS() + pa.Name + ":" + pa.T.String())
	}
	if variadic {
		p.b.WriteString("...")
	}
}

func (p *printer) stmt(s Stmt) {
	switch s := s.(type) {
	case Comment:
		p.indent()
		p.b.WriteString("// " + s.Text + "\n")
		return
	case Blank:
		p.b.WriteString("\n")
		return
	}
	p.indent()
	switch s := s.(type) {
	case Decl:
		if s.Typed {
			p.b.WriteString(s.Name + ":" + s.T.String())
		} else {
			p.b.WriteString(s.Name + p.looseOp(":="))
			p.expr(s.Init, precLowest, false)
		}
		p.eol()
	case Assign:
		p.target(s.Target)
		p.b.WriteString(p.looseOp("="))
		p.expr(s.Val, precLowest, false)
		p.eol()
	case CallStmt:
		p.callBody(s.C)
		p.eol()
	case If:
		for k, cond := range s.Conds {
			if k == 0 {
				p.b.WriteString("if" + p.reqWS())
			} else {
				p.indent()
				p.b.WriteString("else" + p.reqWS() + "if" + p.reqWS())
			}
			p.expr(cond, precLowest, false)
			p.eol()
			p.block(s.Blocks[k])
		}
		if s.Else != nil {
			p.indent()
			p.b.WriteString("else")
			p.eol()
			p.block(s.Else)
		}
		p.indent()
		p.b.WriteString("end")
		p.eol()
	case While:
		p.b.WriteString("while" + p.reqWS())
		p.expr(s.Cond, precLowest, false)
		p.eol()
		p.block(s.Body)
		p.indent()
		p.b.WriteString("end")
		p.eol()
	case For:
		p.b.WriteString("for" + p.reqWS())
		if s.Var != "" {
			p.b.WriteString(s.Var + p.looseOp(":="))
		}
		p.b.WriteString("range")
		if s.Over != nil {
			p.b.WriteString(p.reqWS())
			p.expr(s.Over, precLowest, true)
		} else {
			for _, a := range s.Args {
				p.b.WriteString(p.reqWS())
				p.expr(a, precLowest, true)
			}
		}
		p.eol()
		p.block(s.Body)
		p.indent()
		p.b.WriteString("end")
		p.eol()
	case Break:
		p.b.WriteString("break")
		p.eol()
	case Return:
		p.b.WriteString("return")
		if s.Val != nil {
			p.b.WriteString(p.reqWS())
			p.expr(s.Val, precLowest, false)
		}
		p.eol()
	case FuncDef:
		p.b.WriteString("func" + p.reqWS() + s.Name)
		if s.Ret != nil && s.Ret.K != None {
			p.b.WriteString(":" + s.Ret.String())
		}
		p.params(s.Params, s.Variadic)
		p.eol()
		p.block(s.Body)
		p.indent()
		p.b.WriteString("end")
		p.eol()
	case Handler:
		p.b.WriteString("on" + p.reqWS() + s.Name)
		p.params(s.Params, false)
		p.eol()
		p.block(s.Body)
		p.indent()
		p.b.WriteString("end")
		p.eol()
	default:
		panic(fmt.Sprintf("print: unknown statement %T", s))
	}
}

// looseOp prints := or = with the whitespace a loose context allows.
func (p *printer) looseOp(op string) string {
	if p.canonical() {
		return " " + op + " "
	}
	return p.optWS() + op + p.optWS()
}

func (p *printer) callBody(c Call) {
	p.b.WriteString(c.Name)
	for _, a := range c.Args {
		p.b.WriteString(p.reqWS())
		p.expr(a, precLowest, true)
	}
}

func formatNum(v float64) string { return strconv.FormatFloat(v, 'f', -1, 64) }

// expr prints e. min is the lowest binary precedence that may appear unparenthesised here; tight
// says that no whitespace may be emitted outside brackets.
func (p *printer) expr(e Expr, min int, tight bool) {
	if _, isParen := e.(Paren); !isParen && p.chance(p.lay0().Parens) {
		if _, isAny := e.(ToAny); !isAny {
			e = Paren{X: e}
		}
	}
	switch e := e.(type) {
	case NumLit:
		p.b.WriteString(formatNum(e.V))
	case StrLit:
		p.b.WriteString(quoteEvy(e.V))
	case BoolLit:
		p.b.WriteString(strconv.FormatBool(e.V))
	case VarRef:
		p.b.WriteString(e.Name)
	case ToAny:
		p.expr(e.X, min, tight)
	case Paren:
		p.b.WriteString("(" + p.optWS())
		p.expr(e.X, precLowest, false)
		p.b.WriteString(p.optWS() + ")")
	case Unary:
		if min > precUnary {
			p.paren(e)
			return
		}
		p.b.WriteString(e.Op)
		p.expr(e.X, precUnary, tight)
	case Binary:
		pr := binPrec[e.Op]
		word := e.Op == "and" || e.Op == "or"
		if pr < min || (tight && word) {
			p.paren(e)
			return
		}
		p.expr(e.L, pr, tight)
		switch {
		case tight:
			p.b.WriteString(e.Op)
		case word:
			p.b.WriteString(p.reqWS() + e.Op + p.reqWS())
		case p.canonical():
			p.b.WriteString(" " + e.Op + " ")
		case p.chance(p.lay.TightLoose):
			p.b.WriteString(e.Op)
		default:
			p.b.WriteString(p.optWS() + e.Op + p.optWS())
		}
		p.expr(e.R, pr+1, tight)
	case Index:
		p.expr(e.X, precPostfix, tight)
		p.b.WriteString("[" + p.optWS())
		p.expr(e.I, precLowest, false)
		p.b.WriteString(p.optWS() + "]")
	case Slice:
		p.expr(e.X, precPostfix, tight)
		p.b.WriteString("[" + p.optWS())
		if e.Lo != nil {
			p.expr(e.Lo, precLowest, false)
			p.b.WriteString(p.optWS())
		}
		p.b.WriteString(":")
		if e.Hi != nil {
			p.b.WriteString(p.optWS())
			p.expr(e.Hi, precLowest, false)
		}
		p.b.WriteString(p.optWS() + "]")
	case Dot:
		p.expr(e.X, precPostfix, tight)
		p.b.WriteString("." + e.Key)
	case Assert:
		p.expr(e.X, precPostfix, tight)
		p.b.WriteString(".(" + p.optWS() + e.T.String() + p.optWS() + ")")
	case Call:
		p.b.WriteString("(" + p.optWS())
		p.callBody(e)
		p.b.WriteString(p.optWS() + ")")
	case ArrLit:
		p.b.WriteString("[")
		p.litItems(len(e.Elems), e.Multi, func(i int) { p.expr(e.Elems[i], precLowest, true) })
		p.b.WriteString("]")
	case MapLit:
		p.b.WriteString("{")
		p.litItems(len(e.Keys), e.Multi, func(i int) {
			p.b.WriteString(e.Keys[i] + ":")
			p.expr(e.Vals[i], precLowest, true)
		})
		p.b.WriteString("}")
	default:
		panic(fmt.Sprintf("print: unknown expression %T", e))
	}
}

func (p *printer) litItems(n int, multi bool, item func(i int)) {
	if n == 0 {
		if !p.canonical() && p.lay.R.Intn(6) == 0 {
			p.b.WriteString(" ")
		}
		if p.chance(p.lay0().Comments) {
			// an empty literal spread over several lines with a comment inside
			p.ncomm++
			p.b.WriteString("\n")
			p.depth++
			p.indent()
			p.b.WriteString("// empty " + strconv.Itoa(p.ncomm) + "\n")
			p.depth--
			p.indent()
		}
		return
	}
	if multi {
		p.b.WriteString("\n")
		p.depth++
		for i := 0; i < n; i++ {
			p.indent()
			item(i)
			if p.chance(p.lay0().Comments) {
				p.ncomm++
				p.b.WriteString(" // e" + strconv.Itoa(p.ncomm))
			}
			p.b.WriteString("\n")
			if p.chance(p.lay0().OwnLine) {
				p.b.WriteString("\n")
			}
		}
		p.depth--
		p.indent()
		return
	}
	if !p.canonical() {
		p.b.WriteString(p.optWS())
	}
	for i := 0; i < n; i++ {
		if i > 0 {
			p.b.WriteString(p.reqWS())
		}
		item(i)
	}
	if !p.canonical() {
		p.b.WriteString(p.optWS())
	}
}

func (p *printer) paren(e Expr) {
	p.b.WriteString("(" + p.optWS())
	p.expr(e, precLowest, false)
	p.b.WriteString(p.optWS() + ")")
}

// target prints an assignment target: no parentheses, no whitespace before "[" or around ".".
func (p *printer) target(e Expr) {
	switch e := e.(type) {
	case VarRef:
		p.b.WriteString(e.Name)
	case Index:
		p.target(e.X)
		p.b.WriteString("[" + p.optWS())
		p.expr(e.I, precLowest, false)
		p.b.WriteString(p.optWS() + "]")
	case Dot:
		p.target(e.X)
		p.b.WriteString("." + e.Key)
	default:
		panic(fmt.Sprintf("print: bad assignment target %T", e))
	}
}
