package gen

import (
	"fmt"
	"math/rand"
)

// VarInfo is a variable visible to the expression generator.
type VarInfo struct {
	Name string
	T    *Type
	// Holds is the dynamic type of an any-typed variable (nil if unknown).
	Holds *Type
	// Len is the current length of an array or string variable (-1 if unknown); Keys the
	// current keys of a map variable.
	Len  int
	Keys []string
}

// FuncInfo is a callable visible to the expression generator.
type FuncInfo struct {
	Name   string
	Params []*Type
	Ret    *Type
}

// ExprGen generates typed expressions over a set of variables and functions.
type ExprGen struct {
	R      *rand.Rand
	Vars   []VarInfo
	Funcs  []FuncInfo
	Unsafe float64 // probability of choosing an index/key without regard to bounds
	NoCall bool
	Ops    map[string]int // operator usage counters
	Pairs  map[string]int // (outer op, inner op, side) counters
}

func NewExprGen(r *rand.Rand) *ExprGen {
	return &ExprGen{R: r, Ops: map[string]int{}, Pairs: map[string]int{}, Unsafe: 0.03}
}

func (g *ExprGen) varsOf(t *Type) []VarInfo {
	var out []VarInfo
	for _, v := range g.Vars {
		if v.T.Eq(t) {
			out = append(out, v)
		}
	}
	return out
}

func (g *ExprGen) funcsRet(t *Type) []FuncInfo {
	var out []FuncInfo
	for _, f := range g.Funcs {
		if f.Ret.Eq(t) {
			out = append(out, f)
		}
	}
	return out
}

var numPool = []float64{0, 1, 2, 3, 4, 5, 7, 10, 0.5, 2.5, 0.25, 1.5, 100, 1000000, 0.1, 3.75, 12345.678}
var strPool = []string{"", "a", "b", "ab", "abc", "hello", "é", "aé🌍", "Z", "x y", "10", "\"q\"", "a\\b", "tab\there", "ü🌍ü"}

func (g *ExprGen) pickNum() float64 { return numPool[g.R.Intn(len(numPool))] }
func (g *ExprGen) pickStr() string  { return strPool[g.R.Intn(len(strPool))] }

var basicTypes = []*Type{TNum, TStr, TBool}

// RandType returns a random type up to the nesting depth.
func (g *ExprGen) RandType(depth int) *Type {
	k := g.R.Intn(10)
	if depth <= 0 || k < 6 {
		return basicTypes[g.R.Intn(3)]
	}
	if k < 8 {
		return ArrOf(g.RandType(depth - 1))
	}
	return MapOf(g.RandType(depth - 1))
}

func (g *ExprGen) bin(op string, l, r Expr, t *Type) Expr {
	g.Ops[op+":"+l.Ty().String()]++
	note := func(side string, e Expr) {
		for {
			switch x := e.(type) {
			case Paren:
				e = x.X
				continue
			case ToAny:
				e = x.X
				continue
			case Binary:
				g.Pairs[op+"/"+x.Op+"/"+side]++
			case Unary:
				g.Pairs[op+"/u"+x.Op+"/"+side]++
			}
			return
		}
	}
	note("L", l)
	note("R", r)
	return Binary{Op: op, L: l, R: r, T: t}
}

// Expr returns an expression of static type t.
func (g *ExprGen) Expr(t *Type, depth int) Expr {
	switch t.K {
	case Num:
		return g.num(depth)
	case Str:
		return g.str(depth)
	case Bool:
		return g.boolean(depth)
	case Arr:
		return g.arr(t, depth)
	case Map:
		return g.mapv(t, depth)
	case Any:
		if vs := g.varsOf(TAny); len(vs) > 0 && g.R.Intn(2) == 0 {
			v := vs[g.R.Intn(len(vs))]
			return VarRef{Name: v.Name, T: TAny}
		}
		ct := g.RandType(1)
		return ToAny{X: g.Expr(ct, depth)}
	}
	panic("gen: expr of " + t.String())
}

func (g *ExprGen) leaf(t *Type) Expr {
	if vs := g.varsOf(t); len(vs) > 0 && g.R.Intn(3) > 0 {
		v := vs[g.R.Intn(len(vs))]
		return VarRef{Name: v.Name, T: v.T}
	}
	switch t.K {
	case Num:
		return NumLit{V: g.pickNum()}
	case Str:
		return StrLit{V: g.pickStr()}
	case Bool:
		return BoolLit{V: g.R.Intn(2) == 0}
	}
	return g.Expr(t, 0)
}

func (g *ExprGen) call(t *Type, depth int) (Expr, bool) {
	if g.NoCall {
		return nil, false
	}
	fs := g.funcsRet(t)
	if len(fs) == 0 {
		return nil, false
	}
	f := fs[g.R.Intn(len(fs))]
	c := Call{Name: f.Name, T: f.Ret}
	for _, pt := range f.Params {
		if pt.K == Any {
			c.Args = append(c.Args, ToAny{X: g.Expr(g.RandType(1), depth-1)})
		} else {
			c.Args = append(c.Args, g.Expr(pt, depth-1))
		}
	}
	return c, true
}

// fromContainer returns an element/field read of type t from some container variable.
func (g *ExprGen) fromContainer(t *Type, depth int) (Expr, bool) {
	var cands []VarInfo
	for _, v := range g.Vars {
		if (v.T.K == Arr || v.T.K == Map) && v.T.Sub.Eq(t) {
			cands = append(cands, v)
		}
		if t.K == Str && v.T.K == Str {
			cands = append(cands, v)
		}
	}
	if len(cands) == 0 {
		return nil, false
	}
	v := cands[g.R.Intn(len(cands))]
	base := VarRef{Name: v.Name, T: v.T}
	unsafe := g.R.Float64() < g.Unsafe
	switch v.T.K {
	case Arr, Str:
		if v.Len <= 0 && !unsafe {
			return nil, false
		}
		i := 0
		if unsafe || v.Len < 0 {
			i = g.R.Intn(7) - 3
		} else {
			i = g.R.Intn(2*v.Len) - v.Len
		}
		var idx Expr = NumLit{V: float64(i)}
		if i < 0 {
			idx = Unary{Op: "-", X: NumLit{V: float64(-i)}}
		}
		if depth > 1 && i >= 0 && g.R.Intn(4) == 0 { // computed index
			idx = g.bin("-", NumLit{V: float64(i + 2)}, NumLit{V: 2}, TNum)
		}
		rt := v.T.Sub
		if v.T.K == Str {
			rt = TStr
		}
		return Index{X: base, I: idx, T: rt}, true
	case Map:
		if len(v.Keys) == 0 && !unsafe {
			return nil, false
		}
		key := "zz"
		if len(v.Keys) > 0 && !unsafe {
			key = v.Keys[g.R.Intn(len(v.Keys))]
		}
		if g.R.Intn(2) == 0 {
			return Dot{X: base, Key: key, T: v.T.Sub}, true
		}
		return Index{X: base, I: StrLit{V: key}, T: v.T.Sub}, true
	}
	return nil, false
}

func (g *ExprGen) assertAny(t *Type) (Expr, bool) {
	var cands []VarInfo
	for _, v := range g.Vars {
		if v.T.K == Any && v.Holds != nil && (v.Holds.Eq(t) || g.R.Float64() < g.Unsafe) {
			cands = append(cands, v)
		}
	}
	if len(cands) == 0 {
		return nil, false
	}
	v := cands[g.R.Intn(len(cands))]
	return Assert{X: VarRef{Name: v.Name, T: TAny}, T: t}, true
}

func (g *ExprGen) num(depth int) Expr {
	if depth <= 0 {
		return g.leaf(TNum)
	}
	switch g.R.Intn(12) {
	case 0, 1, 2, 3, 4:
		op := []string{"+", "-", "*", "/", "%"}[g.R.Intn(5)]
		return g.bin(op, g.num(depth-1), g.num(depth-1), TNum)
	case 5:
		return Unary{Op: "-", X: g.num(depth - 1)}
	case 6:
		if e, ok := g.call(TNum, depth); ok {
			return e
		}
	case 7:
		if e, ok := g.fromContainer(TNum, depth); ok {
			return e
		}
	case 8:
		if e, ok := g.assertAny(TNum); ok {
			return e
		}
	case 9:
		if !g.NoCall {
			inner := g.Expr([]*Type{TStr, ArrOf(TNum), MapOf(TNum), ArrOf(TStr)}[g.R.Intn(4)], depth-1)
			return Call{Name: "len", Args: []Expr{ToAny{X: inner}}, T: TNum}
		}
	}
	return g.leaf(TNum)
}

func (g *ExprGen) str(depth int) Expr {
	if depth <= 0 {
		return g.leaf(TStr)
	}
	switch g.R.Intn(10) {
	case 0, 1, 2:
		return g.bin("+", g.str(depth-1), g.str(depth-1), TStr)
	case 3:
		if e, ok := g.call(TStr, depth); ok {
			return e
		}
	case 4:
		if e, ok := g.fromContainer(TStr, depth); ok {
			return e
		}
	case 5:
		if e, ok := g.assertAny(TStr); ok {
			return e
		}
	case 6:
		// slice of a string variable or literal
		s := g.leaf(TStr)
		n := -1
		switch x := s.(type) {
		case StrLit:
			n = len([]rune(x.V))
		case VarRef:
			for _, v := range g.Vars {
				if v.Name == x.Name {
					n = v.Len
				}
			}
		}
		if n >= 0 {
			a := g.R.Intn(n + 1)
			b := a + g.R.Intn(n-a+1)
			sl := Slice{X: s}
			if g.R.Intn(3) > 0 {
				sl.Lo = NumLit{V: float64(a)}
			} else {
				a = 0
			}
			if g.R.Intn(3) > 0 {
				sl.Hi = NumLit{V: float64(b)}
			}
			return sl
		}
	case 7:
		if !g.NoCall {
			return Call{Name: "sprint", Args: []Expr{ToAny{X: g.Expr(g.RandType(1), depth-1)}, ToAny{X: g.Expr(g.RandType(0), depth-1)}}, T: TStr}
		}
	}
	return g.leaf(TStr)
}

func (g *ExprGen) boolean(depth int) Expr {
	if depth <= 0 {
		return g.leaf(TBool)
	}
	switch g.R.Intn(12) {
	case 0, 1:
		op := []string{"and", "or"}[g.R.Intn(2)]
		return g.bin(op, g.boolean(depth-1), g.boolean(depth-1), TBool)
	case 2:
		return Unary{Op: "!", X: g.boolean(depth - 1)}
	case 3, 4:
		op := []string{"<", "<=", ">", ">="}[g.R.Intn(4)]
		if g.R.Intn(3) == 0 {
			return g.bin(op, g.str(depth-1), g.str(depth-1), TBool)
		}
		return g.bin(op, g.num(depth-1), g.num(depth-1), TBool)
	case 5, 6:
		op := []string{"==", "!="}[g.R.Intn(2)]
		t := g.RandType(1)
		if avs := g.varsOf(TAny); len(avs) > 0 && g.R.Intn(6) == 0 {
			// any == any: both operands must be any-typed by themselves (no conversion context)
			a, b := avs[g.R.Intn(len(avs))], avs[g.R.Intn(len(avs))]
			return g.bin(op, VarRef{Name: a.Name, T: TAny}, VarRef{Name: b.Name, T: TAny}, TBool)
		}
		return g.bin(op, g.Expr(t, depth-1), g.Expr(t, depth-1), TBool)
	case 7:
		if e, ok := g.call(TBool, depth); ok {
			return e
		}
	case 8:
		if e, ok := g.fromContainer(TBool, depth); ok {
			return e
		}
	case 9:
		if e, ok := g.assertAny(TBool); ok {
			return e
		}
	}
	return g.leaf(TBool)
}

func hasAny(t *Type) bool {
	for ; t != nil; t = t.Sub {
		if t.K == Any {
			return true
		}
	}
	return false
}

func (g *ExprGen) arr(t *Type, depth int) Expr {
	vs := g.varsOf(t)
	k := g.R.Intn(10)
	if hasAny(t) {
		// literals of any-based composite types are only well-typed in conversion contexts;
		// in general positions use variables and operations on them
		if len(vs) == 0 {
			panic("gen: no variable of type " + t.String())
		}
		if k > 5 {
			k = 0
		}
	}
	switch {
	case len(vs) > 0 && k < 3:
		v := vs[g.R.Intn(len(vs))]
		return VarRef{Name: v.Name, T: v.T}
	case depth > 0 && k == 3:
		return g.bin("+", g.arr(t, depth-1), g.arr(t, depth-1), t)
	case depth > 0 && k == 4:
		n := float64(g.R.Intn(3))
		return g.bin("*", g.arr(t, depth-1), NumLit{V: n}, t)
	case depth > 0 && k == 5 && len(vs) > 0:
		v := vs[g.R.Intn(len(vs))]
		if v.Len >= 0 {
			a := g.R.Intn(v.Len + 1)
			b := a + g.R.Intn(v.Len-a+1)
			return Slice{X: VarRef{Name: v.Name, T: v.T}, Lo: NumLit{V: float64(a)}, Hi: NumLit{V: float64(b)}}
		}
	case k == 6:
		if e, ok := g.call(t, depth); ok {
			return e
		}
	}
	if hasAny(t) {
		v := vs[g.R.Intn(len(vs))]
		return VarRef{Name: v.Name, T: v.T}
	}
	// literal: at least one element so that its inferred type is t (sub-expressions with a fixed
	// type keep the literal from converting, which is fine here: the element type is exactly t.Sub)
	n := 1 + g.R.Intn(3)
	lit := ArrLit{T: t}
	for i := 0; i < n; i++ {
		lit.Elems = append(lit.Elems, g.Expr(t.Sub, depth-1))
	}
	return lit
}

func (g *ExprGen) mapv(t *Type, depth int) Expr {
	vs := g.varsOf(t)
	if len(vs) > 0 && (g.R.Intn(3) == 0 || hasAny(t)) {
		v := vs[g.R.Intn(len(vs))]
		return VarRef{Name: v.Name, T: v.T}
	}
	n := 1 + g.R.Intn(3)
	lit := MapLit{T: t}
	keys := []string{"a", "b", "c", "k1", "name", "end", "x"}
	g.R.Shuffle(len(keys), func(i, j int) { keys[i], keys[j] = keys[j], keys[i] })
	for i := 0; i < n; i++ {
		lit.Keys = append(lit.Keys, keys[i])
		lit.Vals = append(lit.Vals, g.Expr(t.Sub, depth-1))
	}
	return lit
}

// Name helpers
func VarName(prefix string, i int) string { return fmt.Sprintf("%s%d", prefix, i) }
