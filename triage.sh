#!/bin/bash
# triage helper: run a check, list violation classes, minimise parser/evaluator crashes
ID=$1; MODE=${2:-parsepanic}; shift; shift
./check $ID "$@" 2>&1 | grep -E "key=|tier=" | sort | uniq -c | sort -rn
for f in /verif/replay/$ID/*.json; do [ -f "$f" ] && /verif/.build/ddmin $MODE $f 2>/dev/null | tail -1; done | sort | uniq -c
