#!/bin/bash
# Offline setup: verify the toolchain and warm the build cache (harness with hooks, evy binary).
set -e
cd "$(dirname "$0")"
export GOFLAGS=-mod=mod GOPROXY=off GOSUMDB=off GOTOOLCHAIN=local
go version
mkdir -p .build evidence
(cd harness && go build -tags verif -o ../.build/verifd-setup ./cmd/verifd && go build -tags verif -o ../.build/ddmin ./cmd/ddmin)
(cd "${VERIF_REPO:-/repo}" && go build -o /verif/.build/evy-setup .)
./.build/verifd-setup list
rm -f .build/verifd-setup .build/evy-setup
