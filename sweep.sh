#!/bin/bash
# usage: sweep.sh <tier> <seed>...   runs every check on the current /repo tree; prints one line per check
cd "$(dirname "$0")"
TIER=$1; shift
for seed in "$@"; do
  for n in $(seq -w 1 20); do
    id=C$n
    out=$(VERIF_SEED=$seed ./check $id --tier $TIER 2>&1); code=$?
    echo "seed=$seed $id exit=$code $(echo "$out" | grep 'tier=' | head -1) viol=$(echo "$out" | grep -c '^VIOLATION')"
    if [ $code -ne 0 ]; then echo "$out" | grep -A3 '^VIOLATION' | head -20; fi
  done
done
