#!/usr/bin/env python3
"""Regenerates MANIFEST.json from the table below (kept in one place so that it stays valid)."""
import json, subprocess

CHECKS = {
 # id: (level, technique, text, note, design_ref)
 "C03": ("exploration", "crash/hang/position monitor over mutated, truncated and hostile inputs (in-process recover + journalled child processes)",
         "Runs the real lexer and parser on hundreds of thousands (quick) to millions (thorough) of prefixes, token edits, splices, byte noise and seeded located mistakes derived from the 382-file corpus and the documentation examples; a closed-form oracle judges every token position/type, every diagnostic's format and location, program-xor-errors, panics, process deaths and watchdog firings. Held-on-observed-executions, not a proof; right level because the property quantifies over all strings and only an input-independent oracle scales to inputs nobody wrote.",
         "Trusts the Go runtime, the harness position recomputation (rune/newline counting) and the watchdog (120 s per batch, 600 s alone) as a stand-in for termination; inputs capped at 64 KiB; NUL not judged.", "DESIGN.md §7 C03"),
 "C01": ("exploration", "reference-model trace monitor: generator-known expression trees, effectful probes, layout variants; parsed tree compared with generator tree",
         "Type-directed random expression trees plus the systematic table of all (outer operator, inner operator, side) pairs are printed under canonical and random legal layouts, run on the real parser+evaluator behind a recording Platform and compared effect by effect with a reference interpreter that evaluates the generator's own tree; the tree the parser built is compared with the tree the text was printed from.",
         "Trusts the reference interpreter (harness/ref, calibrated: agrees with the evaluator on all judged corpus and documentation programs) and the printer's knowledge of the grammar (calibrated: every corpus program re-parses to the same tree under random layouts).", "DESIGN.md §7 C01"),
 "C11": ("exploration", "closed-form law oracle over an exhaustive grid of containers x access forms x indices/bounds, one execution per access",
         "Every array/string of length 0..3 (quick) / 0..5 (thorough) over several element and character classes is read, sliced and stored through every integer index in [-n-2,n+2], fractional, huge, NaN, infinite and -0 indices and all ordered pairs of slice bounds; outcome and panic kind are judged by the law in the property statement, not by reference code.",
         "Panic kind for |i| >= 2^63 may be bounds or not-an-integer; for slices with several bad bounds any applicable kind is accepted.", "DESIGN.md §7 C11"),
 "C02": ("exploration", "outcome classifier + dynamic type-conformance monitor on the verif evaluation hook, over hostile generated programs, accepted mutants and the corpus; journalled child processes catch host crashes",
         "Every evaluation step of thousands of accepted programs is observed through the verif hook: the value must conform to the static type of its node, any values must carry a concrete fully typed tag and a conforming non-any payload; the run may only end normally, by an Evy panic, exit, failed tests or the harness's own stop. Workers run as journalled child processes with an address-space cap so that fatal runtime errors are attributed to one input.",
         "Hook is add-only and observational; conformance checked to depth 4 / 32 elements per step; D13/D14 are open findings (unbounded recursion, unbounded repetition).", "DESIGN.md §7 C02"),
 "C09": ("exploration", "reference store-model trace monitor over enumerated (alias creation x update) pairs/triples and random alias programs",
         "Alias programs create aliases in 24 ways (declaration, assignment, parameters, variadic, return, element/field store, literals, any, assertion, loop variables, slice, concatenation, repetition) for basic, composite, nested, any values and err/errmsg, update through one name in 14 ways (incl. conversions that rewrite err/errmsg) and print every live name after every step; the trace is compared with the reference store model.",
         "Trusts harness/ref (immutable basic values, shared composites).", "DESIGN.md §7 C09"),
 "C10": ("exploration", "reference trace monitor over the full numeric range grid and random control-flow skeletons with entry/exit prints of all visible names",
         "All 584 numeric ranges over {-3,-1,-0.5,0,0.25,1,2.5,4}^3 in 1-, 2-, 3-argument form, and random nestings of if/else-if/else, while, four for kinds and calls with shadowing, updates of outer variables, conditional break/return, probes in loop headers, map mutation while ranging, recursion and call-before-definition; traces compared with the reference interpreter.",
         "Trusts harness/ref; arrays are not mutated while ranged over.", "DESIGN.md §7 C10"),
 "C12": ("exploration", "history + executable sequential model: map histories as single Evy programs, observations compared with an insertion-ordered dictionary; representation invariant on the eval hook (via C02)",
         "All histories up to length 3 (quick) / 4 (thorough) over an 11-operation alphabet on three keys plus random histories up to length 14 with aliases, non-identifier keys, missing-key lookups and order-independent deep equality; every history prints the map, len, has and visited keys after every operation.",
         "Sequential model ref.Map; histories are total orders (single-threaded), so no linearizability search is needed.", "DESIGN.md §7 C12"),
 "C13": ("exploration", "reference-table monitor: one execution per (built-in, argument classes) cell; documentation examples replayed; exit status/stderr observed through the real binary",
         "The full grid of non-graphics built-ins x argument classes (incl. NaN, infinities, -0, huge, empty and non-ASCII strings), sprintf verbs x flags x width x precision x argument types, test with 1..5 arguments, err/errmsg protocol sequences, rand by predicate, all documentation examples with evy:output, and exit status / stderr / stdout of evy run for exit, panic and test cells.",
         "Reference table written from docs/builtins.md; undocumented regions are listed as widenings in the evidence and not judged.", "DESIGN.md §7 C13"),
 "C04": ("exploration", "exhaustive matrix of tiny programs (target type x value descriptor x context, operator table, literal inference over all element multisets and permutations) judged by transcribed specification rules; acceptance and printed typeof observed on the real parser/evaluator",
         "Every cell of the assignability matrix over all types up to nesting depth 1 (quick) / 2 (thorough), seven contexts, 13 operators over all ordered type pairs with variable and constant operands, unary/index/slice/field/assertion/condition/range contexts and the inferred type of array and map literals for every multiset of 2-3 element kinds in every order (and repeated runs) is executed once.",
         "Oracle is a transcription of docs/spec.md; cells the documents leave open are counted and not judged (see evidence).", "DESIGN.md §7 C04"),
 "C05": ("exploration", "single-edit rejection monitor: valid generated base + one rule-breaking edit at every applicable line; recording platform must stay empty; real evy run observed for stdout/stderr/status/SVG file",
         "Each base program (effects at the very start and in every block, functions, a handler, graphics) receives every applicable edit of a 24-kind catalogue at every line; Evaluator.Run must return located parser errors, perform no Platform call and no evaluation step; a sample goes through evy run with and without --svg-out.",
         "Base programs come from the C10 generator; an accepted edit or a rejected base is reported, never skipped.", "DESIGN.md §7 C05"),
 "C08": ("exploration", "repetition monitor: identical inputs re-executed R times in-process (Go's randomised map iteration as adversarial schedule) and in fresh evy processes; byte equality of all observables",
         "Programs built to have something to permute are observed 24 (quick) / 104 (thorough) times each with fresh parser and evaluator, plus fresh evy run --rand-seed --svg-out - processes; parse error text, formatted text, platform trace and result must be byte-identical.",
         "Repetition counts derived from the measured map-order distribution of the image's Go toolchain.", "DESIGN.md §7 C08"),
 "C15": ("exploration", "metamorphic monitor (events vs equivalent procedure calls on the same evaluator) plus reference trace monitor; handler entry counting",
         "Random handler programs and event sequences (length <= 30, hostile payloads) are delivered through HandleEvent after Eval; the cumulative trace must equal that of the program with handlers rewritten as procedures and events as calls, and that of the reference interpreter; one entry marker per delivered event; locals start afresh.",
         "Events without a declared handler are not delivered (as pkg/wasm does).", "DESIGN.md §7 C15"),
 "C14": ("fault_enumeration", "stop-point enumeration against the uninterrupted run (metamorphic) + closed-form yield-density rules on the Yielder log and the verif step hook",
         "For generated terminating and endless programs the uninterrupted run is recorded with yield marks; the program is then re-run with the stop flag raised inside every yield (up to 300 / 3000 per program) and inside every platform effect; no yield may follow, effects must be the uninterrupted prefix plus at most the step in flight, the result must be 'stopped'. Density: yields between segment markers >= known iterations + calls; never more than 64 evaluation steps without a yield.",
         "Stop flag raised only from Yield or a platform call (single thread, as in the browser); loops inside built-ins are out of reach (see C02/D14).", "DESIGN.md §7 C14"),
 "C16": ("translation_validation", "differential monitor: VM final globals (verif hook, by symbol name, with map key order) vs evaluator final globals, error-class correspondence; compile-time error required for unsupported constructs",
         "Random programs inside the compiler's subset (every statement feeds a global) run on both implementations; all top-level variables must agree or both must fail with the corresponding error class; programs with one unsupported construct must be rejected by the compiler.",
         "Evaluator is the reference; regions of open findings D23a,b,d,e are fenced off and re-run by probes.", "DESIGN.md §7 C16"),
 "C17": ("exploration", "static bytecode verifier + VM trace monitor (sp vs static height, shadow-slot ownership) + symbol-table history model + 16-bit limit programs",
         "Every emitted bytecode program (random subset programs, 6-deep loop nests with breaks and block locals, 10^4-iteration loops, programs around every 16-bit limit) is decoded and abstractly interpreted, then executed under the trace hook; random Push/Pop/Define/Resolve histories are checked against a scope-stack model.",
         "Closed-form; ErrStackOverflow of the 2048-slot VM stack is a graceful error, not a crash.", "DESIGN.md §7 C17"),
 "C18": ("fault_enumeration", "strace -f kill-point and errno injection enumeration on the real evy binary; closed-form oracle over file bytes, mode, exit status, directory",
         "The real evy fmt -w runs on ten file shapes under strace: one run per (syscall kind, occurrence) kill point and per (file syscall, occurrence, errno) fault; after each run the file must hold its complete original or complete formatted text with unchanged mode, exit 0 implies formatted, unparsable input stays untouched with non-zero exit; evy fmt -c verdicts on every shape.",
         "Injections that did not fire (no INJECTED marker/kill in the strace log) are counted separately; short writes cannot be simulated faithfully with strace and are not enumerated; power-loss durability is not claimed.", "DESIGN.md §7 C18"),
 "C19": ("exploration", "reference pen model vs flattened SVG (strict XML parse, group nesting and inherited presentation attributes resolved to leaf shapes); library and real binary",
         "Random graphics call sequences with degenerate arguments are drawn through the cli SVG platform and (sampled) evy run --svg-out; the document must parse strictly and its flattened leaf shapes must equal the pen model's records in number, order, kind, geometry and effective style.",
         "Text fill may be pen fill or stroke; empty-string colours, NaN/Inf geometry, baseline mapping and ellipse angles are not judged; D18 and D19b are open findings frozen by golden files.", "DESIGN.md §7 C19"),
 "C20": ("exploration", "closed-form monitors: exhaustive tampering of sealed envelopes (round trip, every byte, truncations, base64 edits, foreign keys) and the exhaustive question grid for Verify",
         "Every sealed value of 20 text classes under 4 fresh key pairs is tampered at every byte position, truncated, spliced and decrypted with foreign keys: the result must be an error or the original text; Verify is run on every (choices 2..5, output assignment, marking, answer type) cell with choices as inline code, text blocks and executed evy blocks.",
         "Trusts Go crypto; key pairs are generated per worker.", "DESIGN.md §7 C20"),
 "C06": ("exploration", "metamorphic round-trip monitor: tokens, re-acceptance, tree and recorded behaviour of Format(s) vs s; evy fmt vs library",
         "For thousands of accepted sources (corpus, decorated with comments/blank lines/tabs, accepted token mutants, generated programs) compares the non-whitespace token sequence, the syntax tree and the recorded Platform trace of the formatted text with those of the source, and the real evy fmt with Program.Format.",
         "Tokens compared by (type,value); behaviour compared under fixed inputs/seed with positions stripped; lexer positions trusted only as far as C03 checks them.", "DESIGN.md §7 C06"),
 "C07": ("exploration", "idempotence + whitespace-variant metamorphic monitor + closed-form layout oracle + evy fmt -c observation",
         "For thousands of accepted sources and all enumerated runs of statements/comments/blank lines/func blocks: Format twice, 4-8 whitespace-amount variants must format identically, every formatted line is checked against the indentation/blank-line/trailing-space/final-newline rules, and evy fmt -c is run on formatted and unformatted files.",
         "Variant construction changes only amounts of whitespace at token level; indentation oracle reconstructs block depth from the formatted text itself.", "DESIGN.md §7 C07"),
}

NOT_YET = {}

def main():
    props = [json.loads(l) for l in open('/verif/properties.jsonl')]
    fixes = subprocess.run(['git','-C','/repo','log','--format=%H %s','--grep=^verif hooks','-i'],capture_output=True,text=True).stdout.split('\n')
    hook_commits = [l.split()[0] for l in fixes if l.strip()]
    checks = []
    na = []
    for p in props:
        pid = p['id']
        if pid in CHECKS:
            level, tech, text, note, ref = CHECKS[pid]
            checks.append({
                "property_id": pid,
                "quick_cmd": f"./check {pid} --tier quick",
                "thorough_cmd": f"./check {pid} --tier thorough",
                "evidence_file": f"/verif/evidence/{pid}.json",
                "replay_cmd_template": f"./check {pid} --replay {{path}}",
                "engine": "verifd",
                "level_claimed": {"category": level, "text": text, "design_ref": ref},
                "level_note": note,
                "technique": tech,
            })
        else:
            na.append({"property_id": pid, "reason": NOT_YET.get(pid, "check not built yet in this session (runtime monitoring applies; see DESIGN.md §7); not claimed until its monitor is registered")})
    m = {
        "version": 1,
        "setup_cmd": "./setup.sh",
        "hooks": {
            "guard": "verif",
            "enable": "go build -tags verif (the harness module replaces evylang.dev/evy with /repo; ./check does this on every invocation)",
            "baseline_off_cmd": "cd /repo && go test -vet=off -count=1 ./... && cd learn && go test -vet=off -count=1 ./...",
            "source_commits": hook_commits,
            "add_only": True,
        },
        "engines": [{"name": "verifd", "path": "/verif/harness", "serves_properties": sorted(CHECKS), "kind_free_text": "Go harness: deterministic case lists, journalled worker processes, recording Platform/Yielder, monitors and oracles per property"}],
        "checks": checks,
        "notes": "All checks decide by runtime monitoring of the real code. Verdicts are three-valued (violated / held on what was observed / inconclusive); known findings are in /verif/known_findings.json.",
        "not_applicable": na,
    }
    json.dump(m, open('/verif/MANIFEST.json','w'), indent=1)
    print("checks:", len(checks), "not claimed:", len(na))

main()
